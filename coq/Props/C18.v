(* C18 — vector expansion is a faithful renaming to scalars.
   Property theorems only; proofs live in Proofs/C18_expand.v; the model (Model/C18_expand.v) mirrors
   Model._expand_vectors and is compared with the real code on every run (check_case). *)
From Coq Require Import String List Arith ZArith.
From PV Require Import Model.C18_expand Model.C18_matrix Proofs.C18_expand Proofs.C18_total Proofs.C18_residual Proofs.C18_meta.
Import ListNotations.
Open Scope nat_scope.

(* element |-> scalar name is a bijection between the in-range index tuples of the array (for every
   shape: any number of nested components, any rank, der(...) wrapped or a delay state) and the
   generated names: np.ndindex lists exactly the tuples below the dimensions, once each; there are
   prod(dims) names; no two elements share a name *)
Theorem C18_bijection (name : string) (s : vshape) (names : list string) :
  opt_all (map (scalar_name name s) (ndindex (iter_dims s))) = Some names ->
  let dims := iter_dims s in
  (forall idx, In idx (ndindex dims) <-> Forall2 lt idx dims)
  /\ NoDup (ndindex dims)
  /\ map Some names = map (scalar_name name s) (ndindex dims)
  /\ length names = product dims
  /\ NoDup names
  /\ (forall i1 i2 n, Forall2 lt i1 dims -> Forall2 lt i2 dims ->
        scalar_name name s i1 = Some n -> scalar_name name s i2 = Some n -> i1 = i2).
Proof. exact (bijection name s names). Qed.
Print Assumptions C18_bijection.

(* ... and these are the names of the expanded variables, with prod(dims) of them *)
Theorem C18_expand_var_names (v : uvar) ex :
  expand_var v = Some ex ->
  let idxs := ndindex (iter_dims (ushape v)) in
  opt_all (map (scalar_name (uname v) (ushape v)) idxs) = Some (map fst ex)
  /\ map snd ex = map (fun idx => map (fun a => sel_attr a idx) (uattrs v)) idxs
  /\ length ex = product (iter_dims (ushape v)).
Proof. exact (expand_var_spec v ex). Qed.
Print Assumptions C18_expand_var_names.

(* indices in names are 1-based Modelica indices *)
Theorem C18_one_based (n : string) (i j d1 d2 : nat) :
  render [n] [[d1; d2]] [i; j]
  = (n ++ "[" ++ show_nat (i + 1) ++ "," ++ show_nat (j + 1) ++ "]")%string.
Proof. exact (one_based n i j d1 d2). Qed.
Print Assumptions C18_one_based.

(* the matrix substituted for an n x m symbol, reshape(vertcat(scalars), (m, n)).T with CasADi's
   column-major reshape, has at (i, j) the scalar enumerated at position i*m+j, which is the one
   np.ndindex produces for the index [i; j] (named [i+1, j+1]); for all n, m *)
Theorem C18_layout (names : list string) (n m i j : nat) :
  length names = n * m -> i < n -> j < m ->
  mget (subst_matrix names n m) i j = nth (j + i * m) names EmptyString
  /\ nth (j + i * m) (ndindex [n; m]) [] = [i; j]
  /\ m_rows (subst_matrix names n m) = n /\ m_cols (subst_matrix names n m) = m.
Proof. exact (layout names n m i j). Qed.
Print Assumptions C18_layout.

(* each scalar carries the matching element of an array attribute, or the scalar:
   - a list attribute of the full rank: the scalars, in enumeration order, carry the row-major
     flattening of the list;   - a scalar attribute: every scalar carries it;
   - a CasADi matrix attribute (DM / MX) of an n1 x n2 array: element (i, j); of a length-n array
     given as a column: element k *)
Theorem C18_attributes :
  (forall dims v, shaped dims v -> map (sel_list v) (ndindex dims) = map SVal (flat dims v))
  /\ (forall a idx, sel_attr (AtScalar a) idx = SVal a)
  /\ (forall ismx n1 n2 rows i j, 1 < n1 * n2 -> i < n1 -> j < n2 ->
        sel_attr (AtMat ismx n1 n2 rows) [i; j] = mat_get rows i j)
  /\ (forall ismx n rows k, 1 < n -> k < n -> sel_attr (AtMat ismx n 1 rows) [k] = mat_get rows k 0).
Proof.
  exact (conj attributes_list (conj attributes_scalar (conj attributes_matrix attributes_column))).
Qed.
Print Assumptions C18_attributes.

(* TOTALITY, with the carve-out made exact.  The expansion of a variable is defined whenever its names
   are (component count matches the shape) and every attribute is a scalar (np.isscalar value or 1x1
   MX), or an array of exactly the tensor shape of the index: nested list, or DM/MX holding a length-n
   array as n x 1 column / an n x m array as n x m matrix. *)
Theorem C18_expand_total (v : uvar) (names : list string) :
  opt_all (map (scalar_name (uname v) (ushape v)) (ndindex (iter_dims (ushape v)))) = Some names ->
  Forall (attr_ok (iter_dims (ushape v))) (uattrs v) ->
  exists ex, expand_var v = Some ex.
Proof. exact (expand_total_ok v names). Qed.
Print Assumptions C18_expand_total.

(* The generator hands over scalars, arrays of the whole flattened symbol's shape, or arrays of the
   declared member's own shape (declared inside the component's class, or `each`).  Among those, the
   ONLY ones outside `attr_ok` are array attributes of the member's own rank on a variable that lives
   in a component ARRAY (attribute rank < index rank): exactly the two known findings. *)
Theorem C18_carveout_exact (s : vshape) (a : attr) :
  attr_declared s a -> attr_ok (iter_dims s) a \/ lowrank_in_component_array s a.
Proof. exact (carveout_exact s a). Qed.
Print Assumptions C18_carveout_exact.

Theorem C18_no_component_array_total (s : vshape) (a : attr) :
  outer_dims s = [] -> attr_declared s a -> attr_ok (iter_dims s) a.
Proof. exact (no_component_array_total s a). Qed.
Print Assumptions C18_no_component_array_total.

(* KNOWN DEFECT, tag list-attribute-in-component-array (mirrored by the model): every list attribute
   of lower rank than the index makes the expansion raise, whatever the sizes *)
Theorem C18_lowrank_list_refuted (v : uvar) (l : nlist) (d : list nat) :
  In (AtList l) (uattrs v) -> shaped d l -> length d < length (iter_dims (ushape v)) ->
  ndindex (iter_dims (ushape v)) <> [] -> expand_var v = None.
Proof. exact (lowrank_list_refuted v l d). Qed.
Print Assumptions C18_lowrank_list_refuted.

(* KNOWN DEFECT, tag dm-attribute-in-component-array: a length-n member (n >= 2) whose attribute is an
   n x 1 DM, inside `Sub s[c]` *)
Theorem C18_lowrank_dm_refuted (v : uvar) (n c : nat) rows :
  In (AtMat false n 1 rows) (uattrs v) -> iter_dims (ushape v) = [c; n] -> 0 < c -> 2 <= n ->
  expand_var v = None.
Proof. exact (lowrank_dm_refuted v n c rows). Qed.
Print Assumptions C18_lowrank_dm_refuted.

(* the recorded replay inputs as witnesses: `Sub s[2]` with `parameter Real k[2] = {3, 4}` and with
   `parameter Real k[3] = fill(2.5, 3)` inside Sub; both attributes are well-formed arrays of the
   member's own shape *)
Theorem C18_attributes_refuted :
  exists v, ushape v = Nested [[2]; [2]]
            /\ uattrs v = [AtList (NNode [NLeaf (ANum 3); NLeaf (ANum 4)])]
            /\ lowrank_in_component_array (ushape v) (AtList (NNode [NLeaf (ANum 3); NLeaf (ANum 4)]))
            /\ expand_var v = None.
Proof.
  exists (mk_uvar "s.k" (Nested [[2]; [2]]) (2, 2) [AtList (NNode [NLeaf (ANum 3%Z); NLeaf (ANum 4%Z)])]).
  repeat split; try discriminate.
  - cbn. eexists. split; [reflexivity|]. split; [reflexivity|]. repeat constructor; eexists; reflexivity.
  - cbn. auto.
Qed.
Print Assumptions C18_attributes_refuted.

Theorem C18_attributes_refuted_dm :
  exists v a, ushape v = Nested [[2]; [3]] /\ uattrs v = [a]
            /\ a = AtMat false 3 1 [[ANum 160]; [ANum 160]; [ANum 160]]
            /\ lowrank_in_component_array (ushape v) a
            /\ expand_var v = None.
Proof.
  exists (mk_uvar "s.k" (Nested [[2]; [3]]) (2, 3) [AtMat false 3 1 [[ANum 160%Z]; [ANum 160%Z]; [ANum 160%Z]]]).
  eexists. repeat split; try discriminate.
  - repeat constructor.
  - left. auto.
  - cbn. auto.
Qed.
Print Assumptions C18_attributes_refuted_dm.

(* outputs: the array's entry is replaced, in place and in order, by its scalars *)
Theorem C18_outputs_in_place (pre post : list string) (x : string) (new : list string) :
  ~ In x pre -> rename_outputs (pre ++ x :: post) x new = pre ++ new ++ post.
Proof. exact (outputs_in_place pre post x new). Qed.
Print Assumptions C18_outputs_in_place.

(* delay states: visiting them in list order (each visit pops the state and appends its scalars)
   leaves the scalars in the order of their states *)
Theorem C18_delay_order (f : string -> list string) (ds : list string) :
  fold_left (fun acc x => rename_delay acc x (f x)) ds ds = flat_map f ds.
Proof. exact (delay_order f ds). Qed.
Print Assumptions C18_delay_order.

(* RESIDUAL, matrix level.  CasADi matrices are (rows, cols, column-major list); expressions: array
   symbols (also der(..) and delay-state symbols), scalar symbols, DM constants, element-wise + - .*,
   scalar x array, unary minus, mtimes, transpose, slices / element references, reshape, vec, vertsplit.
   `expand` replaces every array symbol by reshape(vertcat(scalars), (n2, n1)).T as the code does.
   For every point (rm, rs) of the unexpanded model, rho' (each scalar name |-> the corresponding
   element, every other scalar unchanged) is a point of the expanded model at which the scalar
   equations vertsplit(vec(expand eq)), in order, evaluate to veccat of the unexpanded equations, i.e.
   dae_residual_function of the expanded model = that of the unexpanded model under the renaming.
   Hypotheses: the array symbols have their declared shapes and n1*n2 names each; no two elements share
   a name (C18_bijection gives this per variable, see C18_residual_names); scalar symbols of the
   equations are not among the new names.
   Not modelled: for-loop `map` nodes, if_else, function calls, IEEE rounding (values are integers). *)
Theorem C18_residual (dims : string -> nat * nat) (names : string -> list string)
        (rm rm0 : string -> zmat) (rs : string -> Z) (vars : list string) (eqs : list mexpr) :
  NoDup (flat_map names vars) ->
  (forall v, In v vars ->
     zr (rm v) = fst (dims v) /\ zc (rm v) = snd (dims v) /\ zwf (rm v)
     /\ length (names v) = fst (dims v) * snd (dims v)) ->
  (forall e v, In e eqs -> In v (mvars e) -> In v vars) ->
  (forall e s, In e eqs -> In s (msyms e) -> ~ In s (flat_map names vars)) ->
  let rs' := rho' names rm vars rs in
  map (fun s => zget (eval rm0 rs' s) 0 0)
      (flat_map (fun e => split_equation dims names (length (zd (eval rm rs e))) e) eqs)
  = flat_map (fun e => zd (eval rm rs e)) eqs.
Proof. exact (residual_under_renaming dims names rm rs rm0 vars eqs). Qed.
Print Assumptions C18_residual.

(* the same per expression, for any expanded point rs' that satisfies the renaming: the whole matrix
   value is preserved (shape and every entry) *)
Theorem C18_residual_matrix (dims : string -> nat * nat) (names : string -> list string)
        (rm rm0 : string -> zmat) (rs rs' : string -> Z) (e : mexpr) :
  (forall v, In v (mvars e) -> renamed dims names rm rs' v) -> scalars_kept rs rs' e ->
  eval rm0 rs' (expand dims names e) = eval rm rs e.
Proof. exact (residual_matrix dims names rm rs rm0 rs' e). Qed.
Print Assumptions C18_residual_matrix.

(* the names generated by the model of _expand_vectors for ANY variable - 1-D, 2-D, inside component
   arrays, der(...) wrapped, delay state - are n1*n2 pairwise distinct names, the k-th being the name of
   the k-th np.ndindex tuple: what C18_residual asks of `names` *)
Theorem C18_residual_names (v : uvar) ex (n1 n2 : nat) :
  expand_var v = Some ex -> product (iter_dims (ushape v)) = n1 * n2 ->
  length (map fst ex) = n1 * n2 /\ NoDup (map fst ex)
  /\ map Some (map fst ex) = map (scalar_name (uname v) (ushape v)) (ndindex (iter_dims (ushape v))).
Proof. exact (model_names_fit v ex n1 n2). Qed.
Print Assumptions C18_residual_names.

(* non-vacuity of C18_residual: `Sub s[2]` with `Real x[2]` (a 2 x 2 symbol), its derivative, a vector w and
   a delay state, with the names the model generates; equations use transpose, scalar x array, mtimes, a
   slice, .* and vertsplit.  The hypotheses hold and the (integer) residual is the same list. *)
Example C18_residual_example :
  (NoDup (flat_map ex_names ex_vars)
   /\ (forall v, In v ex_vars ->
         zr (ex_rm v) = fst (ex_dims v) /\ zc (ex_rm v) = snd (ex_dims v) /\ zwf (ex_rm v)
         /\ length (ex_names v) = fst (ex_dims v) * snd (ex_dims v))
   /\ (forall e v, In e ex_eqs -> In v (mvars e) -> In v ex_vars)
   /\ (forall e s, In e ex_eqs -> In s (msyms e) -> ~ In s (flat_map ex_names ex_vars))
   /\ flat_map ex_names ex_vars
      = ["s[1].x[1]"; "s[1].x[2]"; "s[2].x[1]"; "s[2].x[2]";
         "der(s[1].x[1])"; "der(s[1].x[2])"; "der(s[2].x[1])"; "der(s[2].x[2])";
         "_pymoca_delay_0[1,1]"; "_pymoca_delay_0[2,1]"; "w[1]"; "w[2]"]%string)
  /\ flat_map (fun e => zd (eval ex_rm ex_rs e)) ex_eqs
     = [-1607; -1668; -1623; -1684; -908022; -938132; -475]%Z.
Proof. split; [exact example_hypotheses | vm_compute; reflexivity]. Qed.
Print Assumptions C18_residual_example.

(* METADATA.  Expansion commutes with the metadata row function: for ANY function `row` that computes a
   variable's metadata row from its six attribute objects (for all R, row - nothing is assumed about it),
   in a category of a model without delay states the rows of the EXPANDED model's variables are, per
   variable of the unexpanded model in order, `row` of that variable's attributes specialised to each
   element in np.ndindex order (the selected element of every attribute); a scalar keeps its own row.
   PARTIAL: models with delay states are not covered (their renaming interleaves with the loop), and the
   link to C13 is through `c13_row` below, not through C13's `var`/`decl` records. *)
Theorem C18_metadata_rows_partial (R : Type) (row : list sel -> R) (g : list uvar) acc s acc' s' :
  fold_left step_var g (Some (acc, s)) = Some (acc', s') -> st_delay s = [] ->
  map row (map snd acc')
  = map row (map snd acc)
    ++ flat_map (fun v => if has_dims (ushape v)
                          then map (fun idx => row (map (fun a => sel_attr a idx) (uattrs v)))
                                   (ndindex (iter_dims (ushape v)))
                          else [row (map keep_attr (uattrs v))]) g.
Proof. exact (metadata_rows_commute R row g acc s acc' s'). Qed.
Print Assumptions C18_metadata_rows_partial.

(* instance 1: row = identity recovers the rows themselves *)
Theorem C18_metadata_rows_own_partial (g : list uvar) acc s acc' s' :
  fold_left step_var g (Some (acc, s)) = Some (acc', s') -> st_delay s = [] ->
  map snd acc' = map snd acc ++ flat_map (fun v => rows_of v []) g /\ st_delay s' = [].
Proof. exact (metadata_rows_group g acc s acc' s'). Qed.
Print Assumptions C18_metadata_rows_own_partial.

(* instance 2, in the vocabulary of C13's metadata model (Model/C13_metadata.v is imported read-only):
   row = c13_row maps every selected attribute number to the C13 cell `CLit (ext)`; these are the cells
   C13's `column` assigns to a size-1 Real variable declared with that finite literal, resp. C13's default
   cell when the attribute is not given.  What remains for a full link: building C13's `var`/`decl`
   record of an expanded scalar from the attribute objects (python types/tags, Integer/Boolean coercion,
   symbolic `DExp` cells) and the affine rebuild A*p+b. *)
Theorem C18_metadata_rows_c13_partial (g : list uvar) acc s acc' s' :
  fold_left step_var g (Some (acc, s)) = Some (acc', s') -> st_delay s = [] ->
  map c13_row (map snd acc')
  = map c13_row (map snd acc)
    ++ flat_map (fun v => if has_dims (ushape v)
                          then map (fun idx => c13_row (map (fun a => sel_attr a idx) (uattrs v)))
                                   (ndindex (iter_dims (ushape v)))
                          else [c13_row (map keep_attr (uattrs v))]) g.
Proof. exact (metadata_rows_commute _ c13_row g acc s acc' s'). Qed.
Print Assumptions C18_metadata_rows_c13_partial.

Theorem C18_c13_cells :
  (forall d a q, d a = C13.DLit (C13.LReal q) ->
     C13.column (C13.Var C13.TReal 1 d) a = Some [C13.CLit (C13.Fin q)])
  /\ (forall d a, d a = C13.DNone ->
     C13.column (C13.Var C13.TReal 1 d) a = Some [C13.CLit (fst (C13.default a))]).
Proof. exact (conj c13_column_literal c13_column_default). Qed.
Print Assumptions C18_c13_cells.

(* non-vacuity: a der() array inside a component array, an output renamed in place, a delay state *)
Example C18_example :
  option_map (fun r => (map (map fst) (fst r), st_outs (snd r), st_delay (snd r)))
    (expand_model
       [[mk_uvar "der(s.x)" (Nested [[2]; [2]]) (2, 2) [AtScalar ANaN]];
        [mk_uvar "_pymoca_delay_0" (Flat [2; 1]) (2, 1) [AtScalar ANaN];
         mk_uvar "o" (Nested [[2; 2]]) (2, 2) [AtList (NNode [NNode [NLeaf (ANum 1); NLeaf (ANum 2)];
                                                               NNode [NLeaf (ANum 3); NLeaf (ANum 4)]])]]]
       ["a"; "o"; "b"]%string ["_pymoca_delay_0"]%string)
  = Some ([["der(s[1].x[1])"; "der(s[1].x[2])"; "der(s[2].x[1])"; "der(s[2].x[2])"];
           ["_pymoca_delay_0[1,1]"; "_pymoca_delay_0[2,1]"; "o[1,1]"; "o[1,2]"; "o[2,1]"; "o[2,2]"]]%string,
          ["a"; "o[1,1]"; "o[1,2]"; "o[2,1]"; "o[2,2]"; "b"]%string,
          ["_pymoca_delay_0[1,1]"; "_pymoca_delay_0[2,1]"]%string).
Proof. vm_compute. reflexivity. Qed.
Print Assumptions C18_example.
