(* C02 — concurrent parses sharing a cache folder all succeed.
   Property theorems only; proofs live in Lib/Lock.v and Proofs/C02_conc.v.

   Model: Model/C02_conc.v (small-step interleaving semantics of n parse() calls over the SQLite
   lock table of Lib/Lock.v).  `side_ok p` is the decidable side condition on the SQL skeleton p
   of parse() — in particular "no write statement runs while its connection holds only SHARED
   inside a transaction" (every write is the first statement of its transaction, or the
   transaction was begun IMMEDIATE).  It is evaluated by vm_compute on the skeleton regenerated
   from parser.py on every run (run/C02/Tie_C02.v).

   Fairness assumption (not a hypothesis of the theorems, but what `blocked` means): a blocked
   statement waits in SQLite's busy handler and is retried; it is never turned into an error by
   the 5 s busy timeout. *)
From Coq Require Import List Bool Arith.
From PV Require Import Lib.Lock Model.C02_conc Proofs.C02_conc Proofs.C02_live Proofs.C02_schema.
Import ListNotations.

(* C02_safe.  For ANY program that satisfies the two decidable side conditions (side_ok_full = side_ok &&
   sch_ok, both re-evaluated on the skeleton regenerated from parser.py on every run), ANY database that is
   not garbage (fresh/empty, existing with any rows of any age, wrong layouts), ANY number of calls with any
   parameters and ANY schedule of any length - PROVIDED the calls that skip the start-up check (CInit false:
   the path is already in parse.initialized_dbs of their process) start on a database whose two tables have
   the expected layout - in every reachable configuration:
   - no call is in an error state: no "database is locked", no "no such table/column", no constraint
     error, no missing file, nothing;
   - no call has removed the database while another had it open; the file is never removed or replaced.
   Proof: C02_safe_modes's invariant + mutual exclusion of writers (C02_mutex) + soundness of the
   layout-knowledge typing sch_ok (Proofs/C02_schema.v: per statement the abstract transfer function is
   sound, a well-typed write never turns a good table into something else, the committed content only
   changes by the one writer, so every other call's knowledge "table good" stays true).
   The proviso is exactly what the seeded change C02/m4 broke (C02_skip_check_refuted below). *)
Theorem C02_safe (p : prog) (d0 : db) (pars : list params) (sched : list nat) :
  side_ok_full p = true ->
  (forall par, In par pars -> p_init par = false -> tget TModels d0 = TGood /\ tget TMeta d0 = TGood) ->
  let c := fst (run sched (init_cfg p (Some d0) pars)) in
  c_viol c = false /\ c_path c = Some 0 /\ (exists d, c_store c = [Some d]) /\
  (forall t, In t (c_thrs c) -> forall e, t_st t <> Err e).
Proof. exact (safe_full p d0 pars sched). Qed.
Print Assumptions C02_safe.

(* the proviso is necessary: a call that skips the start-up check on a database with a wrong layout fails *)
Theorem C02_skip_check_refuted :
  side_ok_full prog_head = true /\
  exists sched, In (Err ESchema)
    (map t_st (c_thrs (fst (run sched (init_cfg prog_head (Some (Db TWrong TMissing false [])) [Par 0 false false true 30]))))).
Proof. split; [vm_compute; reflexivity|]. exists [0;0;0]. vm_compute. auto. Qed.
Print Assumptions C02_skip_check_refuted.

(* The mode layer alone (side_ok without sch_ok), kept because it needs no proviso on the calls: for ANY
   well-moded program, any database that is not garbage, any calls, any schedule: no removal, the file is
   never replaced, and the only error a call can end in is a schema error (excluded by C02_safe). *)
Theorem C02_safe_modes (p : prog) (d0 : db) (pars : list params) (sched : list nat) :
  side_ok p = true ->
  let c := fst (run sched (init_cfg p (Some d0) pars)) in
  c_viol c = false /\ c_path c = Some 0 /\ length (c_store c) = 1 /\
  (forall t, In t (c_thrs c) -> forall e, t_st t = Err e -> e = ESchema).
Proof. exact (safe p d0 pars sched). Qed.
Print Assumptions C02_safe_modes.

(* the skeleton of parse() at /repo HEAD (static copy; the regenerated one is compared with it and
   re-checked on every run) satisfies the side condition, the one before 1904e3c does not *)
Theorem C02_head_well_moded : side_ok prog_head = true /\ side_ok prog_prefix = false.
Proof. split; vm_compute; reflexivity. Qed.
Print Assumptions C02_head_well_moded.

(* before the repair: two calls on a fresh folder, both read sqlite_master under a deferred BEGIN,
   the second one's DROP TABLE fails at once with "database is locked" *)
Definition P0 := Par 0 true false true 30.
Theorem C02_refuted_deferred :
  exists sched, In (Err EBusy) (map t_st (c_thrs (fst (run sched (init_cfg prog_prefix (Some empty_db) [P0; P0]))))).
Proof. exists [0;1;0;1;0;1;0;1;0;1]. vm_compute. auto. Qed.
Print Assumptions C02_refuted_deferred.

(* the same schedule is harmless for the repaired program: everything the second call attempts
   while the first holds RESERVED is blocked, not failed *)
Theorem C02_head_on_witness :
  map t_st (c_thrs (fst (run ([0;1;0;1;0;1;0;1;0;1] ++ repeat 0 30 ++ repeat 1 30)
                             (init_cfg prog_head (Some empty_db) [P0; P0])))) = [Fin; Fin].
Proof. vm_compute. reflexivity. Qed.
Print Assumptions C02_head_on_witness.

(* KNOWN, UNREPAIRED (finding corrupt-db-concurrent-recovery): when the database file is garbage
   the hypothesis "not garbage" of C02_safe_modes is necessary — two calls both see the
   corruption, the second one removes the database the first one has just recreated and is
   using; in another order the second os.remove raises FileNotFoundError *)
Theorem C02_refuted_corrupt :
  (exists sched, c_viol (fst (run sched (init_cfg prog_head None [P0; P0]))) = true) /\
  (exists sched, In (Err ENoFile) (map t_st (c_thrs (fst (run sched (init_cfg prog_head None [P0; P0])))))).
Proof.
  split.
  - exists [0;1;0;0;0;0;1;1;1]. vm_compute. reflexivity.
  - exists [0;1;0;1;0;1;0;1]. vm_compute. auto.
Qed.
Print Assumptions C02_refuted_corrupt.

(* the prune-vs-lookup class (seeded change C02/m2): when the lookup is split into a first SELECT that
   decides hit/miss and a second SELECT whose single row is unpacked at once, another caller's start-up
   prune of an expired entry (40 days old, expiration 30) between the two makes the call fail; such a
   program is rejected by the side condition *)
Definition prog_split : prog :=
  [ IS SConnect;
    IIf CInit [ IS (SBegin false); IS (SWrite WPrune); IS SCommit ] [];
    IS (SBegin false); IS (SRead RLookup r_hit); IS SCommit;
    IIf (CReg r_hit) [ IS (SRead RFetch 7) ] [];
    IS SClose ].
Theorem C02_refuted_split_lookup :
  side_ok prog_split = false /\
  exists sched,
    In (Err ENoRow) (map t_st (c_thrs (fst (run sched
      (init_cfg prog_split (Some (Db TGood TGood true [(0, 40)])) [Par 0 false false true 30; Par 1 true false true 30]))))).
Proof. split; [vm_compute; reflexivity|]. exists [0;0;0;0;1;1;1;1;0]. vm_compute. auto. Qed.
Print Assumptions C02_refuted_split_lookup.

(* the abstract lock layer: a granted or blocked operation never creates a second connection at
   RESERVED or above, and SQLITE_BUSY-without-waiting is only ever the answer to a SHARED holder
   that asks to write *)
Theorem C02_lock_mutex mine others op :
  writers (mine :: others) <= 1 ->
  match acquire mine others op with
  | Grant l | Block l => writers (l :: others) <= 1
  | Busy => True
  end.
Proof. exact (acquire_mutex mine others op). Qed.
Print Assumptions C02_lock_mutex.

Theorem C02_busy_only_on_upgrade mine others op :
  acquire mine others op = Busy -> mine = Sh /\ exists intx, op = LWrite intx.
Proof. exact (busy_only_on_upgrade mine others op). Qed.
Print Assumptions C02_busy_only_on_upgrade.

(* outside the fairness assumption (`runx`: entry 100 + tid = "the busy timeout of call tid expires on this
   blocked attempt"): the 'pending writer' - call 0 holds SHARED between its lookup and the commit, call 1 sits
   in COMMIT with PENDING, the late starter 2 cannot get SHARED for its integrity check and times out.  If the
   handler of the integrity check does not re-raise a busy error (seeded change C02/m5: it tests for
   SQLITE_LOCKED), the time-out is taken for corruption and the database the other two have open is removed;
   with the guard of /repo HEAD nothing is removed and all three calls end (2 by the uncached fall-back) *)
Definition pending_writer : list nat :=
  [0;0;0] ++ repeat 1 7 ++ [2; 102] ++ repeat 2 4 ++ repeat 0 3 ++ repeat 1 3 ++ repeat 2 30.
Definition pw_init : cfg :=
  init_cfg prog_head (Some (Db TGood TGood true [(0, 0)]))
           [Par 0 false false true 30; Par 1 false false true 30; Par 2 true false true 30].
Theorem C02_timeout_guard :
  c_viol (fst (runx false pending_writer pw_init)) = true /\
  c_viol (fst (runx true pending_writer pw_init)) = false /\
  map t_st (c_thrs (fst (runx true pending_writer pw_init))) = [Fin; Fin; Fin] /\
  same_set (rows_of (fst (runx true pending_writer pw_init))) [0; 1] = true.
Proof. vm_compute. auto. Qed.
Print Assumptions C02_timeout_guard.

(* mutual exclusion lifted to whole configurations: for ANY program, any initial file (also garbage),
   any calls and any schedule, at most one connection per database file holds RESERVED or more *)
Theorem C02_mutex (p : prog) (d0 : option db) (pars : list params) (sched : list nat) :
  mutex (fst (run sched (init_cfg p d0 pars))).
Proof. exact (mutex_reachable p d0 pars sched). Qed.
Print Assumptions C02_mutex.

(* deadlock freedom and termination for well-moded programs on a database that is not garbage, in
   every reachable configuration c:  (1) if some call is still running, some call's next attempt is
   neither blocked nor idle (no cyclic wait: a SHARED holder never waits - its reads and its commit are
   granted and its write fails at once -, a writer waits only at COMMIT and only for SHARED holders, a
   call that holds nothing waits only for lock holders);  (2) a schedule of at most Mu(c) attempts exists
   after which no call is running;  (3) along ANY continuation the attempts that are neither blocked nor
   idle number at most Mu(c) = total remaining program length.  Fairness needed to conclude that all
   calls finish: while a call is unfinished the scheduler eventually picks a call that can progress.
   Waiting TIME (SQLite's busy timeout) is not modelled. *)
Theorem C02_no_deadlock (p : prog) (d0 : db) (pars : list params) (sched : list nat) :
  side_ok p = true ->
  let c := fst (run sched (init_cfg p (Some d0) pars)) in
  ((exists i t, nth_error (c_thrs c) i = Some t /\ t_st t = Run) -> exists tid, can_progress c tid) /\
  (exists more, length more <= Mu (c_thrs c) /\
                forall t, In t (c_thrs (fst (run more c))) -> t_st t <> Run) /\
  (forall more, Mu (c_thrs (fst (run more c))) + progress_count (snd (run more c)) <= Mu (c_thrs c)).
Proof. exact (no_deadlock p d0 pars sched). Qed.
Print Assumptions C02_no_deadlock.

(* the layout-knowledge side condition sch_ok (Model/C02_conc.v): a DROP TABLE must be guarded by a layout
   read inside the same write transaction.  HEAD satisfies it; the seeded change C02/m1 (lock-free layout
   read, BEGIN IMMEDIATE only around DROP+CREATE) is well-moded but is rejected by it, and in the model
   its second caller drops the table - and the cached row - the first caller has just written *)
Theorem C02_m1_rejected :
  side_ok_full prog_head = true /\ side_ok prog_m1 = true /\ sch_ok prog_m1 = false /\
  exists sched,
    let c := fst (run sched (init_cfg prog_m1 (Some empty_db) [Par 0 true false true 30; Par 1 true false true 30])) in
    map t_st (c_thrs c) = [Fin; Fin] /\ rows_of c = [1].
Proof.
  split; [vm_compute; reflexivity|]. split; [vm_compute; reflexivity|]. split; [vm_compute; reflexivity|].
  exists ([0;0;0;0; 1;1;1;1] ++ repeat 0 30 ++ repeat 1 30). vm_compute. auto.
Qed.
Print Assumptions C02_m1_rejected.

(* non-vacuity: three calls (a miss, a hit with last-hit update, a syntax error) on a database with
   a wrong `models` layout, an interleaved schedule with blocked attempts, all finish *)
Example C02_example :
  let pars := [Par 0 true false true 30; Par 1 true true true 30; Par 2 true false false 30] in
  let d0 := Db TWrong TGood true [(1, 0)] in
  let r := run (concat (repeat [0;1;2;2;1;0] 40)) (init_cfg prog_head (Some d0) pars) in
  map t_st (c_thrs (fst r)) = [Fin; Fin; Fin] /\
  existsb (fun o => out_eqb (snd o) OBlocked) (snd r) = true /\
  side_ok prog_head = true.
Proof. vm_compute. auto. Qed.
Print Assumptions C02_example.
