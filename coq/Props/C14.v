(* C14 — simplification preserves the DAE's solutions.  Property theorems only; proofs live in
   Proofs/C14_simplify.v, the executable model of Model.simplify in Model/C14_simplify.v.

   `sat r m`: the valuation r (over ALL symbols, eliminated ones included) satisfies the equations
   and initial equations of m, the values of its constants and parameters, and the facts `x = e`
   that simplify() recorded when it dropped a variable (ghost list).  `sat r m <-> sat r (P m)` is
   the property for pass P: no solution is lost, none is added, every recorded elimination holds.

   NOT proved (the composed `C14_preserves` for whole option sets is therefore not claimed):
   - the backward half (no solution added) of the value-into-value fixpoint passes with CHAINED
     definitions (eliminable variables referring to eliminable variables, parameter / constant
     expressions referring to each other): needs the rank argument over an acyclic dependency order;
   - the composition of detect_aliases (da_loop + AliasRelation.add + skip of old aliases): only
     the recognised equation shapes and the substitution step are proved;
   - the slow (substitute-to-zero) alias path is unsound in general (C14_slow_path_refuted), it is
     sound only for equations affine in the two symbols — outside the generated fragment. *)
From Coq Require Import ZArith QArith Qcanon List Bool PArith.
Import ListNotations.
From PV Require Import Model.C14_simplify Proofs.C14_simplify.
Open Scope Qc_scope.

(* ca.substitute followed by CasADi's on-the-fly re-simplification (mk_un / mk_bin, 30 rewrite
   rules) evaluates like the original expression under the updated valuation *)
Theorem C14_subst_sound (r : env) (s : sub) (e : expr) :
  eval r (subst s e) = eval (upd r s) e.
Proof. exact (subst_sound r s e). Qed.
Print Assumptions C14_subst_sound.

(* replace_parameter_values: exact preservation, for every model *)
Theorem C14_pass_replace_parameter_values (r : env) (m : model) :
  sat r m <-> sat r (replace_param_values m).
Proof. exact (sound_replace_param_values r m). Qed.
Print Assumptions C14_pass_replace_parameter_values.

(* eliminate_constant_assignments: exact preservation, the recorded constant values (sign
   included) hold in every original solution *)
Theorem C14_pass_constant_assignments (r : env) (m : model) :
  sat r m <-> sat r (elim_const_assignments m).
Proof. exact (sound_elim_const_assignments r m). Qed.
Print Assumptions C14_pass_constant_assignments.

(* eliminable_variable_expression, arbitrary chains and any loop outcome: every original solution
   solves the simplified equations and initial equations and satisfies the recorded definitions.
   Partial: the converse needs acyclicity (see header). *)
Theorem C14_pass_eliminable_forward_partial (r : env) (mt : list name) (m : model) :
  failed m = false -> failed (eliminate_vars mt m) = false ->
  sat r m -> sat r (eliminate_vars mt m).
Proof. exact (eliminate_vars_forward r mt m). Qed.
Print Assumptions C14_pass_eliminable_forward_partial.

(* the step shared by every substituting pass (constant values, parameter / constant
   expressions, alias elimination): under the recorded facts the substituted equations and the
   substituted `value` metadata are equivalent to the original ones *)
Theorem C14_substitution_step_partial (r : env) (s : sub) (es : list expr) (l : list (name * pval)) :
  facts r s ->
  (holds r (map (subst s) es) <-> holds r es) /\ (pfacts r (subst_vals s l) <-> pfacts r l).
Proof. intro F. split; [exact (holds_subst r s es F) | exact (pfacts_subst r s l F)]. Qed.
Print Assumptions C14_substitution_step_partial.

(* detect_aliases, fast path: `x - y` is recognised as the alias x = y, `x + y` as x = -y, and
   that is exactly what the equation says *)
Theorem C14_alias_shapes_partial (r : env) (pc : list name) (x y : name) (n : bool) :
  x <> y ->
  let e := Bin (if n then Add else Sub) (Sym x) (Sym y) in
  detect_alias pc e = Some (x, y, n) /\ (eval r e = 0 <-> r x = sgnq n (r y)).
Proof. exact (detect_alias_fast r pc x y n). Qed.
Print Assumptions C14_alias_shapes_partial.

(* detect_aliases, slow path: a^2 - b^2 = 0 is taken for the alias a = b although a = 1, b = -1
   solves it (the property's quantifier — affine / triangular-bijective models — excludes it) *)
Theorem C14_slow_path_refuted :
  exists (e : expr) (r : env) (a b : name),
    detect_alias [] e = Some (a, b, false) /\ eval r e = 0 /\ r a <> r b.
Proof. exists e_squares, r_squares, 1%positive, 2%positive. exact slow_path_unsound. Qed.
Print Assumptions C14_slow_path_refuted.

(* non-vacuity: a concrete regular model with a parameter, a constant, an eliminable variable and
   a negative alias is satisfied by its solution; simplify() with six options leaves one unknown,
   one equation and the alias a3 = -a1 *)
Example C14_example :
  sat r_ex m_ex /\
  let m' := simplify o_ex m_ex in
  failed m' = false /\ warned m' = false /\ algs m' = [1%positive] /\ length (eqs m') = 1%nat /\
  arel m' = [(1%positive, [(3%positive, true)])].
Proof. split; [exact ex_sat | exact ex_simplified]. Qed.
Print Assumptions C14_example.
