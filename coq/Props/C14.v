(* C14 — simplification preserves the DAE's solutions.  Property theorems only; proofs live in
   Proofs/C14_simplify.v, the executable model of Model.simplify in Model/C14_simplify.v.

   `sat r m`: the valuation r (over ALL symbols, eliminated ones included) satisfies the equations
   and initial equations of m, the values of its constants and parameters, and the facts `x = e`
   that simplify() recorded when it dropped a variable (ghost list).  `sat r m <-> sat r (P m)` is
   the property for pass P: no solution is lost, none is added, every recorded elimination holds.

   `sat2 r m` = `sat r m` and every recorded alias holds with its sign (rel_sat).
   Round 2: every modelled pass is now an EQUIVALENCE, and they are composed for _simplify_once in
   the code's order and for the outer iteration (C14_simplify_once_preserves, C14_preserves), for
   every subset of the modelled options, under carve-out hypotheses stated on the model that
   reaches each pass (run_ok / loop_ok): acyclic definitions for the three value-into-value loops
   (carves out the two cyclic known findings), the recognised alias equations mean what
   detect_alias says (true for the fast path, C14_alias_shapes_partial; excludes the a^2 - b^2
   slow-path shape, C14_slow_path_refuted), no parameter is eliminated as an alias, and
   (replace_constant_values only) no alias entry has a constant as canonical variable.
   STILL OPEN: (i) removing that last hypothesis needs the ghost bookkeeping of removed alias
   entries (lemma: lookup of every constant name in the resolved substitution succeeds);
   (ii) "no parameter is eliminated" should follow from the invariant `every alias member is
   algebraic` (members_ok, not proved); (iii) the alias relation is proved directly on the
   model's signed entry lists (arel_add_sound) — it is NOT linked to C17's gmap model. *)
From Coq Require Import ZArith QArith Qcanon List Bool PArith.
Import ListNotations.
From PV Require Import Model.C14_simplify Proofs.C14_simplify Proofs.C14_compose Proofs.C15_square Proofs.C14_example Proofs.C14_dexpr.
Open Scope Qc_scope.

(* ca.substitute followed by CasADi's on-the-fly re-simplification (mk_un / mk_bin, 30 rewrite
   rules) evaluates like the original expression under the updated valuation *)
Theorem C14_subst_sound (r : env) (s : sub) (e : expr) :
  eval r (subst s e) = eval (upd r s) e.
Proof. exact (subst_sound r s e). Qed.
Print Assumptions C14_subst_sound.

(* replace_parameter_values: exact preservation, for every model *)
Theorem C14_pass_replace_parameter_values (r : env) (m : model) :
  sat r m <-> sat r (replace_param_values m).
Proof. exact (sound_replace_param_values r m). Qed.
Print Assumptions C14_pass_replace_parameter_values.

(* eliminate_constant_assignments: exact preservation, the recorded constant values (sign
   included) hold in every original solution *)
Theorem C14_pass_constant_assignments (r : env) (m : model) :
  sat r m <-> sat r (elim_const_assignments m).
Proof. exact (sound_elim_const_assignments r m). Qed.
Print Assumptions C14_pass_constant_assignments.

(* eliminable_variable_expression, arbitrary chains and any loop outcome: every original solution
   solves the simplified equations and initial equations and satisfies the recorded definitions.
   Partial: the converse needs acyclicity (see header). *)
Theorem C14_pass_eliminable_forward_partial (r : env) (mt : list name) (m : model) :
  failed m = false -> failed (eliminate_vars mt m) = false ->
  sat r m -> sat r (eliminate_vars mt m).
Proof. exact (eliminate_vars_forward r mt m). Qed.
Print Assumptions C14_pass_eliminable_forward_partial.

(* the step shared by every substituting pass (constant values, parameter / constant
   expressions, alias elimination): under the recorded facts the substituted equations and the
   substituted `value` metadata are equivalent to the original ones *)
Theorem C14_substitution_step_partial (r : env) (s : sub) (es : list expr) (l : list (name * pval)) :
  facts r s ->
  (holds r (map (subst s) es) <-> holds r es) /\ (pfacts r (subst_vals s l) <-> pfacts r l).
Proof. intro F. split; [exact (holds_subst r s es F) | exact (pfacts_subst r s l F)]. Qed.
Print Assumptions C14_substitution_step_partial.

(* detect_aliases, fast path: `x - y` is recognised as the alias x = y, `x + y` as x = -y, and
   that is exactly what the equation says *)
Theorem C14_alias_shapes_partial (r : env) (pc : list name) (x y : name) (n : bool) :
  x <> y ->
  let e := Bin (if n then Add else Sub) (Sym x) (Sym y) in
  detect_alias pc e = Some (x, y, n) /\ (eval r e = 0 <-> r x = sgnq n (r y)).
Proof. exact (detect_alias_fast r pc x y n). Qed.
Print Assumptions C14_alias_shapes_partial.

(* detect_aliases, slow path: a^2 - b^2 = 0 is taken for the alias a = b although a = 1, b = -1
   solves it (the property's quantifier — affine / triangular-bijective models — excludes it) *)
Theorem C14_slow_path_refuted :
  exists (e : expr) (r : env) (a b : name),
    detect_alias [] e = Some (a, b, false) /\ eval r e = 0 /\ r a <> r b.
Proof. exists e_squares, r_squares, 1%positive, 2%positive. exact slow_path_unsound. Qed.
Print Assumptions C14_slow_path_refuted.

(* value-into-value loops (parameter / constant expressions): equivalence for acyclic definitions,
   whatever the loop's outcome (rank argument: one substitution step can be undone) *)
Theorem C14_pass_replace_expressions (on_params : bool) (r : env) (m : model) :
  acyclic (expr_defs on_params m) -> (sat r m <-> sat r (replace_exprs on_params m)).
Proof. exact (sound_replace_exprs on_params r m). Qed.
Print Assumptions C14_pass_replace_expressions.

(* eliminable_variable_expression: full equivalence for acyclic (also chained) assignments *)
Theorem C14_pass_eliminable (r : env) (mt : list name) (m : model) :
  acyclic (elim_defs mt m) -> failed m = false -> failed (eliminate_vars mt m) = false ->
  (sat r m <-> sat r (eliminate_vars mt m)).
Proof. exact (sound_eliminate_vars r mt m). Qed.
Print Assumptions C14_pass_eliminable.

(* eliminable DIFFERENTIATED STATES (get_derivative: promotion of algebraic symbols to states with
   a fresh der symbol, look-through of already eliminated variables (ab3b403), chain rule): the pass
   is in the executable model and in the correspondence.  Pointwise the pass ADDS the differentiated
   definitions der(x) = d/dt(value) (`snd (elim2_defs ..)`): they are not consequences of the
   algebraic equations at one time instant, so the equivalence is relative to them.
   `dexpr` is the time derivative of the value (C14_dexpr_is_derivative, defs = []).
   Partial: the added definitions are not yet restated as consequences for trajectories, the
   look-through of eliminated variables is not covered by that lemma, and this pass is not composed in C14_preserves
   (there `no_elim_state` is a hypothesis). *)
Theorem C14_pass_eliminable_states_partial (r : env) (dermap : list (name * name)) (mt : list name) (m : model) :
  acyclic (fst (elim2_defs dermap mt m)) -> failed m = false ->
  failed (eliminate_vars2 dermap mt m) = false ->
  (sat r m /\ facts r (snd (elim2_defs dermap mt m)) <-> sat r (eliminate_vars2 dermap mt m)).
Proof. exact (sound_eliminate_vars2 r dermap mt m). Qed.
Print Assumptions C14_pass_eliminable_states_partial.

(* get_derivative's chain rule IS the time derivative: `eval_d r dr e` is the derivative of e along a
   trajectory with values r and time derivatives dr (dual numbers: constant, symbol, negation,
   doubling, square, sum, difference, product rules — exactly dexpr's constructors); with the
   derivative of a differentiated name x read from its symbol der(x) (dm x = der(x)) and 0 for every
   other symbol, dexpr's result evaluates to that derivative.  (No eliminated variable looked
   through: defs = []; the look-through case unfolds the recorded definition first.) *)
Theorem C14_dexpr_is_derivative (fuel : nat) (dm : list (name * name)) (r : env) (e : expr) :
  eval r (dexpr (S fuel) dm [] e) = eval_d r (dr_of r dm) e.
Proof. exact (dexpr_is_derivative fuel dm r e). Qed.
Print Assumptions C14_dexpr_is_derivative.

(* replace_constant_values incl. constants whose values are expressions in other constants *)
Theorem C14_pass_replace_constant_values_partial (r : env) (m : model) :
  acyclic (const_defs m) -> no_const_canonical m -> failed (replace_const_values m) = false ->
  (sat2 r m <-> sat2 r (replace_const_values m)).
Proof. exact (sound_replace_const_values r m). Qed.
Print Assumptions C14_pass_replace_constant_values_partial.

(* AliasRelation.add with sign and canonical choice: the new relation says exactly the old
   relation plus a = [-]b; None only for a contradictory pair *)
Theorem C14_alias_add_sound (r : env) (R R' : list acls) (a b : name) (nb : bool) :
  arel_add R a b nb = Some R' -> (rel_sat r R' <-> rel_sat r R /\ r a = sgnq nb (r b)).
Proof. exact (arel_add_sound r R a b nb R'). Qed.
Print Assumptions C14_alias_add_sound.

(* detect_aliases as a whole (loop over the equations, _make_alias with do_not_eliminate / swap /
   allow_derivative_aliases, add with sign, skip of aliases handled earlier, elimination) *)
Theorem C14_pass_detect_aliases (r : env) (ad : bool) (m : model) :
  shapes_ok r (map fst (params m) ++ map fst (consts m)) (eqs m) ->
  failed (detect_aliases ad m) = false ->
  map fst (params (detect_aliases ad m)) = map fst (params m) ->
  (sat2 r m <-> sat2 r (detect_aliases ad m)).
Proof. exact (sound_detect_aliases r ad m). Qed.
Print Assumptions C14_pass_detect_aliases.

(* _simplify_once = the seven modelled passes (`passes o`: replace_parameter_expressions,
   replace_constant_expressions, eliminate_constant_assignments, replace_parameter_values,
   replace_constant_values, eliminable_variable_expression + expand_mx, detect_aliases +
   allow_derivative_aliases) in the code's order, each enabled or not by its option *)
Theorem C14_simplify_once_preserves (r : env) (o : options) (m : model) :
  run_ok (passes o) m -> failed (simplify_once o m) = false ->
  (sat2 r m <-> sat2 r (simplify_once o m)).
Proof. exact (simplify_once_sound r o m). Qed.
Print Assumptions C14_simplify_once_preserves.

(* simplify(): the outer iteration (iterative_simplification) with SIMPLIFICATION_LOOP_LIMIT *)
Theorem C14_preserves (r : env) (o : options) (m : model) :
  loop_ok SIMPLIFICATION_LOOP_LIMIT o 0%nat m -> failed (simplify o m) = false ->
  (sat2 r m <-> sat2 r (simplify o m)).
Proof. exact (simplify_sound r o m). Qed.
Print Assumptions C14_preserves.

(* non-vacuity of the composition: for the regular example m_ex under o_ex (eliminate_constant_
   assignments, replace_parameter_values, replace_constant_values, eliminable_variable_expression +
   expand_mx, detect_aliases) every carve-out hypothesis (run_ok / loop_ok) is PROVED, so simplify()
   preserves its solutions for every valuation *)
Example C14_preserves_example (r : env) : sat2 r m_ex <-> sat2 r (simplify o_ex m_ex).
Proof. exact (ex_preserves r). Qed.
Print Assumptions C14_preserves_example.

(* non-vacuity: a concrete regular model with a parameter, a constant, an eliminable variable and
   a negative alias is satisfied by its solution; simplify() with six options leaves one unknown,
   one equation and the alias a3 = -a1 *)
Example C14_example :
  sat r_ex m_ex /\
  let m' := simplify o_ex m_ex in
  failed m' = false /\ warned m' = false /\ algs m' = [1%positive] /\ length (eqs m') = 1%nat /\
  arel m' = [(1%positive, [(3%positive, true)])].
Proof. split; [exact ex_sat | exact ex_simplified]. Qed.
Print Assumptions C14_example.
