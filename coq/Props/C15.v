(* C15 — simplification keeps regular systems square and self-contained.  Same model as C14.

   Round 3: detect_aliases is proved square (C15_square_detect_aliases) from the invariant
   `relinv` of the alias relation (member names pairwise distinct, no canonical is a member, no
   member in do_not_eliminate — preserved by _make_alias thanks to the swap and the
   do-not-eliminate test; an add that joins two classes adds exactly one member), and the square
   bookkeeping is composed for _simplify_once and simplify() (C15_simplify_once_square,
   C15_square) for every subset of the modelled options, hypotheses (run_ok (passes15 o)) stated on
   the model reaching detect_aliases: relinv holds there (trivial in the first iteration: the
   relation is empty), the symbols of recognised alias equations are declared (no alias with
   `time`), no alias equation is redundant (da_nored; true for regular models), plus NoDup of the
   algebraic variables.  The contradictory pair (d2f54aa) is covered: the equation is kept.
   Round 4: the value-into-value loop on ACYCLIC definitions that CONVERGED is proved to reach a
   closed form (C15_loop_closed_form: resolved values mention no defined variable and only symbols
   of the original values); hence the eliminable pass keeps the model closed
   (C15_closed_eliminable_acyclic) — exactly what the cyclic findings violate
   (C15_closed_cyclic_refuted).  C15_closed_simplify_once_partial composes closedness over the
   seven passes, all PROVED from carve-out hypotheses (round 6); see the comment at the theorem.
   STILL OPEN (`_partial`): composed C15_closed.  Missing lemmas: closedness of detect_aliases
   (symbols of the substituted values are the canonical variables, which stay declared: needs
   `canonical in all_states` from the `bad` test) and of the three value loops for chained
   definitions (resolved values only use declared symbols: needs acyclic + the declaredness of
   the original values); propagation of relinv from one outer iteration to the next.
   The closedness statement is false for cyclic eliminable assignments (C15_closed_cyclic_refuted,
   known finding) and is proved under the hypothesis that carves exactly that out. *)
From Coq Require Import ZArith QArith Qcanon List Bool PArith.
Import ListNotations.
From PV Require Import Model.C14_simplify Proofs.C14_simplify Proofs.C14_compose Proofs.C15_square Proofs.C15_closed Proofs.C14_example.

(* eliminate_constant_assignments: every dropped equation is paired with exactly one removed
   algebraic variable (which becomes a constant); states and derivatives are untouched *)
Theorem C15_square_constant_assignments (m : model) :
  NoDup (algs m) ->
  let m' := elim_const_assignments m in
  (length (algs m') + length (eqs m) = length (algs m) + length (eqs m'))%nat
  /\ ders m' = ders m /\ states m' = states m.
Proof. exact (square_elim_const_assignments m). Qed.
Print Assumptions C15_square_constant_assignments.

(* eliminable_variable_expression: every dropped equation is paired with exactly one removed
   algebraic variable; states, derivatives, inputs, parameters and constants are untouched.
   (`failed = false` excludes the double extraction of one variable, which raises in pymoca.) *)
Theorem C15_square_eliminable (mt : list name) (m : model) :
  NoDup (algs m) -> failed m = false -> failed (eliminate_vars mt m) = false ->
  let m' := eliminate_vars mt m in
  (length (algs m') + length (eqs m) = length (algs m) + length (eqs m'))%nat
  /\ ders m' = ders m /\ states m' = states m /\ inputs m' = inputs m
  /\ params m' = params m /\ consts m' = consts m.
Proof. exact (square_eliminate_vars mt m). Qed.
Print Assumptions C15_square_eliminable.

(* detect_aliases: every dropped equation is paired with exactly one removed algebraic variable;
   derivatives, states, inputs, parameters and constants are never eliminated *)
Theorem C15_square_detect_aliases (ad : bool) (m : model) :
  NoDup (algs m) -> relinv (dne_of m) (arel m) ->
  da_decl (pc_of m) (algs m) (dne_of m) (eqs m) ->
  da_nored ad (algs m) (ders m) (dne_of m) (pc_of m) (arel m) (eqs m) = true ->
  failed (detect_aliases ad m) = false ->
  let m' := detect_aliases ad m in
  (length (algs m') + length (eqs m) = length (algs m) + length (eqs m'))%nat
  /\ ders m' = ders m /\ states m' = states m /\ inputs m' = inputs m
  /\ params m' = params m /\ consts m' = consts m /\ NoDup (algs m').
Proof. exact (square_detect_aliases ad m). Qed.
Print Assumptions C15_square_detect_aliases.

(* `sq m m'`: |der_states| + |alg_states| - |equations| is unchanged and der_states, states, inputs
   are untouched.  _simplify_once: the seven modelled passes in the code's order, any option subset *)
Theorem C15_simplify_once_square (o : options) (m : model) :
  run_ok (passes15 o) m -> NoDup (algs m) -> failed (simplify_once o m) = false ->
  sq m (simplify_once o m) /\ NoDup (algs (simplify_once o m)).
Proof. exact (simplify_once_square o m). Qed.
Print Assumptions C15_simplify_once_square.

(* simplify(): the outer iteration with SIMPLIFICATION_LOOP_LIMIT *)
Theorem C15_square (o : options) (m : model) :
  loop_ok15 SIMPLIFICATION_LOOP_LIMIT o 0%nat m -> NoDup (algs m) -> failed (simplify o m) = false ->
  sq m (simplify o m).
Proof. exact (simplify_loop_square o SIMPLIFICATION_LOOP_LIMIT 0%nat m). Qed.
Print Assumptions C15_square.

(* non-vacuity: all hypotheses of C15_square are proved for the regular example *)
Example C15_square_example : sq m_ex (simplify o_ex m_ex).
Proof. exact ex_square. Qed.
Print Assumptions C15_square_example.

(* any substituting pass: if every symbol outside dom s was declared (D) and the substituted
   values only use declared symbols, the substituted equations only use declared symbols —
   CasADi's re-simplification never invents a symbol *)
Theorem C15_closed_substitution (D : name -> Prop) (s : sub) (es : list expr) :
  (forall e x, In e es -> occurs x e = true -> lookup x s = None -> D x) ->
  (forall y v x, lookup y s = Some v -> occurs x v = true -> D x) ->
  forall e x, In e (map (subst s) es) -> occurs x e = true -> D x.
Proof. exact (closed_subst D s es). Qed.
Print Assumptions C15_closed_substitution.

(* eliminable pass: when the loop's resolved values are free of eliminated variables (acyclic
   assignments, converged), no remaining equation or initial equation mentions one *)
Theorem C15_closed_eliminable (mt : list name) (m : model) :
  let '(al, defs, kept, u) := elim_loop (states m) (algs m) (algs m) mt (eqs m) in
  let vars := map fst defs in
  let vals := fst (subst_fix SUBSTITUTE_LOOP_LIMIT vars (map snd defs)) in
  length vals = length vars ->
  (forall v x, In v vals -> In x vars -> occurs x v = false) ->
  forall e x, In e (eqs (eliminate_vars mt m) ++ ieqs (eliminate_vars mt m)) ->
              u = false -> has_dup vars = false -> defs <> [] -> In x vars -> occurs x e = false.
Proof. exact (closed_eliminate_vars mt m). Qed.
Print Assumptions C15_closed_eliminable.

(* the fuelled substitution loop (model.py:553-562 / 593-602 / 894-903) on acyclic definitions,
   when it converged: no resolved value mentions a defined variable, and every symbol of a resolved
   value occurs in an original value *)
Theorem C15_loop_closed_form (d : sub) :
  acyclic d ->
  let res := subst_fix SUBSTITUTE_LOOP_LIMIT (map fst d) (map snd d) in
  snd res = true ->
  let s := combine (map fst d) (fst res) in
  (forall x v y w, In (x, v) s -> lookup y s = Some w -> occurs y v = false)
  /\ (forall x, sym_in s x -> sym_in d x).
Proof. exact (loop_closed_form d). Qed.
Print Assumptions C15_loop_closed_form.

(* `closed tm m`: every symbol of the remaining equations and initial equations is a declared
   variable / parameter / constant of m or `time` (tm).  The eliminable pass preserves it for
   acyclic assignments when no iteration-limit warning was raised *)
Theorem C15_closed_eliminable_acyclic (tm : name) (mt : list name) (m : model) :
  closed tm m -> acyclic (elim_defs mt m) -> failed (eliminate_vars mt m) = false ->
  warned m = false -> warned (eliminate_vars mt m) = false ->
  closed tm (eliminate_vars mt m).
Proof. exact (closed_eliminate_vars_acyclic tm mt m). Qed.
Print Assumptions C15_closed_eliminable_acyclic.

(* bookkeeping passes keep the model closed, unconditionally *)
Theorem C15_closed_constant_assignments (tm : name) (m : model) :
  closed tm m -> closed tm (elim_const_assignments m).
Proof. exact (closed_elim_const_assignments tm m). Qed.
Print Assumptions C15_closed_constant_assignments.

Theorem C15_closed_replace_parameter_values (tm : name) (m : model) :
  closed tm m -> closed tm (replace_param_values m).
Proof. exact (closed_replace_param_values tm m). Qed.
Print Assumptions C15_closed_replace_parameter_values.

(* replace_parameter_expressions / replace_constant_expressions: closed when the VALUES reaching the
   pass only mention declared symbols, the definitions are acyclic and the loop converged *)
Theorem C15_closed_replace_expressions (tm : name) (on_params : bool) (m : model) :
  closed tm m -> vals_closed tm m -> acyclic (expr_defs on_params m) ->
  warned m = false -> warned (replace_exprs on_params m) = false ->
  closed tm (replace_exprs on_params m).
Proof. exact (closed_replace_exprs tm on_params m). Qed.
Print Assumptions C15_closed_replace_expressions.

(* replace_constant_values: after the resolve loop (acyclic, converged) the substituted values mention
   no constant and only declared symbols, so dropping ALL constants leaves the model closed *)
Theorem C15_closed_replace_constant_values (tm : name) (m : model) :
  closed tm m -> vals_closed tm m -> acyclic (const_defs m) ->
  failed (replace_const_values m) = false -> warned m = false ->
  warned (replace_const_values m) = false ->
  closed tm (replace_const_values m).
Proof. exact (closed_replace_const_values tm m). Qed.
Print Assumptions C15_closed_replace_constant_values.

(* detect_aliases: every alias is replaced by +- its canonical variable, which by the invariant of
   the alias relation is not itself eliminated and (the `canonical in all_states` test) is declared *)
Theorem C15_closed_detect_aliases (tm : name) (ad : bool) (m : model) :
  closed tm m -> relinv (dne_of m) (arel m) -> da_decl (pc_of m) (algs m) (dne_of m) (eqs m) ->
  da_nored ad (algs m) (ders m) (dne_of m) (pc_of m) (arel m) (eqs m) = true ->
  failed (detect_aliases ad m) = false ->
  closed tm (detect_aliases ad m).
Proof. exact (closed_detect_aliases tm ad m). Qed.
Print Assumptions C15_closed_detect_aliases.

(* the value-closedness hypothesis is a decidable check; `./check C15` evaluates it inside coqc on
   EVERY generated pre-simplification model (obligation hypothesis:vals_closedb-holds-of-every-
   generated-model), so for the generated models it is tied, not assumed *)
Theorem C15_vals_closed_checked (tm : name) (m : model) :
  vals_closedb m = true -> vals_closed tm m.
Proof. exact (vals_closedb_sound tm m). Qed.
Print Assumptions C15_vals_closed_checked.

(* composition over _simplify_once (any subset of the modelled options).  In `passes_cl tm o` ALL
   SEVEN passes are now proved from carve-out hypotheses stated on the model reaching each pass:
   none for eliminate_constant_assignments / replace_parameter_values; values closed + acyclic +
   converged for replace_parameter/constant_expressions and replace_constant_values; no eliminable
   state + acyclic + converged for the eliminable pass; the alias invariant, declared alias symbols
   and no redundant alias (H_da15) for detect_aliases.  The name keeps `_partial` because
   (i) `vals_closed` is tied for the GENERATED model (C15_vals_closed_checked) but its preservation by
   each pass is not proved, so it stays a hypothesis at each value pass after the first, and (ii) the
   eliminable-STATES path (eliminate_vars2) is excluded by `no_elim_state` *)
Theorem C15_closed_simplify_once_partial (tm : name) (o : options) (m : model) :
  run_ok (passes_cl tm o) m -> closed tm m -> failed (simplify_once o m) = false ->
  closed tm (simplify_once o m).
Proof. exact (simplify_once_closed_partial tm o m). Qed.
Print Assumptions C15_closed_simplify_once_partial.

(* cyclic eliminable assignments '_e1 = _e2; _e2 = _e1; a3 = _e1 + 1': the value loop converges
   to the identity substitution (no warning); the only remaining unknown is a3 but the remaining
   equation still mentions _e1 *)
Theorem C15_closed_cyclic_refuted :
  exists (o : options) (m : model),
    let m' := simplify o m in
    failed m' = false /\ warned m' = false /\ algs m' = [3%positive] /\
    existsb (fun e => occurs 1%positive e || occurs 2%positive e) (eqs m') = true.
Proof. exists o_elim12, m_osc. exact osc_not_closed. Qed.
Print Assumptions C15_closed_cyclic_refuted.

(* non-vacuity: the regular example of C14 has distinct unknowns; simplify() takes it from 3
   unknowns / 3 equations to 1 unknown / 1 equation *)
Example C15_example :
  NoDup (algs m_ex) /\ length (algs m_ex) = length (eqs m_ex) /\
  length (algs (simplify o_ex m_ex)) = length (eqs (simplify o_ex m_ex)).
Proof.
  split; [| split; vm_compute; reflexivity].
  repeat constructor; simpl; intuition discriminate.
Qed.
Print Assumptions C15_example.
