(* C23 — out-of-range array subscripts are rejected, never reinterpreted.
   Property theorems only; proofs live in Proofs/C23_index.v.

   `index c n u` is the model of what the CasADi generator does with subscript u on a dimension of
   declared size n (selection of 1-based elements | ErrV = the generator's own ValueError | ErrB = any
   other exception); `modelica n u` is the specification (Modelica's 1-based inclusive ranges
   start:step:stop, ErrV as soon as one selected element is outside 1..n).  `c : cfg` says which
   repairs the tree contains: `as_coded` = Cfg false false false false false is /repo as of round 1;
   /repo after the fix commits 05b675f, f098077, f8eb4b4 is `repo_now` = Cfg true true false true false
   (flags: slice check, loop-index check, Modelica three-part ranges, empty-loop repair, loop variable on
   a scalar rejected).  A loop subscript is either i+off (LoopV) or any integer expression of i built
   from constants, +, -, * (LoopX), evaluated pointwise on the loop values. *)
From Coq Require Import ZArith List Bool.
From PV Require Import Model.C23_index Proofs.C23_index.
Import ListNotations.
Open Scope Z_scope.

Definition as_coded : cfg := Cfg false false false false false.
Definition repo_now : cfg := Cfg true true false true false.

(* scalar subscripts, whatever the configuration and for every n: exactly the elements 1..n are
   accepted (and map to themselves), everything else -- 0, negatives, n+1.. -- raises ValueError *)
Theorem C23_scalar (c : cfg) (n i : Z) : index c n (Int i) = modelica n (Int i).
Proof. exact (index_int c n i). Qed.
Print Assumptions C23_scalar.

(* THE PROPERTY, for a tree with the range checks (fixes/C23_*.diff) and Modelica three-part ranges:
   every subscript form, every n >= 0, every integer bounds/steps/offsets: the outcome is the
   Modelica selection, or ValueError when an element is outside 1..n; the only deviation allowed by
   `agrees` is that a legal EMPTY selection may be refused with a backend error. *)
Theorem C23_checked (c : cfg) (n : Z) (u : sub) :
  chk_slice c = true -> chk_loop c = true ->
  step_of u <> 0 /\ (three_part u = true -> mod3 c = true) ->
  0 <= n ->
  agrees (index c n u) (modelica n u)
  /\ (modelica n u = ErrV -> index c n u = ErrV)                         (* rejected *)
  /\ (forall l, index c n u = Ok l -> modelica n u = Ok l)                (* never reinterpreted *)
  /\ (forall l, modelica n u = Ok l -> l <> [] -> index c n u = Ok l).    (* legal ones accepted *)
Proof.
  intros Hs Hl Hw Hn. pose proof (index_checked c n u Hs Hl Hw Hn) as A.
  split; [exact A|]. split; [apply agrees_reject; exact A|].
  split; intros l; [apply agrees_sound|apply agrees_complete]; exact A.
Qed.
Print Assumptions C23_checked.

(* with the empty-range repair as well (the configuration of /repo now, up to three-part ranges) the
   outcome IS the specification: full equality, no exception for empty selections *)
Theorem C23_checked_exact (c : cfg) (n : Z) (u : sub) :
  chk_slice c = true -> chk_loop c = true -> empty_ok c = true ->
  step_of u <> 0 /\ (three_part u = true -> mod3 c = true) ->
  0 <= n ->
  index c n u = modelica n u.
Proof. exact (index_checked_exact c n u). Qed.
Print Assumptions C23_checked_exact.

(* ... in particular for the intermediate tree `repo_now` (before 7248ed5, 3facb7b) and every two-part subscript (scalar, ':', a:b, loop
   index with offset), every n >= 0 and all integer bounds and offsets *)
Theorem C23_repo_now_two_part (n : Z) (u : sub) :
  three_part u = false -> 0 <= n -> index repo_now n u = modelica n u.
Proof.
  intros H3 Hn.
  exact (index_checked_exact repo_now n u eq_refl eq_refl eq_refl (two_part_wf repo_now u H3) Hn).
Qed.
Print Assumptions C23_repo_now_two_part.

(* SCALAR SYMBOLS (also a scalar member of a component array, a scalar component): every subscript --
   integer, ':', slice, loop expression -- is rejected with ValueError; for the bare loop variable this
   needs the fifth repair.  Holds of /repo now for every subscript except the bare loop variable. *)
Theorem C23_scalar_symbol (c : cfg) (k : Z) (u : sub) :
  (is_loop u = true -> loop_step c u <> 0) ->
  (bare_loop u = false \/ chk_scalar_loop c = true) ->
  index_scalar c k u = modelica_scalar u.
Proof. exact (scalar_rejected c k u). Qed.
Print Assumptions C23_scalar_symbol.

(* REFUTED for the tree before 7248ed5 (fixed finding loop-subscript-on-scalar): `Real x; for i in 1:1 loop x[i]`
   is accepted and selects the scalar itself *)
Theorem C23_scalar_symbol_refuted :
  exists u, modelica_scalar u = ErrV /\ index_scalar repo_now 1 u = Ok [1].
Proof. exists (LoopV 1 1 0). split; vm_compute; reflexivity. Qed.
Print Assumptions C23_scalar_symbol_refuted.

(* /repo HEAD (after 05b675f, f098077, f8eb4b4, 7248ed5, 3facb7b: every flag true): THE PROPERTY in
   full, for every subscript form incl. three-part ranges with any non-zero step and any integer
   expression of the loop variable, every n >= 0 *)
Definition repo_head : cfg := Cfg true true true true true.
Theorem C23_repo_head (n : Z) (u : sub) :
  step_of u <> 0 -> 0 <= n -> index repo_head n u = modelica n u.
Proof.
  intros Hs Hn.
  exact (index_checked_exact repo_head n u eq_refl eq_refl eq_refl (conj Hs (fun _ => eq_refl)) Hn).
Qed.
Print Assumptions C23_repo_head.

(* ... every subscript on a scalar symbol is rejected *)
Theorem C23_repo_head_scalar (k : Z) (u : sub) :
  (is_loop u = true -> loop_step repo_head u <> 0) -> index_scalar repo_head k u = ErrV.
Proof. intros Hs. exact (scalar_rejected repo_head k u Hs (or_intror eq_refl)). Qed.
Print Assumptions C23_repo_head_scalar.

(* ... and several consecutive for-equations on the same array behave as independent subscripts: the
   first out-of-range loop raises ValueError, otherwise the selections are the Modelica ones in order *)
Theorem C23_multi (c : cfg) (n : Z) (us : list sub) :
  chk_slice c = true -> chk_loop c = true -> empty_ok c = true ->
  Forall (wf c) us -> 0 <= n ->
  index_multi c n us = modelica_multi n us.
Proof. exact (multi_checked_exact c n us). Qed.
Print Assumptions C23_multi.

(* NESTED for-equations whose subscript uses the inner index only: accepted => the selection is the inner
   Modelica selection repeated once per outer value; an out-of-range inner loop => ValueError -- whatever
   the outer range and whether or not the inner index reuses the outer name (the innermost loop of a name
   decides; the statement seeded change m9 violates) *)
Theorem C23_nested (c : cfg) (n oa ob : Z) (u : sub) (shadow : bool) :
  chk_slice c = true -> chk_loop c = true -> empty_ok c = true -> wf c u -> 0 <= n ->
  index_nested c n oa ob u shadow = modelica_nested n oa ob u
  /\ (modelica n u = ErrV -> index_nested c n oa ob u shadow = ErrV)
  /\ (forall l, index_nested c n oa ob u shadow = Ok l ->
       exists l0, modelica n u = Ok l0 /\ l = repeat_app (outer_count oa ob) l0).
Proof.
  intros Hs Hl He Hw Hn. split; [exact (nested_checked_exact c n oa ob u shadow Hs Hl He Hw Hn)|].
  split; [exact (nested_rejected c n oa ob u shadow Hs Hl He Hw Hn)|].
  intros l. exact (nested_accepted c n oa ob u shadow l Hs Hl He Hw Hn).
Qed.
Print Assumptions C23_nested.

(* on HEAD: Real x[2]; for i in 1:2 loop for i in 0:1 loop .. x[i] is rejected; Real x[3]; for i in 1:2 loop
   for i in 1:3 loop x[i] selects 1,2,3 twice *)
Example C23_nested_example :
  index_nested repo_head 2 1 2 (LoopV 0 1 0) true = ErrV /\
  index_nested repo_head 2 1 2 (LoopV 1 3 0) true = ErrV /\
  index_nested repo_head 3 1 2 (LoopV 1 3 0) true = Ok [1; 2; 3; 1; 2; 3] /\
  index_nested repo_head 2 0 3 (LoopX 1 2 (LSub (LConst 3) LVar)) false = Ok [2; 1; 2; 1; 2; 1; 2; 1].
Proof. vm_compute. repeat split; reflexivity. Qed.
Print Assumptions C23_nested_example.

(* PARTIAL (what holds of /repo as it was, and of every configuration): two-part subscripts that stay
   inside the array -- scalar i, ':', a:b with 1 <= a and 0 <= b <= n, loop indices i+off all inside
   1..n -- select exactly the Modelica elements.  Missing for the full property: the out-of-range
   slices and loop indices (refuted below) and three-part ranges. *)
Theorem C23_in_range_partial (c : cfg) (n : Z) (u : sub) :
  0 <= n -> in_range n u -> index c n u = modelica n u.
Proof. exact (index_in_range c n u). Qed.
Print Assumptions C23_in_range_partial.

(* two dimensions (repaired tree): an accepted pair of subscripts selects the product of the two
   Modelica selections; in particular nothing is accepted when either subscript is out of range.
   PARTIAL in that the 2-D code paths themselves are tied by the correspondence check only. *)
Theorem C23_2d_checked (c : cfg) (n m : Z) (u v : sub) (l : list (Z * Z)) :
  chk_slice c = true -> chk_loop c = true -> wf c u -> wf c v -> 0 <= n -> 0 <= m ->
  index2 c n m u v = Ok l -> modelica2 n m u v = Ok l.
Proof. exact (index2_sound c n m u v l). Qed.
Print Assumptions C23_2d_checked.

(* REFUTED for the code as it was before 05b675f / f098077 (`as_coded`; now fixed findings); the
   three-part witness held of /repo until 3facb7b (fixed finding three-part-range) *)
(* x[0:2] on Real x[3]: out of range, yet generation succeeds and selects nothing *)
Theorem C23_slice_refuted :
  exists n u, modelica n u = ErrV /\ index as_coded n u = Ok [].
Proof. exists 3, (Sl 0 2). split; vm_compute; reflexivity. Qed.
Print Assumptions C23_slice_refuted.

(* x[(0-1):2] on Real x[3]: out of range, yet element 2 alone is selected *)
Theorem C23_slice_wrap_refuted :
  exists n u, modelica n u = ErrV /\ index as_coded n u = Ok [2].
Proof. exists 3, (Sl (-1) 2). split; vm_compute; reflexivity. Qed.
Print Assumptions C23_slice_wrap_refuted.

(* for i in 0:3 loop x[i]: index 0 is read as the LAST element *)
Theorem C23_loop_refuted :
  exists n u, modelica n u = ErrV /\ index as_coded n u = Ok [3; 1; 2; 3].
Proof. exists 3, (LoopV 0 3 0). split; vm_compute; reflexivity. Qed.
Print Assumptions C23_loop_refuted.

(* x[1:3:2] on Real x[3]: Modelica start 1, step 3, stop 2 = {1}; read as start:stop:step = {1,3},
   with or without the range checks *)
Theorem C23_three_part_refuted (cs cl ce cx : bool) :
  modelica 3 (Sl3 1 3 2) = Ok [1] /\ index (Cfg cs cl false ce cx) 3 (Sl3 1 3 2) = Ok [1; 3].
Proof. destruct cs, cl, ce, cx; split; vm_compute; reflexivity. Qed.
Print Assumptions C23_three_part_refuted.

(* non-vacuity: the hypotheses of C23_checked are satisfiable and the conclusion is not trivial --
   a repaired configuration rejects x[0:2] and the wrapped loop, and accepts x[2:3] as {2,3} *)
Example C23_example :
  let c := Cfg true true true true true in
  let sq := LMul (LSub LVar (LConst 2)) (LSub LVar (LConst 2)) in     (* (i-2)*(i-2): 1,0,1 on 1:3 *)
  wf c (Sl3 3 (-1) 1) /\ index c 3 (LoopV 3 1 1) = Ok [] /\
  index c 3 (LoopX 1 3 sq) = ErrV /\ index c 3 (LoopX 1 3 (LAdd sq (LConst 1))) = Ok [2; 1; 2] /\
  index_scalar c 1 (LoopV 1 1 0) = ErrV /\
  index c 3 (Sl 0 2) = ErrV /\ index c 3 (LoopV 0 3 0) = ErrV /\
  index c 3 (Sl 2 3) = Ok [2; 3] /\ index c 3 (Sl3 3 (-1) 1) = Ok [3; 2; 1] /\
  index c 3 (LoopV 1 2 1) = Ok [2; 3].
Proof. vm_compute. repeat split; try reflexivity; intros H; discriminate H. Qed.
Print Assumptions C23_example.
