(* C26 — compiler CLI exit status counts exactly the errors.
   Property theorems only; proofs live in Proofs/C26_cli.v.  `sk` is the error-accounting
   table of tools/compiler.py (increment per `errors +=` site, except-clause classes); the table
   regenerated from the source on every run is shown to satisfy `skel_ok` in run/C26/Tie_C26.v. *)
From Coq Require Import List Arith Bool Permutation.
Import ListNotations.
From PV Require Import Model.C26_cli Proofs.C26_cli.

(* For every invocation: main never lets an exception escape and its exit status is `count`,
   i.e. 2 for an argument error, else the number of usage errors if any, else 1 for "no Modelica
   files", else the number of files with parse errors if any, else the number of requested models
   that fail to flatten / generate (casadi: or have no unique file).
   Hypothesis `parse_caught`: no listed file's read/parse raises an exception class that the
   table's parse_file handler does not catch.  It is vacuous for -t casadi and for a parse_file
   that catches Exception (C26_count_total), which is the case at /repo HEAD (C26_count_head). *)
Theorem C26_count (sk : skel) (f : facts) :
  skel_ok sk = true -> parse_caught sk f -> main_with sk f = Exit (count f).
Proof. exact (count_correct sk f). Qed.
Print Assumptions C26_count.

(* the full-strength statement, for any table whose parse_file handler catches Exception *)
Theorem C26_count_total (sk : skel) :
  skel_ok sk = true -> parse_broad sk = true -> forall f, main_with sk f = Exit (count f).
Proof. exact (count_total sk). Qed.
Print Assumptions C26_count_total.

(* /repo HEAD (hand-written table, parse_file catches Exception since 52ae5a2): for EVERY invocation
   main lets no exception escape and exits with the count *)
Theorem C26_count_head (f : facts) : main f = Exit (count f).
Proof. exact (count_head f). Qed.
Print Assumptions C26_count_head.

(* the hypothesis parse_caught of C26_count cannot be dropped for a narrower handler: the table
   before 52ae5a2 satisfies skel_ok, yet an undecodable .mo file makes main raise *)
Theorem C26_narrow_parse_handler_escapes : skel_ok narrow_skel = true /\
  exists f, main_with narrow_skel f = Raises EValue /\ ~ parse_caught narrow_skel f.
Proof. exact narrow_escapes. Qed.
Print Assumptions C26_narrow_parse_handler_escapes.

(* parse_all's contract (first list = ALL collected .mo files): when every collected file has a
   parse error the exit status is the number of files, not the 1 of "No Modelica files" *)
Theorem C26_every_file_bad (sk : skel) (f : facts) : skel_ok sk = true -> parse_caught sk f ->
  f_argparse f = AOk -> (f_target f <> TNone -> f_models f <> []) -> usage_count f = 0 ->
  f_target f <> TCasadi -> f_files f <> [] -> Forall (fun p => bad_file p = true) (f_files f) ->
  main_with sk f = Exit (length (f_files f)).
Proof. exact (every_file_bad sk f). Qed.
Print Assumptions C26_every_file_bad.

(* exit status 0 iff full success *)
Theorem C26_zero_iff_success (sk : skel) (f : facts) :
  skel_ok sk = true -> parse_caught sk f -> (main_with sk f = Exit 0 <-> full_success f).
Proof.
  intros Hs Hp. rewrite (count_correct sk f Hs Hp). rewrite <- zero_iff.
  split; [intros H; injection H; auto|intros ->; reflexivity].
Qed.
Print Assumptions C26_zero_iff_success.

(* argument errors give exit code 2: an argparse error for every table; -t without -m for every table
   whose argp.error stands before the early return on counted usage errors (part of skel_ok), so
   whatever else is wrong with the call *)
Theorem C26_argument_errors (sk : skel) (f : facts) :
  f_argparse f = AError \/
  (k_combo_first sk = true /\ f_argparse f = AOk /\ f_target f <> TNone /\ f_models f = []) ->
  main_with sk f = Exit 2.
Proof. exact (argparse_two sk f). Qed.
Print Assumptions C26_argument_errors.

(* per-model independence: when the invocation reaches the model loop, the exit status is the sum
   over the requested models of a contribution that is a function of that model (and the target)
   alone; hence it equals the sum of the exit statuses of the one-model invocations, and does not
   depend on the order of the -m options *)
Theorem C26_independent (sk : skel) (f : facts) :
  skel_ok sk = true -> parse_caught sk f -> reaches_models f ->
  main_with sk f = Exit (sum (map (contrib (f_target f)) (f_models f))) /\
  (forall n, main_with sk f = Exit n ->
     n = sum (map (fun m => match main_with sk (with_models f [m]) with Exit k => k | Raises _ => 0 end)
                  (f_models f))) /\
  (forall ms', Permutation (f_models f) ms' -> main_with sk (with_models f ms') = main_with sk f).
Proof.
  intros Hs Hp Hr. split; [|split].
  - exact (independent sk f Hs Hp Hr).
  - exact (independent_single sk f Hs Hp Hr).
  - intros ms'. exact (independent_perm sk f ms' Hs Hp Hr).
Qed.
Print Assumptions C26_independent.

(* non-vacuity: the table of /repo HEAD satisfies the side condition, and a concrete invocation
   (two valid files, -t casadi, three models: fine / ambiguous / failing) reaches the loop *)
Example C26_example :
  skel_ok head_skel = true /\
  let f := Facts AOk TCasadi true [true; true] [true] [POk; POk; POk]
                 [MF MOk [true; false; false]; MF MOk [false; true; true]; MF (MExc EOther) [true; false; false]] in
  parse_caught head_skel f /\ reaches_models f /\ main f = Exit 2.
Proof.
  split; [vm_compute; reflexivity|]. split; [|split].
  - intros H. exfalso. apply H. reflexivity.
  - repeat split; try discriminate.
  - vm_compute. reflexivity.
Qed.
Print Assumptions C26_example.
