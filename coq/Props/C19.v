(* C19 — cached and code-generated models equal fresh compiles.
   Property theorems only; model in Model/C19_cache.v, proofs in Proofs/C19_cache.v.

   Reading.  `save m` is what save_model writes (variable dictionaries with MX attributes replaced by
   None, the dependency matrices NOT_MX / MX_DEPENDENT / MX_INDEPENDENT, the metadata and
   delay-argument Functions, the delay-duration dependency lists, outputs / delay states / strings /
   alias relation as plain pickled data); `load pkm pkd d` is what load_model rebuilds from it
   (Variable.from_dict, symbolic call of the metadata function for MX_DEPENDENT cells, call with NaN
   for MX_INDEPENDENT cells, one matrix ROW PER SCALAR ELEMENT, NaN call / replace_false_deps /
   substitute for the delay durations with the `actual_deps` rebinding as coded).
   `pkm`, `pkd` stand for the serialisation of the two CasADi Functions (pickle, or CodeGenerator +
   C compiler + ca.external); the only thing assumed about them is that the result EVALUATES like the
   original (pkm_ok, pkd_ok) - nothing about its expression structure.
   Values are V = option Qc with None = NaN; `rho` ranges over ALL valuations, NaN included. *)
From Coq Require Import List Bool Arith QArith Qcanon.
From PV Require Import Model.C19_cache Proofs.C19_cache.
Import ListNotations.
Open Scope nat_scope.

(* For EVERY well-formed model (any number of variables per category, any shapes, any attribute
   expressions; well-formed = an MX attribute has one element or one per element of its variable, and
   derivative states carry python-valued attributes only) the loaded model has, category by category
   and in the same ORDER, variables with the same name, shape, python type and alias set; every
   attribute has the same KIND (python value vs MX); python-valued attributes are identical; MX-valued
   attributes evaluate, after broadcasting to the variable's shape, to the same values at EVERY
   parameter valuation; derivative states, outputs, delay states, string variables and the alias
   relation are identical; and every delay argument (expression and duration) evaluates to the same
   value at every valuation of all symbols. *)
Theorem C19_roundtrip
  (pkm : mfun -> mfun) (pkd : list (expr * expr) -> list (expr * expr))
  (pkm_ok : forall f rho c r j, call_meta (pkm f) rho c r j = call_meta f rho c r j)
  (pkd_ok : forall f, Forall2 delay_equiv (pkd f) f)
  (m : model) :
  wf m -> obs_equiv (load pkm pkd (save m)) m.
Proof. exact (roundtrip pkm pkd pkm_ok pkd_ok m). Qed.
Print Assumptions C19_roundtrip.

(* The classification stored by save_model is sound: a cell classified MX_INDEPENDENT contains no
   parameter symbol, hence the NaN call returns exactly its constant value at every valuation; a
   cell classified MX_DEPENDENT really mentions a parameter; NOT_MX cells are python values. *)
Theorem C19_classification_sound (a : attr) :
  (classify a = MX_INDEPENDENT ->
     exists es, a = MX es /\ forall e, In e es -> vars e = [] /\ forall rho, eval rho e = eval nanrho e) /\
  (classify a = MX_DEPENDENT -> exists es e i, a = MX es /\ In e es /\ In i (vars e)) /\
  (classify a = NOT_MX -> exists p, a = Py p).
Proof. exact (conj (classify_independent a) (conj (classify_dependent a) (classify_not_mx a))). Qed.
Print Assumptions C19_classification_sound.

(* The delay-argument part needs no well-formedness at all: for ANY model, each reconstructed delay
   argument evaluates like the original, whichever of the three reconstruction branches is taken
   (NaN call; replace_false_deps only; replace_false_deps followed by substitute). *)
Theorem C19_delay_arguments
  (pkm : mfun -> mfun) (pkd : list (expr * expr) -> list (expr * expr))
  (pkd_ok : forall f, Forall2 delay_equiv (pkd f) f) (m : model) :
  Forall2 delay_equiv (m_delays (load pkm pkd (save m))) (m_delays m).
Proof. exact (delay_arguments pkm pkd pkd_ok m). Qed.
Print Assumptions C19_delay_arguments.

(* Non-vacuity: a concrete well-formed model with a scalar state (dependent min, constant MX nominal),
   an ARRAY variable v[2] (each min = -p2, vector max = pa) followed by an Integer variable whose min
   is pa[2], an array parameter and three delays with different dependencies; its dependency matrices,
   delay dependency lists, and the loaded attributes of the second category evaluated at a valuation
   (the variable after the array reads its own row). *)
Example C19_example :
  wf ex_model /\
  db_dep (save ex_model) =
    [ [ [NOT_MX; MX_DEPENDENT; NOT_MX; NOT_MX; NOT_MX; MX_INDEPENDENT] ];
      [ [NOT_MX; MX_DEPENDENT; MX_DEPENDENT; NOT_MX; NOT_MX; NOT_MX];
        [NOT_MX; MX_DEPENDENT; NOT_MX; NOT_MX; NOT_MX; NOT_MX] ];
      []; [ [NOT_MX; NOT_MX; NOT_MX; NOT_MX; NOT_MX; NOT_MX]; [NOT_MX; NOT_MX; NOT_MX; NOT_MX; NOT_MX; NOT_MX];
            [NOT_MX; NOT_MX; NOT_MX; NOT_MX; NOT_MX; NOT_MX] ]; [] ] /\
  db_delay_dep (save ex_model) = [[5]; [6]; []] /\
  list_eqb (list_eqb (list_eqb V_eqb))
    (map (fun v => map (attr_vals ex_rho (numel (vshape v))) (vattrs v))
         (nth 1 (m_meta (load (fun f => f) (fun f => f) (save ex_model))) []))
    [ [ []; [Some (qz (-1) 1); Some (qz (-1) 1)]; [Some (qz 3 2); Some (qz 2 1)]; []; []; [] ];
      [ []; [Some (qz 2 1)]; []; []; []; [] ] ] = true.
Proof. exact example. Qed.
Print Assumptions C19_example.
