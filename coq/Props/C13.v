(* C13 — variable metadata reports the declared attributes.
   Property theorems only; proofs live in Proofs/C13_metadata.v. *)
From Coq Require Import QArith Qcanon List Bool ZArith.
From PV Require Import Model.C13_metadata Model.C13_poly Proofs.C13_metadata Proofs.C13_poly.
Import ListNotations.
Local Open Scope Qc_scope.

(* Unspecified attributes: every row of a variable without any attribute is
   (value NaN, min -inf, max +inf, start 0, fixed false(0), nominal 0), in the column order
   of CASADI_ATTRIBUTES, for every type, every size, every parameter vector, both branches *)
Theorem C13_defaults (t : vtype) (n : nat) (p : list Qc) (rb : bool) :
  metadata rb [[Var t n (fun _ => DNone)]] p =
  Some [repeat_ [NaN; NegInf; PosInf; Fin 0; Fin 0; Fin 0] n].
Proof. exact (defaults_rows t n p rb). Qed.
Print Assumptions C13_defaults.

(* The metadata function: for every model (any number of categories, variables, sizes), every
   parameter valuation p at which no attribute expression divides by zero, and whichever
   branch CasADi's affinity test selected (rb) - provided the rebuild branch is only taken
   when all cells are in the syntactic affine class - every entry equals the declared
   attribute expression evaluated at p (spec_metadata: defaults for the unspecified ones,
   scalars broadcast over arrays, array literals element-wise). *)
Theorem C13_values (rb : bool) (M : model) (p : list Qc) :
  model_wf M = true -> safe_ok p M = true -> (rb = true -> affine_ok M = true) ->
  metadata rb M p = Some (spec_metadata p M).
Proof. exact (metadata_spec rb M p). Qed.
Print Assumptions C13_values.

(* The same on the Variable objects (attributes evaluated at p, scalars broadcast) *)
Theorem C13_variable_attributes (M : model) (p : list Qc) :
  model_wf M = true -> var_attrs M p = Some (spec_metadata p M).
Proof. exact (var_attrs_spec M p). Qed.
Print Assumptions C13_variable_attributes.

(* The affine rebuild: for the syntactic class  c | p_i | a+a | a-a | c*a | a*c | a/c | -a
   (c any parameter-free subexpression),  J(0)*p + f(0) = f(p)  for every p *)
Theorem C13_affine_rebuild (e : aexp) (p : list Qc) :
  affine e = true -> safe p e = true -> rebuild e p = eval p e.
Proof. exact (affine_rebuild e p). Qed.
Print Assumptions C13_affine_rebuild.

(* Integer and Boolean variables keep their Python types: an Integer literal on an Integer
   variable stays int, a Boolean literal on an Integer/Boolean variable stays bool, every
   scalar literal on a Real variable becomes float; and coercion never changes the value of a
   well-typed literal *)
Theorem C13_types :
  (forall z, lit_tag (coerce TInt (LInt z)) = GInt) /\
  (forall t b, t <> TReal -> lit_tag (coerce t (LBool b)) = GBool) /\
  (forall l, lit_tag (coerce TReal l) = GFloat) /\
  (forall t l, well_typed t l = true -> lit_val (coerce t l) = lit_val l) /\
  (forall v a l, vdecl v a = DLit l -> attr_tag v a = lit_tag (coerce (vt v) l)).
Proof.
  exact (conj coerce_tag_int (conj coerce_tag_bool (conj coerce_tag_real
        (conj coerce_value attr_tag_literal)))).
Qed.
Print Assumptions C13_types.

(* _substitute_metadata: eliminating parameters (entry i of the old parameter vector := nth i sg, an
   expression over the new one) commutes with evaluation *)
Theorem C13_substitute (sg : list aexp) (e : aexp) (p : list Qc) :
  eval p (subst sg e) = eval (map (eval p) sg) e.
Proof. exact (subst_eval sg e p). Qed.
Print Assumptions C13_substitute.

(* C13_values after ANY sequence of parameter-eliminating simplify steps (replace_parameter_values,
   replace_parameter_expressions, ...; including the conversion of attributes that became constant
   into Python numbers of the variable's type): the metadata function of the simplified model at
   the remaining parameters p reports the ORIGINALLY declared expressions at the corresponding
   original valuation env_back steps p.  steps_ok: an Integer attribute that becomes constant has
   an integral value. *)
Theorem C13_values_steps (rb : bool) (steps : list (list aexp)) (M : model) (p : list Qc) :
  steps_ok steps M = true ->
  model_wf (run steps M) = true -> safe_ok p (run steps M) = true ->
  (rb = true -> affine_ok (run steps M) = true) ->
  metadata rb (run steps M) p = Some (spec_metadata (env_back steps p) M).
Proof. exact (metadata_steps rb steps M p). Qed.
Print Assumptions C13_values_steps.

(* vector / matrix valued attribute expressions (start = pa, 2*pa, 3*P, P + fill(p,2,3)): the element
   expressions the model puts into the matrix cells (and, for _expand_vectors, on element k) evaluate
   to the entries of the vector value; C13_values / C13_values_steps cover DVec / DVecEl declarations
   with veval as their specification *)
Theorem C13_vector_elements (p : list Qc) (v : vexp) :
  map (eval p) (velems v) = veval p v.
Proof. exact (velems_eval p v). Qed.
Print Assumptions C13_vector_elements.

(* The affinity test on the polynomial fragment (constants, parameters, + - * neg, integer powers,
   division by parameter-free terms), expanded into terms c * p_x1 ... p_xk without combining like
   terms (CasADi's structural view).  "No second structural partial derivative has a term" (the
   code's `jacobian(jacobian(expr, in_var), in_var).is_zero()`)  <->  every term has total degree
   <= 1  <->  the expansion is in the syntactic affine class; every member of the syntactic affine
   class passes;
   and when the test passes, the affine rebuild the code performs - J(0)*p + f(0) of the expression
   itself - reproduces the declared expression at every parameter valuation (the derivative d0 used by
   the rebuild is proved to be the derivative of the expansion).
   PARTIAL: (a) outside the polynomial fragment (pnorm e = None: division by a parameter-dependent
   term, if-expressions, functions) nothing is proved - there the branch taken stays an observed input
   of the model (rb) with the contract `rb = true -> affine_ok M`; (b) the allowed-operation set is
   not modelled (it only makes the code reject more); (c) that CasADi's sparsity propagation computes
   exactly this structural Hessian is assumed. *)
Theorem C13_test_sound_partial :
  (forall P, hess_zero P <-> deg_le1 P = true) /\
  (forall P, deg_le1 P = affine (to_aexp P)) /\
  (forall e P, pnorm e = Some P -> affine e = true -> hess_zero P) /\
  (forall e P p, pnorm e = Some P -> safe p e = true -> eval p e = peval p P) /\
  (forall e P p, pnorm e = Some P -> safe p e = true -> hess_zero P -> rebuild e p = eval p e).
Proof.
  split; [exact hess_zero_iff_degree|]. split; [exact degree_iff_affine|]. split.
  - intros e P N A. apply hess_zero_iff_degree. exact (affine_deg_le1 e P N A).
  - split; [exact (fun e P p N S => pnorm_eval p e P N S)|exact test_sound_rebuild].
Qed.
Print Assumptions C13_test_sound_partial.

(* C13_values with the MODELLED test as the branch contract: if the rebuild branch is only taken when
   every symbolic cell is polynomial with a structurally zero Hessian, the metadata function reports
   the declared attributes *)
Theorem C13_values_test (rb : bool) (M : model) (p : list Qc) :
  model_wf M = true -> safe_ok p M = true -> (rb = true -> test_ok M = true) ->
  metadata rb M p = Some (spec_metadata p M).
Proof. exact (metadata_spec_test rb M p). Qed.
Print Assumptions C13_values_test.

(* the two seeded replacements of the Hessian test are unsound: p*q*r passes the numeric test at
   p = 0 (C13/m1), p*q passes the per-parameter (block-diagonal) test (C19/m1); both fail the
   structural test and their affine rebuild differs from the declared value at p = (1,1,1) *)
Theorem C13_numeric_test_refuted :
  exists e P p, pnorm e = Some P /\ hess_num0 P /\ ~ hess_zero P /\ rebuild e p <> eval p e.
Proof. exact numeric_test_refuted. Qed.
Print Assumptions C13_numeric_test_refuted.

Theorem C13_blockdiag_test_refuted :
  exists e P p, pnorm e = Some P /\ hess_diag P /\ ~ hess_zero P /\ rebuild e p <> eval p e.
Proof. exact blockdiag_test_refuted. Qed.
Print Assumptions C13_blockdiag_test_refuted.

(* non-vacuity: Real y[2](each min = -p1, max = {p0/2 + 1, 3}, start = 2) and Integer i(max = 7)
   with two parameters, rebuilt branch, at p = (3, 1/2) *)
Definition ex_p0 : aexp := Par 0.
Definition ex_y : var :=
  Var TReal 2 (fun a => match a with
    | AMin => DExp (Neg (Par 1))
    | AMax => DElems [EExp (Add (Div (Par 0) (Cst (Q2Qc 2))) (Cst 1)); ELit (LInt 3)]
    | AStart => DLit (LInt 2)
    | _ => DNone end).
Definition ex_i : var := Var TInt 1 (fun a => match a with AMax => DLit (LInt 7) | _ => DNone end).
Definition ex_M : model := [[]; [ex_y; ex_i]; []; []; []].
Definition ex_p : list Qc := [Q2Qc 3; Q2Qc (1 # 2)].

Example C13_example :
  model_wf ex_M = true /\ safe_ok ex_p ex_M = true /\ affine_ok ex_M = true /\
  metadata true ex_M ex_p =
  Some [[]; [[NaN; Fin (Q2Qc (-1 # 2)); Fin (Q2Qc (5 # 2)); Fin (Q2Qc 2); Fin 0; Fin 0];
             [NaN; Fin (Q2Qc (-1 # 2)); Fin (Q2Qc 3); Fin (Q2Qc 2); Fin 0; Fin 0];
             [NaN; NegInf; Fin (Q2Qc 7); Fin 0; Fin 0; Fin 0]]; []; []; []] /\
  attr_tag ex_i AMax = GInt /\ attr_tag ex_y AStart = GFloat.
Proof.
  assert (W : model_wf ex_M = true) by (vm_compute; reflexivity).
  assert (S : safe_ok ex_p ex_M = true) by (vm_compute; reflexivity).
  assert (A : affine_ok ex_M = true) by (vm_compute; reflexivity).
  split; [exact W|]. split; [exact S|]. split; [exact A|]. split; [|split; reflexivity].
  rewrite (metadata_spec true ex_M ex_p W S (fun _ => A)). vm_compute.
  repeat f_equal; apply Qc_is_canon; reflexivity.
Qed.
Print Assumptions C13_example.

(* ---------- constants (Model/C13_const.v) ---------- *)
From PV Require Import Model.C13_const.

(* Variable level: attributes that mention constants evaluate to the declared expression at the parameters
   and the constants' resolved values (instance of C13_variable_attributes on the extended valuation) *)
Theorem C13_variable_attributes_constants (M : model) (cs : list aexp) (p : list Qc) :
  model_wf M = true -> var_attrs_c M cs p = Some (spec_metadata (p ++ cvals cs p) M).
Proof. intros W. exact (var_attrs_spec M (p ++ cvals cs p) W). Qed.
Print Assumptions C13_variable_attributes_constants.

(* Function level, carve-out "no attribute mentions a constant" (exactly the complement of the recorded
   finding's class): the metadata function exists and reports the declared attributes *)
Theorem C13_values_no_constants (rb : bool) (n : nat) (M : model) (p : list Qc) :
  no_constants n M = true ->
  model_wf M = true -> safe_ok p M = true -> (rb = true -> affine_ok M = true) ->
  metadata_fn rb n M p = Some (spec_metadata p M).
Proof. intros C W S A. unfold metadata_fn. rewrite C. exact (metadata_spec rb M p W S A). Qed.
Print Assumptions C13_values_no_constants.

(* the recorded finding: `constant Real c = 2; Real x(max = c);` (no parameter, c = symbol 0) is a
   well-formed model whose Variable-level max is 2 but whose metadata function cannot be built *)
Definition cx_M : model :=
  [[]; [Var TReal 1 (fun a => match a with AMax => DExp (Par 0) | _ => DNone end)]; []; [];
   [Var TReal 1 (fun a => match a with AValue => DLit (LReal (Q2Qc 2)) | _ => DNone end)]].
Theorem C13_metadata_function_constants_refuted :
  exists (M : model) (cs : list aexp) (n : nat),
    model_wf M = true /\
    var_attrs_c M cs [] = Some (spec_metadata (cvals cs []) M) /\
    (forall rb, metadata_fn rb n M [] = None).
Proof.
  exists cx_M, [Cst (Q2Qc 2)], 0%nat. split; [reflexivity|]. split.
  - exact (var_attrs_spec cx_M _ eq_refl).
  - intros rb. reflexivity.
Qed.
Print Assumptions C13_metadata_function_constants_refuted.
