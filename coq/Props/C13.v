(* C13 — variable metadata reports the declared attributes.
   Property theorems only; proofs live in Proofs/C13_metadata.v. *)
From Coq Require Import QArith Qcanon List Bool ZArith.
From PV Require Import Model.C13_metadata Proofs.C13_metadata.
Import ListNotations.
Local Open Scope Qc_scope.

(* Unspecified attributes: every row of a variable without any attribute is
   (value NaN, min -inf, max +inf, start 0, fixed false(0), nominal 0), in the column order
   of CASADI_ATTRIBUTES, for every type, every size, every parameter vector, both branches *)
Theorem C13_defaults (t : vtype) (n : nat) (p : list Qc) (rb : bool) :
  metadata rb [[Var t n (fun _ => DNone)]] p =
  Some [repeat_ [NaN; NegInf; PosInf; Fin 0; Fin 0; Fin 0] n].
Proof. exact (defaults_rows t n p rb). Qed.
Print Assumptions C13_defaults.

(* The metadata function: for every model (any number of categories, variables, sizes), every
   parameter valuation p at which no attribute expression divides by zero, and whichever
   branch CasADi's affinity test selected (rb) - provided the rebuild branch is only taken
   when all cells are in the syntactic affine class - every entry equals the declared
   attribute expression evaluated at p (spec_metadata: defaults for the unspecified ones,
   scalars broadcast over arrays, array literals element-wise). *)
Theorem C13_values (rb : bool) (M : model) (p : list Qc) :
  model_wf M = true -> safe_ok p M = true -> (rb = true -> affine_ok M = true) ->
  metadata rb M p = Some (spec_metadata p M).
Proof. exact (metadata_spec rb M p). Qed.
Print Assumptions C13_values.

(* The same on the Variable objects (attributes evaluated at p, scalars broadcast) *)
Theorem C13_variable_attributes (M : model) (p : list Qc) :
  model_wf M = true -> var_attrs M p = Some (spec_metadata p M).
Proof. exact (var_attrs_spec M p). Qed.
Print Assumptions C13_variable_attributes.

(* The affine rebuild: for the syntactic class  c | p_i | a+a | a-a | c*a | a*c | a/c | -a
   (c any parameter-free subexpression),  J(0)*p + f(0) = f(p)  for every p *)
Theorem C13_affine_rebuild (e : aexp) (p : list Qc) :
  affine e = true -> safe p e = true -> rebuild e p = eval p e.
Proof. exact (affine_rebuild e p). Qed.
Print Assumptions C13_affine_rebuild.

(* Integer and Boolean variables keep their Python types: an Integer literal on an Integer
   variable stays int, a Boolean literal on an Integer/Boolean variable stays bool, every
   scalar literal on a Real variable becomes float; and coercion never changes the value of a
   well-typed literal *)
Theorem C13_types :
  (forall z, lit_tag (coerce TInt (LInt z)) = GInt) /\
  (forall t b, t <> TReal -> lit_tag (coerce t (LBool b)) = GBool) /\
  (forall l, lit_tag (coerce TReal l) = GFloat) /\
  (forall t l, well_typed t l = true -> lit_val (coerce t l) = lit_val l) /\
  (forall v a l, vdecl v a = DLit l -> attr_tag v a = lit_tag (coerce (vt v) l)).
Proof.
  exact (conj coerce_tag_int (conj coerce_tag_bool (conj coerce_tag_real
        (conj coerce_value attr_tag_literal)))).
Qed.
Print Assumptions C13_types.

(* C13_test_sound_partial is NOT proved: that a structurally zero CasADi Hessian together
   with the allowed-operation set implies membership in (or agreement with) the affine class
   is a statement about CasADi's symbolic differentiation; here it is the hypothesis
   `rb = true -> affine_ok M = true` of C13_values, validated on every correspondence case. *)

(* non-vacuity: Real y[2](each min = -p1, max = {p0/2 + 1, 3}, start = 2) and Integer i(max = 7)
   with two parameters, rebuilt branch, at p = (3, 1/2) *)
Definition ex_p0 : aexp := Par 0.
Definition ex_y : var :=
  Var TReal 2 (fun a => match a with
    | AMin => DExp (Neg (Par 1))
    | AMax => DElems [EExp (Add (Div (Par 0) (Cst (Q2Qc 2))) (Cst 1)); ELit (LInt 3)]
    | AStart => DLit (LInt 2)
    | _ => DNone end).
Definition ex_i : var := Var TInt 1 (fun a => match a with AMax => DLit (LInt 7) | _ => DNone end).
Definition ex_M : model := [[]; [ex_y; ex_i]; []; []; []].
Definition ex_p : list Qc := [Q2Qc 3; Q2Qc (1 # 2)].

Example C13_example :
  model_wf ex_M = true /\ safe_ok ex_p ex_M = true /\ affine_ok ex_M = true /\
  metadata true ex_M ex_p =
  Some [[]; [[NaN; Fin (Q2Qc (-1 # 2)); Fin (Q2Qc (5 # 2)); Fin (Q2Qc 2); Fin 0; Fin 0];
             [NaN; Fin (Q2Qc (-1 # 2)); Fin (Q2Qc 3); Fin (Q2Qc 2); Fin 0; Fin 0];
             [NaN; NegInf; Fin (Q2Qc 7); Fin 0; Fin 0; Fin 0]]; []; []; []] /\
  attr_tag ex_i AMax = GInt /\ attr_tag ex_y AStart = GFloat.
Proof.
  assert (W : model_wf ex_M = true) by (vm_compute; reflexivity).
  assert (S : safe_ok ex_p ex_M = true) by (vm_compute; reflexivity).
  assert (A : affine_ok ex_M = true) by (vm_compute; reflexivity).
  split; [exact W|]. split; [exact S|]. split; [exact A|]. split; [|split; reflexivity].
  rewrite (metadata_spec true ex_M ex_p W S (fun _ => A)). vm_compute.
  repeat f_equal; apply Qc_is_canon; reflexivity.
Qed.
Print Assumptions C13_example.
