(* C08 — modifications take effect with Modelica precedence in either spelling.
   Property theorems only; proofs in Proofs/C08_modify.v; the model is the shared flattening model
   (Model/C07_flatten.v: environment merge, shifting, scope tags, modify_symbol) + Model/C08_modify.v.
   Proved for arbitrary argument lists: precedence = list order with the outer source appended last;
   scope of value modifications; rejection of the nested spelling at structured components.
   Refuted on the faithful model (recorded defects): dotted attribute spelling, scope of attribute
   modifications. *)
From Coq Require Import List ZArith Bool PArith.
From PV Require Import Lib.ClassTree Lib.Inst Model.C07_flatten Model.C08_modify Proofs.C07_flatten Proofs.C08_modify.
Import ListNotations.

(* modify_symbol applies `inner ++ outer` by setattr in list order, where `inner` are the arguments of
   the declaration (or of the base class) and `outer` those appended from the enclosing component or the
   extends clause (tree.py:305-307, 326-328, 494-497, 545-548).  If the outer source names attribute a,
   the final value is the outer one whatever the inner source says; if it is silent, the inner (and then
   the previous) value stands.  Holds for every pair of lists. *)
Theorem C08_outermost (a : ident) (inner outer : list marg) (attrs r : list (ident * expr)) :
  apply_args (inner ++ outer) attrs = Ok r ->
  (forall e, last_for a outer = Some e -> get_attr a r = Some e) /\
  (last_for a outer = None ->
   get_attr a r = match last_for a inner with Some e => Some e | None => get_attr a attrs end).
Proof.
  intros H. split; [intros e L; exact (outermost_wins a inner outer attrs r e H L)
                   | intros L; exact (inner_when_outer_silent a inner outer attrs r H L)].
Qed.
Print Assumptions C08_outermost.

(* scope, VALUE modifications: the `value = e` argument created for a symbol keeps the scope of the
   argument it was written in, and an argument with a scope is applied exactly in the class with that
   full reference (where its references are then renamed) *)
Theorem C08_scope_value :
  (forall a e, In (MExpr e) (m_mods a) -> In (MArg (m_scope a) [aValue] [MExpr e]) (to_symbol_mods a)) /\
  (forall sc s t m, applies sc (MArg (Some s) t m) = true <-> s = sc).
Proof. exact (conj value_keeps_scope applies_scope). Qed.
Print Assumptions C08_scope_value.

(* PARTIAL (spelling).  At a structured component the dotted spelling a.rest(ms) is shifted one level and
   the nested spelling a(rest(ms)) is rejected (IndexError), for every argument — so there the two
   spellings never give different models.  Missing: the lift through build/flatten_symbols to
   `flatten (nest m) = flatten m \/ rejected` for whole libraries, and the leaf level, where the statement
   is false for the dotted-attribute shape (C08_spelling_refuted). *)
Theorem C08_spelling_partial (sc : option path) (n m : ident) (rest : path) (ms : list mval) :
  shift_arg (MArg sc (n :: m :: rest) ms) = Ok (MArg sc (m :: rest) ms) /\
  shift_arg (nest (MArg sc (n :: m :: rest) ms)) = Err IndexErr.
Proof. exact (conj (dotted_accepted sc n m rest ms) (nest_rejected sc n m rest ms)). Qed.
Print Assumptions C08_spelling_partial.

(* the SPECIFICATION (Lib/Inst.v) is spelling independent — the dotted argument a.rest(ms) and its nested
   spelling a(rest(ms)) give the same modifier entries, for every argument — and outermost wins in it: in
   outer ++ inner the entry of the outer source is taken whenever there is one.  The refinement
   `flatten = inst` WITH modifications (C08_refines) is not proved; missing lemma: apply_args_leaf (see
   Props/C07.v, C07_refines_partial); the comparison real flat model vs `inst` is made on every run
   (check_spec) on the libraries outside the recorded defect shapes. *)
Theorem C08_spec_spelling (env : option path) (a : marg) : flat_arg env (nest a) = flat_arg env a.
Proof. exact (spec_spelling env a). Qed.
Print Assumptions C08_spec_spelling.

Theorem C08_spec_outermost (a : ident) (outer inner : list mentry) :
  attr_lookup a (outer ++ inner) =
  match attr_lookup a outer with Some x => Some x | None => attr_lookup a inner end.
Proof. exact (spec_outermost a outer inner). Qed.
Print Assumptions C08_spec_outermost.

(* Steps of the refinement WITH modifications that are proved (each for arbitrary arguments):
   C08_apply_args_leaf — at a leaf, the attributes that modify_symbol's setattr loop leaves (last argument
   naming an attribute wins) are the specification's lookup (first match) in the REVERSED entries of the same
   attribute arguments;  C08_shift_is_sub — moving a dotted argument n.m.rest(ms) to component n by dropping
   the first name (tree.py:542) yields exactly the specification's sub-modifiers of n, and an argument for
   another component contributes none.  NOT proved: C08_refines for whole libraries; missing lemma
   build_leaf_list — the list that build delivers to each leaf through 440-561 (declaration, then extends
   clause, then enclosing components, each with its scope) is the reverse of the specification's entries
   sub_mods(...(flat_args ...)) for that leaf, and the per-scope application + renaming resolves every
   expression in the writing instance under the hypotheses excluding the recorded shapes (dotted attribute,
   scope clash, alias of alias, alias below a nested class). *)
Theorem C08_apply_args_leaf (env : option path) (a : ident) (l : list marg) (r : list (ident * expr)) :
  Forall simple_arg1 l -> apply_args l [] = Ok r ->
  get_attr a r = option_map entry_expr (attr_lookup a (rev (flat_args env l))).
Proof. exact (apply_args_leaf env a l r). Qed.
Print Assumptions C08_apply_args_leaf.

Theorem C08_shift_is_sub (env : option path) (sc : option path) (n m : ident) (rest : path) (ms : list mval) :
  shift_arg (MArg sc (n :: m :: rest) ms) = Ok (MArg sc (m :: rest) ms) /\
  sub_mods n (flat_arg env (MArg sc (n :: m :: rest) ms)) = flat_arg env (MArg sc (m :: rest) ms) /\
  (forall h t, Pos.eqb h n = false -> sub_mods n (flat_arg env (MArg sc (h :: t) ms)) = []).
Proof.
  split; [reflexivity|]. split; [exact (sub_mods_shift env sc n m rest ms)|].
  intros h t N. exact (sub_mods_other env sc n h t ms N).
Qed.
Print Assumptions C08_shift_is_sub.

(* C08_leaf_conversion — the conversion at an elementary symbol (tree.py:469-492: a value becomes the argument
   `value = e`, the arguments of a class modification are taken as they are) preserves what the specification
   looks up: for an argument aimed at component n, the specification's sub-modifiers of n and the entries of
   the converted arguments give the same expression for every attribute (scopes aside: that the inner
   arguments lose the scope is the recorded finding C08_scope_refuted). *)
Theorem C08_leaf_conversion (env sc : option path) (n : ident) (ms : list mval) (a : ident) :
  option_map entry_expr (attr_lookup a (sub_mods n (flat_arg env (MArg sc [n] ms)))) =
  option_map entry_expr (attr_lookup a (flat_args env (to_symbol_mods (MArg sc [n] ms)))).
Proof. exact (leaf_conversion env sc n ms a). Qed.
Print Assumptions C08_leaf_conversion.

(* C08_extends_clause_env — first step of the whole-library refinement with modifications: for a class whose
   extends clauses (with arbitrary modifiers) name extends-free classes, the modification environment after
   flatten_extends (tree.py:303-328) is the clause modifiers in clause order followed by the incoming
   environment (of the enclosing component or the deriving clause).  Since arguments are applied in list
   order (C08_outermost), the incoming — outer — source wins over the clause, and the clause over the
   base's own declarations, which is the order of the specification's `elems` (mods ++ clause entries,
   first match).  NOT proved: the lift to the attributes of the inherited leaves (build_leaf_list). *)
Theorem C08_extends_clause_env (root : list cdef) (f : nat) (c : cdef) (lex : path) (menv : list marg)
        (bases : list (cdef * path)) :
  Forall2 (simple_base_m root c lex) (c_exts c) bases -> c_kind c <> kBuiltin ->
  exists x, flatten_extends root (S (S f)) c lex menv = Ok x /\
            x_menv x = flat_map snd (c_exts c) ++ menv.
Proof. exact (flatten_extends_clause_env root f c lex menv bases). Qed.
Print Assumptions C08_extends_clause_env.

(* C08_extends_leaf_attributes_partial — build_leaf_list at the attribute level.  (1) One step of build_syms on an
   elementary symbol (tree.py:449-497) puts on the leaf the declaration's own arguments followed by the converted
   arguments of the environment that name it, in environment order — with C08_extends_clause_env the environment
   is  clause modifiers ++ incoming,  so the list is  decl ++ clause part ++ incoming part.  (2) For such a list
   (arguments in canonical spelling aimed at the leaf, each source naming an attribute at most once) setattr in
   list order leaves, for EVERY attribute, exactly what the specification looks up in
   sub_mods n (incoming ++ clause entries) ++ declaration entries:  the incoming (outer) environment wins over
   the extends clause, the clause over the base's declaration; the same statement with `clause := []` is the
   depth-1 component modification  B b(x(start = 1)).   MISSING for the whole-library C08_refines: that
   modify_symbol, which applies the scoped (incoming) arguments at the enclosing class's level and the others at
   the leaf's level, realises this list order across levels, and that the renaming done at each level resolves every
   expression in the instance that wrote it (false for the recorded scope finding, C08_scope_refuted). *)
Theorem C08_extends_leaf_attributes_partial :
  (forall root late rec ebi me myref s ss menv acc,
      mem_id (head_id (s_type s)) BUILTIN = true -> s_name s <> iValueSym ->
      build_syms root late rec ebi me myref (s :: ss) menv [] acc =
      build_syms root late rec ebi me myref ss (filter (fun a => negb (targets (s_name s) a)) menv) []
        (ISym (s_name s) (s_prefixes s) (s_dims s) (TyElem (s_type s))
              (s_mods s ++ flat_map to_symbol_mods (filter (targets (s_name s)) menv)) :: acc)) /\
  (forall env n a decl clause incoming r,
      Forall (fun m => m_target m = [n]) clause -> Forall (fun m => m_target m = [n]) incoming ->
      Forall simple_arg1 decl -> Forall simple_arg1 (flat_map to_symbol_mods clause) ->
      Forall simple_arg1 (flat_map to_symbol_mods incoming) ->
      uniq decl -> uniq (flat_map to_symbol_mods clause) -> uniq (flat_map to_symbol_mods incoming) ->
      apply_args (decl ++ flat_map to_symbol_mods clause ++ flat_map to_symbol_mods incoming) [] = Ok r ->
      get_attr a r =
      option_map entry_expr
        (attr_lookup a (sub_mods n (flat_args env incoming ++ flat_args env clause) ++ flat_args env decl))).
Proof. exact (conj build_syms_leaf_list extends_leaf_attributes). Qed.
Print Assumptions C08_extends_leaf_attributes_partial.

(* satisfiable and non-trivial: base declares x(start = 1, min = 0); the clause says x(start = 5); the enclosing
   component says x(start = 7) = 8: start = 7 (incoming over clause over declaration), min = 0, value = 8 *)
Example C08_extends_leaf_attributes_example :
  let decl := [MArg None [aStart] [MExpr (ENum 1)]; MArg None [aMin] [MExpr (ENum 0)]] in
  let clause := [MArg None [40%positive] [MClass [MArg None [aStart] [MExpr (ENum 5)]]]] in
  let incoming := [MArg (Some [41%positive]) [40%positive] [MClass [MArg None [aStart] [MExpr (ENum 7)]]; MExpr (ENum 8)]] in
  exists r, apply_args (decl ++ flat_map to_symbol_mods clause ++ flat_map to_symbol_mods incoming) [] = Ok r /\
    get_attr aStart r = Some (ENum 7) /\ get_attr aMin r = Some (ENum 0) /\ get_attr aValue r = Some (ENum 8) /\
    option_map entry_expr (attr_lookup aStart (sub_mods 40%positive (flat_args None incoming ++ flat_args None clause)
                                                ++ flat_args None decl)) = Some (ENum 7).
Proof. eexists. split; [vm_compute; reflexivity | repeat split; reflexivity]. Qed.
Print Assumptions C08_extends_leaf_attributes_example.

(* recorded defect: model C Real x; end C; model B C c; end B; model M B b(<m>); end M;
   <m> = c.x(start = 3) sets start;  <m> = c.x.start = 3 becomes the equation b.c.x = 3 and leaves start
   unset; both are accepted;  <m> = c(x(start = 3)) is rejected *)
Definition canon_lib : list cdef := [(CDef 40%positive 17%positive [] [] [(mkSym 41%positive [1%positive] [] [] [])] []); (CDef 42%positive 17%positive [] [] [(mkSym 43%positive [40%positive] [] [] [])] []); (CDef 44%positive 17%positive [] [] [(mkSym 45%positive [42%positive] [] [] [(MArg None [43%positive; 41%positive] [MClass [(MArg None [8%positive] [MExpr (ENum (3)%Z)])]])])] [])].
Definition dotted_lib : list cdef := [(CDef 40%positive 17%positive [] [] [(mkSym 41%positive [1%positive] [] [] [])] []); (CDef 42%positive 17%positive [] [] [(mkSym 43%positive [40%positive] [] [] [])] []); (CDef 44%positive 17%positive [] [] [(mkSym 45%positive [42%positive] [] [] [(MArg None [43%positive; 41%positive; 8%positive] [MExpr (ENum (3)%Z)])])] [])].
Definition nested_lib : list cdef := [(CDef 40%positive 17%positive [] [] [(mkSym 41%positive [1%positive] [] [] [])] []); (CDef 42%positive 17%positive [] [] [(mkSym 43%positive [40%positive] [] [] [])] []); (CDef 44%positive 17%positive [] [] [(mkSym 45%positive [42%positive] [] [] [(MArg None [43%positive] [MClass [(MArg None [41%positive] [MClass [(MArg None [8%positive] [MExpr (ENum (3)%Z)])]])]])])] [])].
Theorem C08_spelling_refuted :
  model_outcome canon_lib [44%positive] = OFlat [([45; 43; 41]%positive, [iReal], [], [], [(aStart, ENum 3)], 0%nat)] [] /\
  model_outcome dotted_lib [44%positive] = OFlat [([45; 43; 41]%positive, [iReal], [], [], [], 0%nat)]
                                                 [(ERef [45; 43; 41]%positive [], ENum 3)] /\
  model_outcome nested_lib [44%positive] = OErr IndexErr.
Proof. vm_compute. repeat split; reflexivity. Qed.
Print Assumptions C08_spelling_refuted.

(* recorded defect: model A parameter Real p = 5; Real x; end A;
   model M parameter Real p = 1; A a(x(start = p)); end M;  — the inner argument `start = p` has no scope
   although the argument it came from has one, and the flat model resolves p in A: a.x.start = a.p *)
Definition scope_lib : list cdef := [(CDef 40%positive 17%positive [] [] [(mkSym 41%positive [1%positive] [21%positive] [] [(MArg None [5%positive] [MExpr (ENum (5)%Z)])]); (mkSym 42%positive [1%positive] [] [] [])] []); (CDef 43%positive 17%positive [] [] [(mkSym 41%positive [1%positive] [21%positive] [] [(MArg None [5%positive] [MExpr (ENum (1)%Z)])]); (mkSym 44%positive [40%positive] [] [] [(MArg None [42%positive] [MClass [(MArg None [8%positive] [MExpr (ERef [41%positive] [])])]])])] [])].
Theorem C08_scope_refuted :
  (exists a inner sc, m_scope a = Some sc /\ In inner (to_symbol_mods a) /\ m_scope inner = None) /\
  exists syms eqs, model_outcome scope_lib [43%positive] = OFlat syms eqs /\
    In ([44; 42]%positive, [iReal], [], [], [(aStart, ERef [44; 41]%positive [])], 0%nat) syms.
Proof.
  split.
  - exists (MArg (Some [43%positive]) [42%positive] [MClass [MArg None [aStart] [MExpr (ERef [41%positive] [])]]]),
           (MArg None [aStart] [MExpr (ERef [41%positive] [])]), [43%positive].
    repeat split. left; reflexivity.
  - eexists _, _. split; [vm_compute; reflexivity|]. simpl; tauto.
Qed.
Print Assumptions C08_scope_refuted.

(* non-trivial instance with three competing levels:
   model A parameter Real k(min = 0) = 2; Real x(start = 1) = 2; end A;
   model B extends A(x(start = 5), k = 3); end B;
   model M B b1(k = 10); B b2(x(start = 7) = 8); end M;
   b1.k = 10 (component over extends clause over declaration), b1.x.start = 5 (extends clause over
   base), b2.x.start = 7, b2.k = 3, value equations b1.x = 2 and b2.x = 8 *)
Definition prec_lib : list cdef := [(CDef 40%positive 17%positive [] [] [(mkSym 41%positive [1%positive] [21%positive] [] [(MArg None [6%positive] [MExpr (ENum (0)%Z)]); (MArg None [5%positive] [MExpr (ENum (2)%Z)])]); (mkSym 42%positive [1%positive] [] [] [(MArg None [8%positive] [MExpr (ENum (1)%Z)]); (MArg None [5%positive] [MExpr (ENum (2)%Z)])])] []); (CDef 43%positive 17%positive [] [([40%positive], [(MArg None [42%positive] [MClass [(MArg None [8%positive] [MExpr (ENum (5)%Z)])]]); (MArg None [41%positive] [MExpr (ENum (3)%Z)])])] [] []); (CDef 44%positive 17%positive [] [] [(mkSym 45%positive [43%positive] [] [] [(MArg None [41%positive] [MExpr (ENum (10)%Z)])]); (mkSym 46%positive [43%positive] [] [] [(MArg None [42%positive] [MClass [(MArg None [8%positive] [MExpr (ENum (7)%Z)])]; MExpr (ENum (8)%Z)])])] [])].
Example C08_example :
  model_outcome prec_lib [44%positive] =
  OFlat [([45; 41]%positive, [iReal], [pParam], [], [(aValue, ENum 10); (aMin, ENum 0)], 0%nat);
         ([45; 42]%positive, [iReal], [], [], [(aStart, ENum 5)], 0%nat);
         ([46; 41]%positive, [iReal], [pParam], [], [(aValue, ENum 3); (aMin, ENum 0)], 0%nat);
         ([46; 42]%positive, [iReal], [], [], [(aStart, ENum 7)], 0%nat)]
        [(ERef [45; 42]%positive [], ENum 2); (ERef [46; 42]%positive [], ENum 8)].
Proof. vm_compute. reflexivity. Qed.
Print Assumptions C08_example.
