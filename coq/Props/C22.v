(* C22 — delay durations are validated and delay arguments preserved.
   Property theorems only; proofs live in Proofs/C22_delay.v.  All statements are over arbitrary models:
   any declarations, any number of equations / for-equations, any number of (nested) delay calls,
   arbitrary polynomial expression trees. "Depends on" = occurrence of the symbol after the
   construction-time folding `norm` (deps e = fsyms (norm e)). *)
From Coq Require Import ZArith List Bool Arith Lia.
From PV Require Import Model.C22_delay Proofs.C22_delay Model.C22_simplify Proofs.C22_simplify.
Import ListNotations.

(* Rejected exactly when some duration depends on time, a state, a derivative of a state, an algebraic
   variable or a non-fixed input (declared, or the delayed-state input of another delay call).
   No hypothesis at all: the disallowed list of _post_checks IS these categories. *)
Theorem C22_decision (m : model) :
  accepts m = false <->
  exists r s, In r (delays m) /\ In s (deps (dr_dur r)) /\ bad_sym m s.
Proof. exact (decision_main m). Qed.
Print Assumptions C22_decision.

(* Accepted exactly when every duration depends only on constants, parameters and fixed inputs — for
   well-formed inputs (distinct ids, durations mention declared names, der() only of states) and under the
   hypothesis that carves out the known findings loop-indexed-duration-*: no duration mentions the loop
   index or a loop-indexed variable.  Without the carving hypothesis the placeholders count as harmless
   (second conjunct), which is the defect. *)
Theorem C22_accept (m : model) :
  wf m ->
  (no_loop_dep m ->
   (accepts m = true <-> forall r s, In r (delays m) -> In s (deps (dr_dur r)) -> good_sym m s)) /\
  (accepts m = true <->
   forall r s, In r (delays m) -> In s (deps (dr_dur r)) -> good_sym m s \/ is_loop_sym s = true).
Proof. intro Hw. split; [exact (accept_carved m Hw) | exact (accept_main m Hw)]. Qed.
Print Assumptions C22_accept.

(* Semantic reading of acceptance: the value of every duration of an accepted model is the same under
   any two valuations that agree outside time / states / derivatives / algebraic variables / non-fixed
   inputs.  (norm preserves values; values depend only on occurring symbols.) *)
Theorem C22_accept_semantic (m : model) (r : drec) (en1 en2 : envd) (i : nat) :
  accepts m = true -> In r (delays m) ->
  (forall s, ~ bad_sym m s -> agree_on en1 en2 s) ->
  eval en1 i (dr_dur r) = eval en2 i (dr_dur r).
Proof. exact (accept_semantic m r en1 en2 i). Qed.
Print Assumptions C22_accept_semantic.

(* For a generated, accepted model whose outputs are closed (func_ok; see C22_arguments_refuted) the
   delay-argument function returns, per valuation, 2n outputs for n delay calls: output 2k is the k-th
   delayed expression, output 2k+1 its duration, in creation order.  Outside loops and for non-indexed
   loop delays the expression entry is the single value; for an indexed delay in `for i in lo:hi` it is
   the column of hi-lo+1 values, entry j = the expression at i = lo+j; the duration is one value. *)
Theorem C22_arguments (m : model) (pts : list envd) :
  gen_ok m = true -> accepts m = true -> func_ok m = true ->
  outcome m pts = OAcc (map (outputs m) pts) /\
  (forall en, length (outputs m en) = 2 * length (delays m)) /\
  (forall en k r, nth_error (delays m) k = Some r ->
     nth_error (outputs m en) (2 * k) = Some (expr_entry en r) /\
     nth_error (outputs m en) (2 * k + 1) = Some [eval en 0 (dr_dur r)] /\
     (indexed r = false -> expr_entry en r = [eval en 0 (dr_expr r)]) /\
     (forall lo hi, indexed r = true -> dr_loop r = Some (lo, hi) ->
        length (expr_entry en r) = S hi - lo /\
        forall j, j < S hi - lo -> nth_error (expr_entry en r) j = Some (eval en (lo + j) (dr_expr r)))).
Proof. exact (arguments_main m pts). Qed.
Print Assumptions C22_arguments.

(* Creation order = post-order: as many delayed-state inputs as delay calls in the equations, the k-th
   is base+k, and a delay call is numbered after everything created before it and after the calls
   nested in its two operands; its record is appended last. *)
Theorem C22_creation_order (m : model) :
  length (delays m) = fold_right (fun q n => nd_eqn q + n) 0 (m_eqs m) /\
  (forall k, k < length (delays m) -> nth_error (delay_states m) k = Some (m_base m + k)) /\
  (forall loop a d st,
     fst (tr (m_base m) loop (Delay a d) st) = Ref (SVar (m_base m + (length st + nd a + nd d))) /\
     exists new x y, snd (tr (m_base m) loop (Delay a d) st) = st ++ new ++ [mkD x y loop] /\
                     length new = nd a + nd d).
Proof. exact (creation_order m). Qed.
Print Assumptions C22_creation_order.

(* The full statement is false of the faithful model (known finding loop-indexed-duration-not-rejected):
   `for i in 2:3 loop hv[i] = uv[i]*p; yv[i] = delay(av[i]*p, av[i]); end for` — the duration depends on
   the algebraic variable av through av[i], and the model (like the code) accepts. *)
Definition refuting_model (dur : expr) : model :=
  mkModel [mkDecl 1 KPlain; mkDecl 2 KParam; mkDecl 3 (KInput false); mkDecl 4 KPlain; mkDecl 5 KPlain;
           mkDecl 6 KParam]
          [For 2 3 [(Ref (SLoop 5), Mul (Ref (SLoop 3)) (Ref (SVar 2)));
                    (Ref (SLoop 4), Delay (Mul (Ref (SLoop 1)) (Ref (SVar 2))) dur)]] 100.

Theorem C22_decision_refuted :
  exists m r v, In r (delays m) /\ In (SLoop v) (deps (dr_dur r)) /\ is_alg m v /\
                gen_ok m = true /\ accepts m = true.
Proof.
  exists (refuting_model (Ref (SLoop 1))),
         (mkD (Mul (Ref (SLoop 1)) (Ref (SVar 2))) (Ref (SLoop 1)) (Some (2, 3))), 1.
  split; [vm_compute; auto|]. split; [vm_compute; auto|]. split.
  - split; [exists (mkDecl 1 KPlain); vm_compute; auto|]. vm_compute. tauto.
  - split; vm_compute; reflexivity.
Qed.
Print Assumptions C22_decision_refuted.

(* ... and (known finding loop-indexed-duration-function-fails) a model whose only duration pv[i]
   depends on a parameter is accepted, but no delay-argument function is produced. *)
Theorem C22_arguments_refuted :
  exists m, (forall r s, In r (delays m) -> In s (deps (dr_dur r)) -> s = SLoop 6) /\
            declared m 6 KParam /\ gen_ok m = true /\ accepts m = true /\ func_ok m = false /\
            forall pts, outcome m pts = OFuncFail.
Proof.
  exists (refuting_model (Ref (SLoop 6))). split; [|split; [|split; [|split; [|split]]]].
  - assert (E : delays (refuting_model (Ref (SLoop 6))) =
                [mkD (Mul (Ref (SLoop 1)) (Ref (SVar 2))) (Ref (SLoop 6)) (Some (2, 3))])
      by (vm_compute; reflexivity).
    rewrite E. intros r s [<- | []] [<- | []]. reflexivity.
  - exists (mkDecl 6 KParam). vm_compute. auto 8.
  - vm_compute; reflexivity.
  - vm_compute; reflexivity.
  - vm_compute; reflexivity.
  - intro pts. unfold outcome.
    replace (gen_ok _) with true by (vm_compute; reflexivity).
    replace (accepts _) with true by (vm_compute; reflexivity).
    replace (func_ok _) with false by (vm_compute; reflexivity). reflexivity.
Qed.
Print Assumptions C22_arguments_refuted.

(* non-vacuity: every category, a nested delay, a delay of a delayed value, a folded-away dependency,
   an indexed and a non-indexed loop delay; well-formed, carved, generated, accepted, closed; and the
   same model with one duration changed to der(x) is rejected. *)
Definition example_model (d : expr) : model :=
  mkModel [mkDecl 1 KConst; mkDecl 2 KParam; mkDecl 3 (KInput true); mkDecl 4 (KInput false);
           mkDecl 5 KPlain (* x, state *); mkDecl 6 KPlain (* a *); mkDecl 7 KPlain (* av *);
           mkDecl 8 KParam (* pv *); mkDecl 9 KPlain; mkDecl 10 KPlain; mkDecl 11 KPlain; mkDecl 12 KPlain]
          [Eq (Ref (SDer 5)) (Sub (Ref (SVar 4)) (Ref (SVar 5)));
           Eq (Ref (SVar 9)) (Delay (Add (Delay (Ref (SVar 5)) (Ref (SVar 2))) (Ref (SVar 6)))
                                    (Add (Mul (Ref (SVar 2)) (Num 2)) (Mul (Ref (SVar 6)) (Num 0))));
           For 2 3 [(Ref (SLoop 11), Add (Ref (SVar 5)) (Ref STime));
                    (Ref (SLoop 10), Delay (Mul (Ref (SLoop 7)) (Add (Ref (SVar 5)) (Ref STime))) (Elem 8 2));
                    (Ref (SLoop 12), Delay (Ref (SVar 6)) d)]] 100.

Example C22_example :
  let m := example_model (Mul (Ref (SVar 3)) (Ref (SVar 1))) in
  let en := mkEnv 7 [(5, [2]%Z); (6, [3]%Z); (7, [1; 10; 100]%Z); (8, [4; 5; 6]%Z); (2, [11]%Z); (3, [2]%Z);
                     (1, [3]%Z); (100, [9]%Z); (101, [8]%Z); (102, [1; 1]%Z); (103, [0]%Z)] [] in
  wf m /\ no_loop_dep m /\ gen_ok m = true /\ accepts m = true /\ func_ok m = true /\
  length (delays m) = 4 /\
  outputs m en = [[2]; [11]; [12]; [22]; [90; 900]; [5]; [3]; [6]]%Z /\
  accepts (example_model (Ref (SDer 5))) = false.
Proof.
  set (m := example_model _). set (en := mkEnv _ _ _).
  assert (E : delays m =
    [mkD (Ref (SVar 5)) (Ref (SVar 2)) None;
     mkD (Add (Ref (SVar 100)) (Ref (SVar 6)))
         (Add (Mul (Ref (SVar 2)) (Num 2)) (Mul (Ref (SVar 6)) (Num 0))) None;
     mkD (Mul (Ref (SLoop 7)) (Add (Ref (SVar 5)) (Ref STime))) (Elem 8 2) (Some (2, 3));
     mkD (Ref (SVar 6)) (Mul (Ref (SVar 3)) (Ref (SVar 1))) (Some (2, 3))]) by (vm_compute; reflexivity).
  split; [|split; [|repeat split; vm_compute; reflexivity]].
  - split; [|split].
    + simpl. repeat constructor; simpl; intuition discriminate.
    + simpl. intros d H. repeat (destruct H as [<- | H]; [simpl; lia|]). destruct H.
    + rewrite E. intros r s Hr Hs.
      destruct Hr as [<- | [<- | [<- | [<- | []]]]]; vm_compute in Hs;
        repeat (destruct Hs as [<- | Hs]); try contradiction;
        simpl; left; eexists; eapply find_declared; vm_compute; reflexivity.
  - unfold no_loop_dep. rewrite E. intros r s Hr Hs.
    destruct Hr as [<- | [<- | [<- | [<- | []]]]]; vm_compute in Hs;
      repeat (destruct Hs as [<- | Hs]); try contradiction; reflexivity.
Qed.
Print Assumptions C22_example.

(* ================= simplification options: the delay arguments follow every substitution step ================= *)

(* For ANY list of steps (in particular any subset of the seven steps of _simplify_once, steps_of o) the delay
   arguments of the simplified model are the original ones with the steps' substitutions applied one after the
   other - equivalently with their composition as one substitution; loop tags untouched. *)
Theorem C22_delay_args_follow (fs : list step) (st : sst) :
  let ss := fst (run fs st) in
  st_args (snd (run fs st)) = map (rec_seq ss) (st_args st) /\
  (forall r, rec_seq ss r = mkD (app_seq ss (dr_expr r)) (app_seq ss (dr_dur r)) (dr_loop r)) /\
  (forall e, app_seq ss e = app_subst (compose_all ss) e).
Proof.
  cbv zeta. split; [apply run_args | split; [apply rec_seq_fields | apply app_seq_compose]].
Qed.
Print Assumptions C22_delay_args_follow.

(* ... and they keep their values: in every valuation in which the bindings of the applied substitutions hold
   (an eliminated variable equals its definition, a replaced constant / parameter its value) the k-th delayed
   expression and duration of the simplified model evaluate like the k-th original ones. *)
Theorem C22_delay_args_value (fs : list step) (st : sst) (en : envd) :
  (forall s, In s (fst (run fs st)) -> forall v x, lookup v s = Some x -> eval en 0 x = var_at en v 1) ->
  forall k r, nth_error (st_args st) k = Some r ->
  exists r', nth_error (st_args (snd (run fs st))) k = Some r' /\
             eval en 0 (dr_expr r') = eval en 0 (dr_expr r) /\
             eval en 0 (dr_dur r') = eval en 0 (dr_dur r) /\ dr_loop r' = dr_loop r.
Proof. exact (args_value fs st en). Qed.
Print Assumptions C22_delay_args_value.

(* accept / reject under options: rejected iff some ORIGINAL duration, after the composed substitution of the
   enabled steps, depends on time / a state / a derivative / an algebraic variable / a non-fixed input of the
   simplified model; accepted with a buildable function => every duration depends only on what is left of the
   constants, parameters and fixed inputs. *)
Theorem C22_simplify_decision (o : opts) (sm : smodel) :
  let ss := fst (run (steps_of o (sm_elim sm)) (init sm)) in
  (accept_s (final o sm) = false <->
   exists r0 s, In r0 (st_args (init sm)) /\
                In s (deps (app_subst (compose_all ss) (dr_dur r0))) /\ bad_s (final o sm) s) /\
  (accept_s (final o sm) = true -> closed_s (final o sm) = true ->
   forall r s, In r (st_args (final o sm)) -> In s (deps (dr_dur r)) -> good_s (final o sm) s).
Proof.
  cbv zeta. split; [exact (simplify_decision o sm) | exact (simplify_accept_closed (final o sm))].
Qed.
Print Assumptions C22_simplify_decision.

(* The merged / simultaneous flush (seeded change m6) is NOT equivalent: `w = x; _a = 2*w; y = delay(x, _a)`
   with eliminable_variable_expression + detect_aliases.  Sequentially the duration becomes 2*x (x a state):
   rejected.  Merged, it stays 2*w with w already eliminated: accepted, and no function can be built. *)
Definition m6_model : smodel :=
  mkSM (mkModel [mkDecl 1 KPlain; mkDecl 2 KPlain; mkDecl 3 KPlain; mkDecl 4 KPlain]
                [Eq (Ref (SDer 1)) (Neg (Ref (SVar 1)));
                 Eq (Ref (SVar 2)) (Ref (SVar 1));
                 Eq (Ref (SVar 3)) (Mul (Num 2) (Ref (SVar 2)));
                 Eq (Ref (SVar 4)) (Delay (Ref (SVar 1)) (Ref (SVar 3)))] 100) [] [3].
Definition m6_opts : opts := mkOpts false false false false false true true.

Theorem C22_delay_args_follow_refuted :
  let fs := steps_of m6_opts (sm_elim m6_model) in
  st_args (snd (run fs (init m6_model))) = [mkD (Ref (SVar 1)) (Mul (Num 2) (Ref (SVar 1))) None] /\
  accept_s (snd (run fs (init m6_model))) = false /\
  st_args (snd (run_merged fs (init m6_model))) = [mkD (Ref (SVar 1)) (Mul (Num 2) (Ref (SVar 2))) None] /\
  accept_s (snd (run_merged fs (init m6_model))) = true /\
  closed_s (snd (run_merged fs (init m6_model))) = false.
Proof. cbv zeta. repeat split; vm_compute; reflexivity. Qed.
Print Assumptions C22_delay_args_follow_refuted.

(* non-vacuity: constant c = 3, k = 2*c, parameter p = 5, q = c*p, fixed input uf, w = uf, _e = 2*w + p,
   z = 4; y1 = delay(5*x, q + k), y2 = delay(_e, _e + z) with all seven steps enabled: accepted, closed, the
   durations become 3*5 + 2*3 and (2*uf + 5) + 4, values as computed; without eliminate_constant_assignments
   z stays algebraic and the model is rejected. *)
Definition chain_example : smodel :=
  mkSM (mkModel [mkDecl 1 KConst; mkDecl 2 KConst; mkDecl 3 KParam; mkDecl 4 KParam; mkDecl 5 (KInput true);
                 mkDecl 6 KPlain; mkDecl 7 KPlain; mkDecl 8 KPlain; mkDecl 9 KPlain; mkDecl 10 KPlain; mkDecl 11 KPlain]
                [Eq (Ref (SDer 6)) (Neg (Ref (SVar 6)));
                 Eq (Ref (SVar 7)) (Ref (SVar 5));
                 Eq (Ref (SVar 8)) (Add (Mul (Num 2) (Ref (SVar 7))) (Ref (SVar 3)));
                 Eq (Ref (SVar 9)) (Num 4);
                 Eq (Ref (SVar 10)) (Delay (Mul (Num 5) (Ref (SVar 6))) (Add (Ref (SVar 4)) (Ref (SVar 2))));
                 Eq (Ref (SVar 11)) (Delay (Ref (SVar 8)) (Add (Ref (SVar 8)) (Ref (SVar 9))))] 100)
       [(1, Num 3); (2, Mul (Num 2) (Ref (SVar 1))); (3, Num 5); (4, Mul (Ref (SVar 1)) (Ref (SVar 3)))] [8].

Example C22_simplify_example :
  let o := mkOpts true true true true true true true in
  let st := final o chain_example in
  let en := mkEnv 0 [(6, [2]%Z); (5, [7]%Z)] [] in
  accept_s st = true /\ closed_s st = true /\
  map dr_dur (st_args st) =
    [Add (Mul (Num 3) (Num 5)) (Mul (Num 2) (Num 3));
     Add (Add (Mul (Num 2) (Ref (SVar 5))) (Num 5)) (Num 4)] /\
  outputs_s st en = [[10]; [21]; [19]; [23]]%Z /\
  accept_s (final (mkOpts true true false true true true true) chain_example) = false.
Proof. cbv zeta. repeat split; vm_compute; reflexivity. Qed.
Print Assumptions C22_simplify_example.
