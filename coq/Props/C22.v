(* C22 — delay durations are validated and delay arguments preserved.
   Property theorems only; proofs live in Proofs/C22_delay.v.  All statements are over arbitrary models:
   any declarations, any number of equations / for-equations, any number of (nested) delay calls,
   arbitrary polynomial expression trees. "Depends on" = occurrence of the symbol after the
   construction-time folding `norm` (deps e = fsyms (norm e)). *)
From Coq Require Import ZArith List Bool Arith Lia.
From PV Require Import Model.C22_delay Proofs.C22_delay.
Import ListNotations.

(* Rejected exactly when some duration depends on time, a state, a derivative of a state, an algebraic
   variable or a non-fixed input (declared, or the delayed-state input of another delay call).
   No hypothesis at all: the disallowed list of _post_checks IS these categories. *)
Theorem C22_decision (m : model) :
  accepts m = false <->
  exists r s, In r (delays m) /\ In s (deps (dr_dur r)) /\ bad_sym m s.
Proof. exact (decision_main m). Qed.
Print Assumptions C22_decision.

(* Accepted exactly when every duration depends only on constants, parameters and fixed inputs — for
   well-formed inputs (distinct ids, durations mention declared names, der() only of states) and under the
   hypothesis that carves out the known findings loop-indexed-duration-*: no duration mentions the loop
   index or a loop-indexed variable.  Without the carving hypothesis the placeholders count as harmless
   (second conjunct), which is the defect. *)
Theorem C22_accept (m : model) :
  wf m ->
  (no_loop_dep m ->
   (accepts m = true <-> forall r s, In r (delays m) -> In s (deps (dr_dur r)) -> good_sym m s)) /\
  (accepts m = true <->
   forall r s, In r (delays m) -> In s (deps (dr_dur r)) -> good_sym m s \/ is_loop_sym s = true).
Proof. intro Hw. split; [exact (accept_carved m Hw) | exact (accept_main m Hw)]. Qed.
Print Assumptions C22_accept.

(* Semantic reading of acceptance: the value of every duration of an accepted model is the same under
   any two valuations that agree outside time / states / derivatives / algebraic variables / non-fixed
   inputs.  (norm preserves values; values depend only on occurring symbols.) *)
Theorem C22_accept_semantic (m : model) (r : drec) (en1 en2 : envd) (i : nat) :
  accepts m = true -> In r (delays m) ->
  (forall s, ~ bad_sym m s -> agree_on en1 en2 s) ->
  eval en1 i (dr_dur r) = eval en2 i (dr_dur r).
Proof. exact (accept_semantic m r en1 en2 i). Qed.
Print Assumptions C22_accept_semantic.

(* For a generated, accepted model whose outputs are closed (func_ok; see C22_arguments_refuted) the
   delay-argument function returns, per valuation, 2n outputs for n delay calls: output 2k is the k-th
   delayed expression, output 2k+1 its duration, in creation order.  Outside loops and for non-indexed
   loop delays the expression entry is the single value; for an indexed delay in `for i in lo:hi` it is
   the column of hi-lo+1 values, entry j = the expression at i = lo+j; the duration is one value. *)
Theorem C22_arguments (m : model) (pts : list envd) :
  gen_ok m = true -> accepts m = true -> func_ok m = true ->
  outcome m pts = OAcc (map (outputs m) pts) /\
  (forall en, length (outputs m en) = 2 * length (delays m)) /\
  (forall en k r, nth_error (delays m) k = Some r ->
     nth_error (outputs m en) (2 * k) = Some (expr_entry en r) /\
     nth_error (outputs m en) (2 * k + 1) = Some [eval en 0 (dr_dur r)] /\
     (indexed r = false -> expr_entry en r = [eval en 0 (dr_expr r)]) /\
     (forall lo hi, indexed r = true -> dr_loop r = Some (lo, hi) ->
        length (expr_entry en r) = S hi - lo /\
        forall j, j < S hi - lo -> nth_error (expr_entry en r) j = Some (eval en (lo + j) (dr_expr r)))).
Proof. exact (arguments_main m pts). Qed.
Print Assumptions C22_arguments.

(* Creation order = post-order: as many delayed-state inputs as delay calls in the equations, the k-th
   is base+k, and a delay call is numbered after everything created before it and after the calls
   nested in its two operands; its record is appended last. *)
Theorem C22_creation_order (m : model) :
  length (delays m) = fold_right (fun q n => nd_eqn q + n) 0 (m_eqs m) /\
  (forall k, k < length (delays m) -> nth_error (delay_states m) k = Some (m_base m + k)) /\
  (forall loop a d st,
     fst (tr (m_base m) loop (Delay a d) st) = Ref (SVar (m_base m + (length st + nd a + nd d))) /\
     exists new x y, snd (tr (m_base m) loop (Delay a d) st) = st ++ new ++ [mkD x y loop] /\
                     length new = nd a + nd d).
Proof. exact (creation_order m). Qed.
Print Assumptions C22_creation_order.

(* The full statement is false of the faithful model (known finding loop-indexed-duration-not-rejected):
   `for i in 2:3 loop hv[i] = uv[i]*p; yv[i] = delay(av[i]*p, av[i]); end for` — the duration depends on
   the algebraic variable av through av[i], and the model (like the code) accepts. *)
Definition refuting_model (dur : expr) : model :=
  mkModel [mkDecl 1 KPlain; mkDecl 2 KParam; mkDecl 3 (KInput false); mkDecl 4 KPlain; mkDecl 5 KPlain;
           mkDecl 6 KParam]
          [For 2 3 [(Ref (SLoop 5), Mul (Ref (SLoop 3)) (Ref (SVar 2)));
                    (Ref (SLoop 4), Delay (Mul (Ref (SLoop 1)) (Ref (SVar 2))) dur)]] 100.

Theorem C22_decision_refuted :
  exists m r v, In r (delays m) /\ In (SLoop v) (deps (dr_dur r)) /\ is_alg m v /\
                gen_ok m = true /\ accepts m = true.
Proof.
  exists (refuting_model (Ref (SLoop 1))),
         (mkD (Mul (Ref (SLoop 1)) (Ref (SVar 2))) (Ref (SLoop 1)) (Some (2, 3))), 1.
  split; [vm_compute; auto|]. split; [vm_compute; auto|]. split.
  - split; [exists (mkDecl 1 KPlain); vm_compute; auto|]. vm_compute. tauto.
  - split; vm_compute; reflexivity.
Qed.
Print Assumptions C22_decision_refuted.

(* ... and (known finding loop-indexed-duration-function-fails) a model whose only duration pv[i]
   depends on a parameter is accepted, but no delay-argument function is produced. *)
Theorem C22_arguments_refuted :
  exists m, (forall r s, In r (delays m) -> In s (deps (dr_dur r)) -> s = SLoop 6) /\
            declared m 6 KParam /\ gen_ok m = true /\ accepts m = true /\ func_ok m = false /\
            forall pts, outcome m pts = OFuncFail.
Proof.
  exists (refuting_model (Ref (SLoop 6))). split; [|split; [|split; [|split; [|split]]]].
  - assert (E : delays (refuting_model (Ref (SLoop 6))) =
                [mkD (Mul (Ref (SLoop 1)) (Ref (SVar 2))) (Ref (SLoop 6)) (Some (2, 3))])
      by (vm_compute; reflexivity).
    rewrite E. intros r s [<- | []] [<- | []]. reflexivity.
  - exists (mkDecl 6 KParam). vm_compute. auto 8.
  - vm_compute; reflexivity.
  - vm_compute; reflexivity.
  - vm_compute; reflexivity.
  - intro pts. unfold outcome.
    replace (gen_ok _) with true by (vm_compute; reflexivity).
    replace (accepts _) with true by (vm_compute; reflexivity).
    replace (func_ok _) with false by (vm_compute; reflexivity). reflexivity.
Qed.
Print Assumptions C22_arguments_refuted.

(* non-vacuity: every category, a nested delay, a delay of a delayed value, a folded-away dependency,
   an indexed and a non-indexed loop delay; well-formed, carved, generated, accepted, closed; and the
   same model with one duration changed to der(x) is rejected. *)
Definition example_model (d : expr) : model :=
  mkModel [mkDecl 1 KConst; mkDecl 2 KParam; mkDecl 3 (KInput true); mkDecl 4 (KInput false);
           mkDecl 5 KPlain (* x, state *); mkDecl 6 KPlain (* a *); mkDecl 7 KPlain (* av *);
           mkDecl 8 KParam (* pv *); mkDecl 9 KPlain; mkDecl 10 KPlain; mkDecl 11 KPlain; mkDecl 12 KPlain]
          [Eq (Ref (SDer 5)) (Sub (Ref (SVar 4)) (Ref (SVar 5)));
           Eq (Ref (SVar 9)) (Delay (Add (Delay (Ref (SVar 5)) (Ref (SVar 2))) (Ref (SVar 6)))
                                    (Add (Mul (Ref (SVar 2)) (Num 2)) (Mul (Ref (SVar 6)) (Num 0))));
           For 2 3 [(Ref (SLoop 11), Add (Ref (SVar 5)) (Ref STime));
                    (Ref (SLoop 10), Delay (Mul (Ref (SLoop 7)) (Add (Ref (SVar 5)) (Ref STime))) (Elem 8 2));
                    (Ref (SLoop 12), Delay (Ref (SVar 6)) d)]] 100.

Example C22_example :
  let m := example_model (Mul (Ref (SVar 3)) (Ref (SVar 1))) in
  let en := mkEnv 7 [(5, [2]%Z); (6, [3]%Z); (7, [1; 10; 100]%Z); (8, [4; 5; 6]%Z); (2, [11]%Z); (3, [2]%Z);
                     (1, [3]%Z); (100, [9]%Z); (101, [8]%Z); (102, [1; 1]%Z); (103, [0]%Z)] [] in
  wf m /\ no_loop_dep m /\ gen_ok m = true /\ accepts m = true /\ func_ok m = true /\
  length (delays m) = 4 /\
  outputs m en = [[2]; [11]; [12]; [22]; [90; 900]; [5]; [3]; [6]]%Z /\
  accepts (example_model (Ref (SDer 5))) = false.
Proof.
  set (m := example_model _). set (en := mkEnv _ _ _).
  assert (E : delays m =
    [mkD (Ref (SVar 5)) (Ref (SVar 2)) None;
     mkD (Add (Ref (SVar 100)) (Ref (SVar 6)))
         (Add (Mul (Ref (SVar 2)) (Num 2)) (Mul (Ref (SVar 6)) (Num 0))) None;
     mkD (Mul (Ref (SLoop 7)) (Add (Ref (SVar 5)) (Ref STime))) (Elem 8 2) (Some (2, 3));
     mkD (Ref (SVar 6)) (Mul (Ref (SVar 3)) (Ref (SVar 1))) (Some (2, 3))]) by (vm_compute; reflexivity).
  split; [|split; [|repeat split; vm_compute; reflexivity]].
  - split; [|split].
    + simpl. repeat constructor; simpl; intuition discriminate.
    + simpl. intros d H. repeat (destruct H as [<- | H]; [simpl; lia|]). destruct H.
    + rewrite E. intros r s Hr Hs.
      destruct Hr as [<- | [<- | [<- | [<- | []]]]]; vm_compute in Hs;
        repeat (destruct Hs as [<- | Hs]); try contradiction;
        simpl; left; eexists; eapply find_declared; vm_compute; reflexivity.
  - unfold no_loop_dep. rewrite E. intros r s Hr Hs.
    destruct Hr as [<- | [<- | [<- | [<- | []]]]]; vm_compute in Hs;
      repeat (destruct Hs as [<- | Hs]); try contradiction; reflexivity.
Qed.
Print Assumptions C22_example.
