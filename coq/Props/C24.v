(* C24 — SymPy backend emits code with the flat model's meaning.
   Property theorems only; proofs live in Proofs/C24_sympy.v, the model in Model/C24_sympy.v. *)
From Coq Require Import List String Ascii Bool Arith QArith Qcanon.
From PV Require Import Model.C24_sympy Proofs.C24_sympy.
Import ListNotations.
Close Scope Q_scope.
Close Scope Qc_scope.
Open Scope nat_scope.
Open Scope list_scope.

(* MEANING.  For every list of reserved names B that does not contain "time", every flat equation
   l = r over + - * / ^, unary signs, der, calls, numbers, references and time, every Python
   environment E (values of identifiers, of their derivatives, of self.t), every interpretation
   of ^ and of the called functions, and every fuel n >= need_eq l r (linear in the size):
   (1) the emitted line print_eq (the format strings of generator.py, character level) is
       exactly the spelling of the token list print_tok_eq;
   (2) reading those tokens with Python's grammar/precedence gives the Python expression
       (embed l) - (embed r) -- nothing is re-associated or captured by a neighbouring operator;
   (3) its value under E is lhs - rhs of the flat equation under the Modelica environment that
       E induces through the name mangling (flat name n has the value of identifier sym_name n);
       values are dual numbers (value, time derivative), so der(e) of an ARBITRARY expression e
       (der(m*v), der(x/y), ...) means the derivative by the sum/product/quotient rules on both
       sides and the printed (e).diff(self.t) must apply to the whole of e.
   The hypothesis "no component called time is declared" is the [false] passed to [pull]:
   see C24_time_refuted.  Not covered: the step from characters to tokens (Python's tokenizer). *)
Theorem C24_meaning
  (powf : dual -> dual -> option dual) (callf : str -> list dual -> option dual)
  (B : list str) (E : penv) (l r : expr) (n : nat) :
  mem TIME B = false -> need_eq l r <= n ->
  render (print_tok_eq B l r) = print_eq B l r /\
  py_parse n (print_tok_eq B l r) = Some (PBin Sub (embed B l) (embed B r)) /\
  option_map fst (obind (py_parse n (print_tok_eq B l r)) (peval powf callf E))
  = m_eval_eq powf callf (pull B E false) l r.
Proof.
  intros HB Hn. split; [apply render_print_eq|]. split; [now apply py_parse_eq|].
  now apply meaning_eq.
Qed.
Print Assumptions C24_meaning.

(* the same for a single expression (operator precedence respected at every nesting depth) *)
Theorem C24_meaning_expr
  (powf : dual -> dual -> option dual) (callf : str -> list dual -> option dual)
  (B : list str) (E : penv) (e : expr) (n : nat) :
  mem TIME B = false -> need e + 1 <= n ->
  render (print_tok B e) = print B e /\
  obind (py_parse n (print_tok B e)) (peval powf callf E) = m_eval powf callf (pull B E false) e.
Proof. intros HB Hn. split; [apply render_print|now apply meaning_expr]. Qed.
Print Assumptions C24_meaning_expr.

(* LISTS.  Membership in the six emitted lists is exactly the flat classification by prefixes;
   v = the prefix-less symbols plus the outputs that are not states. *)
Theorem C24_lists (syms : list symb) (s : symb) :
  let L := classify syms in
  (In s (l_x L) <-> In s syms /\ In (s_ "state") (snd s)) /\
  (In s (l_u L) <-> In s syms /\ In (s_ "input") (snd s)) /\
  (In s (l_y L) <-> In s syms /\ In (s_ "output") (snd s)) /\
  (In s (l_c L) <-> In s syms /\ In (s_ "constant") (snd s)) /\
  (In s (l_p L) <-> In s syms /\ In (s_ "parameter") (snd s)) /\
  (In s (l_v L) <-> In s syms /\
     (snd s = [] \/ (In (s_ "output") (snd s) /\ in_names s (l_x L) = false))).
Proof. exact (lists_spec syms s). Qed.
Print Assumptions C24_lists.

(* DISTINCT SYMBOLS.  Two flat names get different Python identifiers provided neither contains
   an underscore immediately followed by an underscore or a dot ([cleanb]) and neither is, after
   the dot replacement, a reserved name followed by one or more underscores ([no_shadow]).
   Without these carve-outs the statement is false of the code: C24_injective_refuted. *)
Theorem C24_injective (B : list str) (a b : str) :
  cleanb a = true -> cleanb b = true ->
  no_shadow B (repl a) -> no_shadow B (repl b) ->
  sym_name B a = sym_name B b -> a = b.
Proof. exact (sym_name_inj B a b). Qed.
Print Assumptions C24_injective.

(* the first carve-out is tight: every name that is not clean collides with another name *)
Theorem C24_unclean_collides (n : str) :
  cleanb n = false -> exists m, m <> n /\ repl m = repl n.
Proof. exact (unclean_collides n). Qed.
Print Assumptions C24_unclean_collides.

(* known, unrepaired defects of the mangling (findings/known.d/C24.json), with the reserved
   names as evaluated by the implementation *)
Theorem C24_injective_refuted :
  (s_ "a.b" <> s_ "a__b" /\ sym_name BUILTINS0 (s_ "a.b") = sym_name BUILTINS0 (s_ "a__b")) /\
  (s_ "x_.y" <> s_ "x._y" /\ sym_name BUILTINS0 (s_ "x_.y") = sym_name BUILTINS0 (s_ "x._y")) /\
  (s_ "copy" <> s_ "copy_" /\ sym_name BUILTINS0 (s_ "copy") = sym_name BUILTINS0 (s_ "copy_")).
Proof. repeat split; try discriminate; vm_compute; reflexivity. Qed.
Print Assumptions C24_injective_refuted.

(* a model that declares a component called "time": references to it are emitted as self.t *)
Theorem C24_time_refuted :
  exists E : penv,
    peval (fun _ _ => None) (fun _ _ => None) E (embed BUILTINS0 (EVar TIME))
    <> m_eval (fun _ _ => None) (fun _ _ => None) (pull BUILTINS0 E true) (EVar TIME).
Proof.
  exists (PEnv (fun _ => 0%Qc) (fun _ => 0%Qc) 1%Qc). vm_compute. intros H. discriminate H.
Qed.
Print Assumptions C24_time_refuted.

(* non-vacuity: a concrete equation, its emitted line, and the value the reader gives it.
   der(m * v) = (x + a.b) * -(k) ^ 2  at m=v=3, x=3, a.b=1/2, k=2, all derivatives 5:
   (5*3 + 3*5) - (7/2 * -4) = 44 *)
Example C24_example :
  let l := EDer (EBin Mul (EVar (s_ "m")) (EVar (s_ "v"))) in
  let r := EBin Mul (EBin Add (EVar (s_ "x")) (EVar (s_ "a.b")))
                    (EUn true (EBin Pow (EVar (s_ "k")) (ENum (s_ "2") (Q2Qc 2)))) in
  let E := PEnv (fun s => if str_eqb s (s_ "k") then Q2Qc 2
                          else if str_eqb s (s_ "a__b") then Q2Qc (1 # 2) else Q2Qc 3)
                (fun _ => Q2Qc 5) (Q2Qc 0) in
  let powf := fun a b : dual => if Qc_eq_dec (fst b) (Q2Qc 2)
                                then Some (fst a * fst a, Q2Qc 2 * fst a * snd a)%Qc else None in
  let ev := fun ts => option_map (fun d : dual => this (fst d))
                        (obind (py_parse 200 ts) (peval powf (fun _ _ => None) E)) in
  mem TIME BUILTINS0 = false /\
  print_eq BUILTINS0 l r = s_ "sympy.sympify((m) * (v)).diff(self.t) - (((x) + (a__b)) * (- ((k) ** (2))))" /\
  Nat.leb (need_eq l r) 200 = true /\
  ev (print_tok_eq BUILTINS0 l r) = Some (44 # 1)%Q /\
  (* der() of a literal-only expression is 0 (the argument is sympified before .diff) *)
  ev (print_tok BUILTINS0 (EDer (EBin Mul (ENum (s_ "2") (Q2Qc 2)) (ENum (s_ "0.5") (Q2Qc (1 # 2))))))
  = Some (0 # 1)%Q /\
  (* without a delimiter around the der() argument the trailer binds to the last operand only:
     (m) * (v).diff(self.t) is m * v' = 15, not (m*v)' = 30 *)
  ev [TLp; TName (s_ "m"); TRp; TSp; TOp Mul; TSp; TLp; TName (s_ "v"); TRp; TDiff] = Some (15 # 1)%Q /\
  ev (print_tok BUILTINS0 l) = Some (30 # 1)%Q /\
  (* the unparenthesised form of the unrepaired printer reads as something else *)
  py_parse 40 [TName (s_ "x"); TSp; TOp Add; TSp; TName (s_ "y"); TSp; TOp Mul; TSp; TName (s_ "k")]
  = Some (PBin Add (PName (s_ "x")) (PBin Mul (PName (s_ "y")) (PName (s_ "k")))).
Proof. vm_compute. repeat split; reflexivity. Qed.
Print Assumptions C24_example.
