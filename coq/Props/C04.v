(* C04 — parsed class structure reflects the source declarations.  Property theorems only; proofs in
   Proofs/C04_listener.v.  `do_element v path (ECls …) st` is the executable model of the ASTListener walking one
   class definition (any listener state `st`, so the statements hold for top-level and nested classes alike);
   `v` selects the code as it is (`head_variant`) or with the repairs fixes/C04_*.diff.
   Declarative reading of the class text:
     class_syms v secs  one symbol per declarator of every component clause, in source order: name, type,
                        keyword list, dimensions (spec_dims), effective visibility of its section (eff_vis),
                        comment, class modification followed by the declaration value as one `value` argument
                        (spec_cm); order numbers and object identities erased (erase_sym);
     class_exts, fold_imp (imports_els …), cnames_els, sel init secs  likewise for extends / imports / nested
                        classes / equations and statements of the (non-)initial sections. *)
From Coq Require Import String List Bool Arith.
From PV Require Import Model.C04_listener Proofs.C04_listener.
Import ListNotations.
Open Scope string_scope.

(* every declared component exactly once, in source order, with name, type, prefixes, dimensions, visibility,
   comment and modifications as declared; component names are pairwise distinct.  Unbounded: any number of
   sections, clauses, declarators, nested classes. *)
Theorem C04_symbols v path ct n cm secs eqs algs st r cls st' :
  do_element v path (ECls ct n cm secs eqs algs) st = Ok ((r, cls), st') ->
  exists own nested, cls = own :: nested
    /\ map erase_sym (o_syms own) = class_syms v secs
    /\ map s_name (o_syms own) = names_els (all_els secs)
    /\ NoDup (map s_name (o_syms own)).
Proof.
  intros H. destruct st as [k l], st' as [k' l']. pose proof (class_ok _ _ _ _ _ _ _ _ _ _ _ _ _ _ H) as C.
  destruct C as (own & nested & E & _ & _ & _ & Hs & _). subst cls.
  exists own, nested. destruct (class_names_nodup _ _ _ _ _ _ _ _ _ _ _ _ _ H) as [A B]. auto.
Qed.
Print Assumptions C04_symbols.

(* equations and statements in source order, each in its initial or non-initial list; extends clauses, imports and
   nested classes attached to the class that declares them (and not to the enclosing class, whose symbol table and
   imports are untouched) *)
Theorem C04_sections v path ct n cm secs eqs algs k l r cls k' l' :
  do_element v path (ECls ct n cm secs eqs algs) (k, l) = Ok ((r, cls), (k', l')) ->
  exists own nested, cls = own :: nested
    /\ o_path own = (path ++ [n])%list /\ o_ctype own = ct /\ o_comment own = cm
    /\ o_eqs own = sel false eqs /\ o_ieqs own = sel true eqs
    /\ o_sts own = sel false algs /\ o_ists own = sel true algs
    /\ o_exts own = class_exts v secs
    /\ fold_imp v (imports_els (all_els secs)) [] = Ok (o_imports own)
    /\ o_classes own = cnames_els (all_els secs)
    /\ k_classes k' = (k_classes k ++ [n])%list /\ k_seen k' = k_seen k /\ k_imports k' = k_imports k.
Proof.
  intros H. apply class_ok in H.
  destruct H as (own & nested & E & A1 & A2 & A3 & _ & A4 & A5 & A6 & A7 & A8 & A9 & A10 & _ & B1 & B2 & B3).
  exists own, nested. repeat split; assumption.
Qed.
Print Assumptions C04_sections.

(* a component declared twice in one class: the class text is rejected, whatever the listener state *)
Theorem C04_duplicate v path ct n cm secs eqs algs st :
  ~ NoDup (names_els (all_els secs)) -> exists e, do_element v path (ECls ct n cm secs eqs algs) st = Err e.
Proof. exact (class_duplicate v path ct n cm secs eqs algs st). Qed.
Print Assumptions C04_duplicate.

(* declaration order, PARTIAL: the declarators of one clause get consecutive order numbers starting at the
   listener's counter, which advances by their number (and the clause's symbols are the declared ones).
   Not proved: that the counter never decreases across extends clauses and nested classes, i.e. that the order
   numbers of a whole class increase strictly in source order (tied by the correspondence and judged by the
   oracle on every generated class). *)
Theorem C04_order_partial v cl seen l ss seen' l' :
  do_clause v cl (seen, l) = Ok (ss, (seen', l')) ->
  map erase_sym ss = map (spec_sym v Private cl) (c_decls cl)
  /\ map s_order ss = seq (l_count l) (length (c_decls cl))
  /\ l_count l' = l_count l + length (c_decls cl).
Proof. intros H. apply do_clause_ok in H. tauto. Qed.
Print Assumptions C04_order_partial.

(* no sharing, PARTIAL: exitComponent_clause ends with the per-declarator copies (tail_copy), after which the
   prefixes / dimensions / type objects of the clause's symbols are pairwise distinct, provided the first symbol's
   objects were allocated before the copies.  Not proved: that proviso for every reachable listener state, and
   distinctness across clauses (both tied by the correspondence on id() patterns and judged by the oracle). *)
Theorem C04_no_sharing_partial v cl D0 ss n :
  exists ss2 n2, fst (close_clause v cl D0 ss n) = fst (tail_copy ss2 n2) /\ length ss2 = length ss
  /\ forall s0 tl, ss2 = s0 :: tl -> s_pid s0 < n2 -> s_did s0 < n2 -> s_tid s0 < n2 ->
       NoDup (map s_pid (fst (tail_copy ss2 n2))) /\ NoDup (map s_did (fst (tail_copy ss2 n2)))
       /\ NoDup (map s_tid (fst (tail_copy ss2 n2))).
Proof.
  destruct (close_clause_tail v cl D0 ss n) as (ss2 & n2 & A & B). exists ss2, n2. repeat split; try assumption;
    subst ss2; destruct (tail_copy_no_sharing s0 tl n2) as (X & Y & Z); assumption.
Qed.
Print Assumptions C04_no_sharing_partial.

(* the ideal reading: with the repairs — or on texts that repeat no section label / do not combine clause and
   declarator subscripts — the effective visibility is the label of the declaring section, the dimensions are the
   declarator's subscripts followed by the clause's, and the modification is the class modification followed by
   the declaration value *)
Theorem C04_ideal v :
  (forall (secs : list (label * list element)), v_allsec v = true \/ labels_once secs = true ->
     eff_vis v secs = map (fun s => vis_of_label (fst s)) secs)
  /\ (forall cl d, v_dimsmerge v = true \/ c_dims cl = None \/ d_dims d = None -> spec_dims v cl d = ideal_dims cl d)
  /\ (forall m, decl_cm m = spec_cm m).
Proof. split; [|split]; [intros; now apply eff_vis_ideal|intros; now apply spec_dims_ideal|exact decl_cm_spec]. Qed.
Print Assumptions C04_ideal.

(* recorded defects of the unrepaired code (findings/known.d/C04.json):
   `model M public Real a; protected Real b; public Real c; end M;` -> a is PRIVATE *)
Theorem C04_visibility_refuted :
  vis_of_first (run_file head_variant [vis_witness]) = [("a", Private); ("b", Protected); ("c", Public)]
  /\ vis_of_first (run_file repaired_variant [vis_witness]) = [("a", Public); ("b", Protected); ("c", Public)].
Proof. exact vis_refuted. Qed.
Print Assumptions C04_visibility_refuted.

(* `model M Real[2] x[3]; end M;` -> dimensions [[2]], the declarator's 3 is lost *)
Theorem C04_dimensions_refuted :
  dims_of_first (run_file head_variant [dims_witness]) = [[["2"]]]
  /\ dims_of_first (run_file repaired_variant [dims_witness]) = [[["3"; "2"]]].
Proof. exact dims_refuted. Qed.
Print Assumptions C04_dimensions_refuted.

(* non-vacuity: a class with two prefixes, clause and declarator dimensions, a modification with a declaration
   value, three sections, an extends clause with a modification, an import, a nested class, initial and non-initial
   sections is accepted; orders 0 1 3 5 (the extends modification and the nested class's symbol take 2 and 4) *)
Example C04_example :
  exists own nested st',
    do_element head_variant [] example_class (mkK [] [] [], mkL 0 false 0) = Ok ((ROther, own :: nested), st')
    /\ map s_name (o_syms own) = ["a"; "b"; "i"; "p"]
    /\ map s_order (o_syms own) = [0; 1; 3; 5]
    /\ map s_vis (o_syms own) = [Private; Private; Public; Protected]
    /\ map s_prefixes (o_syms own) = [["parameter"; "input"]; ["parameter"; "input"]; []; []]
    /\ o_eqs own = ["(= a b)"; "(= i 2)"] /\ o_ieqs own = ["(= a 1)"]
    /\ NoDup (map s_pid (o_syms own)) /\ NoDup (map s_did (o_syms own)) /\ NoDup (map s_tid (o_syms own))
    /\ length nested = 1 /\ labels_once [(Unl, tt); (Pub, tt); (Pro, tt)] = true.
Proof. exact example_ok. Qed.
Print Assumptions C04_example.
