(* C04 — parsed class structure reflects the source declarations.  Property theorems only; proofs in
   Proofs/C04_listener.v (one class) and Proofs/C04_walk.v (whole walk).
   `do_element v path (ECls …) st` is the executable model of the ASTListener walking one class definition (any
   listener state `st`: top-level and nested classes alike); `run_file_full v cs` walks a file and also returns the
   final listener state, whose ghost component `l_trace` lists (order, object ids) of the symbols in creation order
   = source order.  `head_variant` is /repo HEAD; `prefix_variant` is the code before the three repairs this check
   led to (7cea29a, 480cfc0, e08c00c), kept for the `_refuted` witnesses.
   Ideal reading of a class text (nothing in it depends on the listener):
     ideal_syms secs   one symbol per declarator of every component clause, in source order: name, type, keyword
                       list, dimensions = declarator subscripts followed by clause subscripts (ideal_dims),
                       visibility = label of the declaring section, comment, class modification followed by the
                       declaration value as one `value` argument (spec_cm); order and object ids erased;
     ideal_exts, fold_imp (imports_els …), cnames_els, sel init secs   likewise extends / imports / nested classes /
                       equations and statements of the (non-)initial sections.
   `modelled e = true`: no element redeclaration inside the modification of a component (declared, or itself
   redeclared inside an extends clause).  On such texts /repo HEAD corrupts the listener state (known finding
   redeclare-in-component-modification, repair fixes/C04_redeclare_in_component_modification.diff) and the model
   does not mirror it; the hypothesis is not used by the proofs, it delimits where the model is tied to the code.
   Redeclarations directly in an extends argument list ARE modelled: they produce no symbol of the class. *)
From Coq Require Import String List Bool Arith Sorting.Sorted Sorting.Permutation.
From PV Require Import Model.C04_listener Proofs.C04_listener Proofs.C04_walk.
Import ListNotations.
Open Scope string_scope.

(* MAIN: every declared component exactly once, in source order, with name, type, prefixes, dimensions, visibility,
   comment and modifications as declared; names pairwise distinct.  Unbounded: any number of sections, clauses,
   declarators, nested classes; any listener state. *)
Theorem C04_symbols path ct n cm secs eqs algs st r cls st' :
  modelled (ECls ct n cm secs eqs algs) = true ->
  do_element head_variant path (ECls ct n cm secs eqs algs) st = Ok ((r, cls), st') ->
  exists own nested, cls = own :: nested
    /\ map erase_sym (o_syms own) = ideal_syms secs
    /\ map s_name (o_syms own) = names_els (all_els secs)
    /\ NoDup (map s_name (o_syms own)).
Proof.
  intros _ H. destruct st as [k l], st' as [k' l']. pose proof (class_ok _ _ _ _ _ _ _ _ _ _ _ _ _ _ H) as C.
  destruct C as (own & nested & E & _ & _ & _ & Hs & _). subst cls.
  exists own, nested. destruct (class_names_nodup _ _ _ _ _ _ _ _ _ _ _ _ _ H) as [A B].
  rewrite class_syms_head in Hs. auto.
Qed.
Print Assumptions C04_symbols.

(* equations and statements in source order, each in its initial or non-initial list; extends clauses (with the
   visibility of their section), imports and nested classes attached to the class that declares them — the
   enclosing class gains the class name only *)
Theorem C04_sections path ct n cm secs eqs algs k l r cls k' l' :
  modelled (ECls ct n cm secs eqs algs) = true ->
  do_element head_variant path (ECls ct n cm secs eqs algs) (k, l) = Ok ((r, cls), (k', l')) ->
  exists own nested, cls = own :: nested
    /\ o_path own = (path ++ [n])%list /\ o_ctype own = ct /\ o_comment own = cm
    /\ o_eqs own = sel false eqs /\ o_ieqs own = sel true eqs
    /\ o_sts own = sel false algs /\ o_ists own = sel true algs
    /\ o_exts own = ideal_exts secs
    /\ fold_imp head_variant (imports_els (all_els secs)) [] = Ok (o_imports own)
    /\ o_classes own = cnames_els (all_els secs)
    /\ k_classes k' = (k_classes k ++ [n])%list /\ k_seen k' = k_seen k /\ k_imports k' = k_imports k.
Proof.
  intros _ H. apply class_ok in H.
  destruct H as (own & nested & E & A1 & A2 & A3 & _ & A4 & A5 & A6 & A7 & A8 & A9 & A10 & _ & B1 & B2 & B3).
  rewrite class_exts_head in A4. exists own, nested. repeat split; assumption.
Qed.
Print Assumptions C04_sections.

(* a component declared twice in one class: the class text is rejected (any variant, any listener state) *)
Theorem C04_duplicate v path ct n cm secs eqs algs st :
  ~ NoDup (names_els (all_els secs)) -> exists e, do_element v path (ECls ct n cm secs eqs algs) st = Err e.
Proof. exact (class_duplicate v path ct n cm secs eqs algs st). Qed.
Print Assumptions C04_duplicate.

(* declaration order over a whole file (any number of classes, nested classes, extends clauses with
   modifications, clauses): the order numbers in creation order = source order (l_trace) increase strictly, they
   are exactly the order numbers (and object ids) of the symbols of the parsed classes, and within every class the
   symbol table — which C04_symbols shows to be in source order — has strictly increasing order numbers *)
Theorem C04_order v cs out lf :
  forallb modelled cs = true ->
  run_file_full v cs = Ok (out, lf) -> Forall is_cls cs ->
  StronglySorted lt (map kord (l_trace lf))
  /\ Permutation (l_trace lf) (map key (flat_map o_syms out))
  /\ Forall (fun c => StronglySorted lt (map s_order (o_syms c))) out.
Proof. intros _. exact (file_order v cs out lf). Qed.
Print Assumptions C04_order.

(* no sharing after the walk of a whole file: no two symbols — of the same clause, of different clauses, of
   different classes — point at the same prefixes / dimensions / type object.  (The allocation stamp only grows;
   the first symbol of a clause keeps the clause's objects, which are older than every copy.) *)
Theorem C04_no_sharing v cs out lf :
  forallb modelled cs = true ->
  run_file_full v cs = Ok (out, lf) -> Forall is_cls cs ->
  NoDup (map s_pid (flat_map o_syms out)) /\ NoDup (map s_did (flat_map o_syms out))
  /\ NoDup (map s_tid (flat_map o_syms out)).
Proof. intros _. exact (file_no_sharing v cs out lf). Qed.
Print Assumptions C04_no_sharing.

(* the same refinement for every variant, with the variant's effective visibility / dimensions; and when these
   coincide with the ideal ones (repair in, or the text repeats no section label / does not combine clause and
   declarator subscripts) *)
Theorem C04_variants v :
  (forall path ct n cm secs eqs algs st r cls st',
      do_element v path (ECls ct n cm secs eqs algs) st = Ok ((r, cls), st') ->
      exists own nested, cls = own :: nested /\ map erase_sym (o_syms own) = class_syms v secs)
  /\ (forall (secs : list (label * list element)), v_allsec v = true \/ labels_once secs = true ->
        eff_vis v secs = map (fun s => vis_of_label (fst s)) secs)
  /\ (forall cl d, v_dimsmerge v = true \/ c_dims cl = None \/ d_dims d = None -> spec_dims v cl d = ideal_dims cl d)
  /\ (forall m, decl_cm m = spec_cm m).
Proof.
  split; [|split; [|split]]; [|intros; now apply eff_vis_ideal|intros; now apply spec_dims_ideal|exact decl_cm_spec].
  intros path ct n cm secs eqs algs [k l] r cls [k' l'] H. apply class_ok in H.
  destruct H as (own & nested & E & _ & _ & _ & Hs & _). eauto.
Qed.
Print Assumptions C04_variants.

(* the defects of the code before the repairs (findings, now fixed):
   `model M public Real a; protected Real b; public Real c; end M;` -> a was PRIVATE *)
Theorem C04_visibility_refuted :
  vis_of_first (run_file prefix_variant [vis_witness]) = [("a", Private); ("b", Protected); ("c", Public)]
  /\ vis_of_first (run_file head_variant [vis_witness]) = [("a", Public); ("b", Protected); ("c", Public)].
Proof. exact vis_refuted. Qed.
Print Assumptions C04_visibility_refuted.

(* `model M Real[2] x[3]; end M;` -> dimensions were [[2]], the declarator's 3 lost *)
Theorem C04_dimensions_refuted :
  dims_of_first (run_file prefix_variant [dims_witness]) = [[["2"]]]
  /\ dims_of_first (run_file head_variant [dims_witness]) = [[["3"; "2"]]].
Proof. exact dims_refuted. Qed.
Print Assumptions C04_dimensions_refuted.

(* `import A.{C,D,E};` bound C and the single name "D,E" *)
Theorem C04_import_refuted :
  import_names prefix_variant ["C"; "D"; "E"] = ["C"; "D,E"] /\ import_names head_variant ["C"; "D"; "E"] = ["C"; "D"; "E"].
Proof. split; reflexivity. Qed.
Print Assumptions C04_import_refuted.

(* non-vacuity: a class with two prefixes, clause and declarator dimensions, a modification with a declaration
   value, three sections, an extends clause with a modification, an import, a nested class, initial and non-initial
   sections is accepted; orders 0 1 3 5 (the extends modification and the nested class's symbol take 2 and 4) *)
Example C04_example :
  exists own nested st',
    do_element head_variant [] example_class (mkK [] [] [], init_lst) = Ok ((ROther, own :: nested), st')
    /\ map s_name (o_syms own) = ["a"; "b"; "i"; "p"]
    /\ map s_order (o_syms own) = [0; 1; 3; 5]
    /\ map s_vis (o_syms own) = [Private; Private; Public; Protected]
    /\ map s_prefixes (o_syms own) = [["parameter"; "input"]; ["parameter"; "input"]; []; []]
    /\ o_eqs own = ["(= a b)"; "(= i 2)"] /\ o_ieqs own = ["(= a 1)"]
    /\ NoDup (map s_pid (o_syms own)) /\ NoDup (map s_did (o_syms own)) /\ NoDup (map s_tid (o_syms own))
    /\ length nested = 1 /\ labels_once [(Unl, tt); (Pub, tt); (Pro, tt)] = true
    /\ map kord (l_trace (snd st')) = [0; 1; 3; 4; 5]
    /\ modelled example_class = true /\ modelled redecl_example = true
    /\ (forall st, exists own nested st'',
          do_element head_variant [] redecl_example st = Ok ((ROther, own :: nested), st'')
          /\ map s_name (o_syms own) = ["z"]).
Proof.
  destruct example_ok as (own & nested & st' & H).
  exists own, nested, st'. repeat split; try apply H; try reflexivity.
  intros [k l]. eexists; eexists; eexists. split; reflexivity.
Qed.
Print Assumptions C04_example.
