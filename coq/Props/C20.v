(* C20 — the model cache is never used when stale.
   Property theorems only; model in Model/C20_cache.v, proofs in Proofs/C20_cache.v.

   Reading: `run g fails s0 ops` is the trace of a history; an entry (s1, a, Some r) is a
   transfer_model call made in state s1 that returned r.  `out_ok fails s1 r` says: r is the
   compile of s1's CURRENT sources (the *.mo files below the model folder and the library
   folders), CURRENT options (up to `verbose`) and CURRENT version -- or the call raised and
   compiling the current sources raises.  `g` is the table regenerated from api.py on every run
   (comparison operator of the mtime check, either > or >=; exclude_options; presence of the
   version check); `cfg_ok g` is evaluated on it in run/C20/Tie_C20.v.  `fails` (which compiles
   raise) and the compiler itself are arbitrary. *)
From Coq Require Import ZArith List Bool.
From PV Require Import Model.C20_cache Proofs.C20_cache.
Import ListNotations.

(* For EVERY history of edits / additions (each with an mtime strictly later than the cache
   file's, as the property grants), option changes, version changes and transfer_model calls,
   of any length, from any initial source tree without a cache file: every transfer_model call
   returns the compile of the current state -- PROVIDED library_folders keeps its initial value
   (known finding, see C20_fresh_refuted) and the mtime_check opt-out is not used. *)
Theorem C20_fresh (g : cfg) (fails : cres -> bool) (f0 : fs) (o0 : opts) (v0 : nat) (ops : list op) :
  cfg_ok g -> flag K_mtime_check o0 = true ->
  legal g fails (Some (get K_library_folders o0)) (State f0 o0 v0 None) ops ->
  forall s1 a r, In (s1, a, Some r) (run g fails (State f0 o0 v0 None) ops) -> out_ok fails s1 r.
Proof. exact (fresh g fails f0 o0 v0 ops). Qed.
Print Assumptions C20_fresh.

(* the invariant behind it ("a cache that passes load_ok has snapshot = current sources, equal
   options, equal version"; stated on the part that does not depend on load_ok: the tree differs
   from the snapshot only by files whose mtime is later than the cache's) holds in every
   reachable state, from any state that satisfies it *)
Theorem C20_invariant (g : cfg) (fails : cres -> bool) (L : val) (s : state) (ops : list op) :
  Inv L s -> legal g fails (Some L) s ops -> Inv L (final g fails s ops).
Proof. exact (inv_reachable g fails L s ops). Qed.
Print Assumptions C20_invariant.

(* The full statement (library_folders allowed to change) is FALSE of the faithful model, as it
   is of api.py: with today's table (>, exclude_options = [library_folders], version check
   present) the history [Transfer; SetOptions library_folders := [2]; Transfer] is legal in every
   other respect and its second call is served from the cache with sources that are not the
   current ones. *)
Theorem C20_fresh_refuted :
  exists s1 now r,
    legal g_now (fun _ => false) None (State f_two (o_lib [1]) 1 None) h_lib /\
    In (s1, Transfer now, Some (Served true r)) (run g_now (fun _ => false) (State f_two (o_lib [1]) 1 None) h_lib) /\
    fst (fst r) <> fst (fst (ideal s1)).
Proof. exact fresh_refuted. Qed.
Print Assumptions C20_fresh_refuted.

(* non-vacuity: the hypotheses of C20_fresh hold for a concrete history with an edit, an added
   library file, an option change, a version change and six calls (five recompiles, one load) *)
Example C20_legal_example :
  cfg_ok g_now /\ flag K_mtime_check (o_lib [1]) = true /\
  legal g_now (fun _ => false) (Some (get K_library_folders (o_lib [1]))) (State f_two (o_lib [1]) 1 None) h_ok /\
  map (fun e => snd e) (run g_now (fun _ => false) (State f_two (o_lib [1]) 1 None) h_ok) =
  [Some (Served false ([((0,0),1); ((1,0),2)], set K_expand_mx [1] (o_lib [1]), 1)); None;
   Some (Served false ([((0,0),4); ((1,0),2)], set K_expand_mx [1] (o_lib [1]), 1)); None;
   Some (Served false ([((0,0),4); ((1,0),2); ((1,1),5)], set K_expand_mx [1] (o_lib [1]), 1)); None;
   Some (Served false ([((0,0),4); ((1,0),2); ((1,1),5)], set K_expand_mx [1] (set 9 [1] (o_lib [1])), 1)); None;
   Some (Served false ([((0,0),4); ((1,0),2); ((1,1),5)], set K_expand_mx [1] (set 9 [1] (o_lib [1])), 2));
   Some (Served true ([((0,0),4); ((1,0),2); ((1,1),5)], set K_expand_mx [1] (set 9 [1] (o_lib [1])), 2))].
Proof. exact legal_example. Qed.
Print Assumptions C20_legal_example.
