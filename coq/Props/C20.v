(* C20 — the model cache is never used when stale.
   Property theorems only; model in Model/C20_cache.v, proofs in Proofs/C20_cache.v.

   Reading: `run g fails s0 ops` is the trace of a history; an entry (s1, a, Some r) is a
   transfer_model call made in state s1 that returned r.  `out_ok fails s1 r` says: r is the
   compile of s1's CURRENT sources (the *.mo files below the model folder and the library
   folders), CURRENT options (up to `verbose`) and CURRENT version, and if r's functions are the
   code-generated shared libraries on disk they were built for the CURRENT os.name -- or the call
   raised and compiling the current sources raises.  `g` is the table regenerated from api.py on
   every run (comparison operator of the mtime check, > or >=; exclude_options; presence of the
   version check); `cfg_ok g` is evaluated on it in the run's Tie_C20.v.  `fails` (which compiles
   raise) and the compiler itself are arbitrary.  Both routes are covered: cache (pickled
   functions) and codegen (four shared libraries + a cache file that points to them, written
   together by save_model; library_os check).

   Hypotheses of the positive theorems, exactly (legal_op / legal_op_gt):
   - every rewrite/addition of a .mo file gets an mtime strictly later than the cache file's
     (C20_fresh, the property's grant) or, more generally, one that the coded comparison calls
     newer (C20_fresh_operator: "not earlier" suffices under >=).  A write with an mtime earlier
     than the cache file's (clock going backwards) is an explicit non-goal;
   - library_folders keeps its initial value (known finding, C20_fresh_refuted);
   - mtime_check stays on (documented opt-out);
   - no .mo file is deleted or renamed in the model folder or a library folder in use; deletions
     and renames elsewhere are allowed.  Deletion is outside the property's letter ("edits ...
     additions ... option changes ... version changes"); C20_delete_refuted records what happens. *)
From Coq Require Import ZArith List Bool.
From PV Require Import Model.C20_cache Proofs.C20_cache.
Import ListNotations.

Theorem C20_fresh (g : cfg) (fails : cres -> bool) (f0 : fs) (o0 : opts) (v0 n0 : nat)
        (l0 : option (cres * nat)) (ops : list op) :
  cfg_ok g -> flag K_mtime_check o0 = true ->
  legal_gt g fails (Some (get K_library_folders o0)) (State f0 o0 v0 n0 l0 None) ops ->
  forall s1 a r, In (s1, a, Some r) (run g fails (State f0 o0 v0 n0 l0 None) ops) -> out_ok fails s1 r.
Proof. exact (fresh g fails f0 o0 v0 n0 l0 ops). Qed.
Print Assumptions C20_fresh.

(* the same for writes that are "newer" in the sense of the regenerated operator *)
Theorem C20_fresh_operator (g : cfg) (fails : cres -> bool) (f0 : fs) (o0 : opts) (v0 n0 : nat)
        (l0 : option (cres * nat)) (ops : list op) :
  cfg_ok g -> flag K_mtime_check o0 = true ->
  legal g fails (Some (get K_library_folders o0)) (State f0 o0 v0 n0 l0 None) ops ->
  forall s1 a r, In (s1, a, Some r) (run g fails (State f0 o0 v0 n0 l0 None) ops) -> out_ok fails s1 r.
Proof. exact (fresh_operator g fails f0 o0 v0 n0 l0 ops). Qed.
Print Assumptions C20_fresh_operator.

(* the invariant behind it (restricted to the folders in use the tree differs from the snapshot
   only by files newer than the cache file; the cached model is the compile of the snapshot; a
   codegen cache file sits next to the libraries it was written with) holds in every reachable
   state, from any state that satisfies it *)
Theorem C20_invariant (g : cfg) (fails : cres -> bool) (L : val) (s : state) (ops : list op) :
  Inv g L s -> legal g fails (Some L) s ops -> Inv g L (final g fails s ops).
Proof. exact (inv_reachable g fails L s ops). Qed.
Print Assumptions C20_invariant.

(* The statement with library_folders allowed to change is FALSE of the faithful model, as it is
   of api.py: [Transfer; SetOptions library_folders := [2]; Transfer] is legal in every other
   respect and its second call is served from the cache with sources that are not the current ones *)
Theorem C20_fresh_refuted : legal g_now nofail None s_two h_lib /\ stale g_now s_two h_lib.
Proof. exact fresh_refuted. Qed.
Print Assumptions C20_fresh_refuted.

(* deleting a library source in use / renaming a library source into the model folder: the
   stale cache is served (the mtime walk only sees files that exist and are newer) *)
Theorem C20_delete_refuted : stale g_now s_two h_del /\ stale g_now s_two h_ren.
Proof. exact delete_refuted. Qed.
Print Assumptions C20_delete_refuted.

(* an edit whose mtime EQUALS the cache file's is served stale under `>` (today's operator) and is
   a legal, hence covered, history under `>=` *)
Theorem C20_equal_mtime_refuted :
  stale g_now s_two h_eq /\ legal g_ge nofail (Some [1]) s_two h_eq /\ ~ legal g_now nofail (Some [1]) s_two h_eq.
Proof. exact equal_mtime_refuted. Qed.
Print Assumptions C20_equal_mtime_refuted.

(* non-vacuity: the hypotheses of C20_fresh hold for an 18-op history (edit, added library file,
   deletion and rename outside the folders in use, option change, version change, then codegen mode
   with a platform change) and this is its trace *)
Example C20_legal_example :
  cfg_ok g_now /\ flag K_mtime_check (o_lib [1]) = true /\
  legal_gt g_now nofail (Some (get K_library_folders (o_lib [1]))) s_two h_ok /\
  filter (fun x => match x with Some _ => true | None => false end)
         (map (fun e => snd e) (run g_now nofail s_two h_ok)) =
  [Some (Served false ([((0,0),1); ((1,0),2)], o_a, 1) None);
   Some (Served false ([((0,0),4); ((1,0),2)], o_a, 1) None);
   Some (Served false (srcs4, o_a, 1) None);
   Some (Served false (srcs4, o_b, 1) None);
   Some (Served false (srcs4, o_b, 2) None);
   Some (Served true (srcs4, o_b, 2) None);
   Some (Served false (srcs4, o_cg [1], 2) None);
   Some (Served true (srcs4, o_cg [1], 2) (Some 0));
   Some (Served false (srcs4, o_cg [1], 2) None);
   Some (Served true (srcs4, o_cg [1], 2) (Some 1))].
Proof. exact legal_example. Qed.
Print Assumptions C20_legal_example.
