(* C11 — DAE residual equals the Modelica meaning of the flat equations.
   Property theorems only; proofs live in Proofs/C11_residual.v.

   Everything is stated for ANY operator table T satisfying the decidable side condition
   `table_ok T = true`; vlib/c11.py regenerates T from generator.py (OP_MAP) and the installed
   casadi (hasattr(MX, method)) on every run and discharges the side condition by vm_compute
   (run/C11/Tie_C11.v).  F (elementary functions) is arbitrary. *)
From Coq Require Import ZArith QArith Qcanon List Bool Lia.
From PV Require Import Model.C11_residual Proofs.C11_residual Model.C11_functions Proofs.C11_functions
  Model.C11_arrays Proofs.C11_arrays Model.C11_cases.
Import ListNotations.
Open Scope Qc_scope.

(* Expressions.  (1) Soundness: whenever the generator produces a graph c for e, then at every
   evaluation point where the Modelica meaning of e is defined (no division by zero), CasADi's
   value of c is that meaning: the same number for Real expressions; for Boolean expressions a
   number >= 0 that is non-zero exactly when the Boolean is true (relations 0/1, and = product,
   or = sum, not = if_else(x,0,1)).  Subscripts: Modelica x[k] (1-based) reads CasADi element
   k-1; derivatives are independent inputs (env_rel).  (2) The generator does produce a graph
   for every expression without `<>` (and for all expressions once "<>" is in OP_MAP). *)
Theorem C11_expr (F : positive -> Qc -> Qc) (T : table) (rm : menv) (rc : cenv) (e : expr) :
  table_ok T = true -> env_rel rm rc ->
  (forall c, tr T e = Ok c ->
     forall v, m_eval F e rm = Some v -> exists w, ca_eval F c rc = Some w /\ enc_rel v w) /\
  (ne_ok T = true \/ ne_free e = true -> exists c, tr T e = Ok c).
Proof.
  intros HT HE. split; [exact (expr_sound F T HT rm rc HE e) | exact (tr_total T HT e)].
Qed.
Print Assumptions C11_expr.

(* Equations: simple equations (lhs - rhs), if-equations with else branch (first true
   condition selects the block), for-equations over lo:hi (every i in lo..hi, 1-based array
   elements x[i+k]; lo:st:hi with any non-zero step).  The residual block CasADi evaluates has one entry per flat Real equation,
   and each entry equals lhs - rhs under Modelica semantics wherever that is defined.
   (For a for-equation the entries are listed equation-major, as m_res states.) *)
Theorem C11_residual (F : positive -> Qc -> Qc) (T : table) (rm : menv) (rc : cenv) (q : eqn) :
  table_ok T = true -> env_rel rm rc ->
  (forall r, tr_eqn T q = Ok r ->
     forall ms, m_res F q rm = Some ms ->
       exists cs, ca_res F r rc = Some cs /\ Forall2 agrees ms cs) /\
  (eqn_wf q -> ne_ok T = true \/ eqn_ne_free q = true -> exists r, tr_eqn T q = Ok r).
Proof.
  intros HT HE. split.
  - intros r Hr ms Hm. exact (eqn_sound F T HT rm rc HE q r ms Hr Hm).
  - exact (tr_eqn_total T HT q).
Qed.
Print Assumptions C11_residual.

(* Totality: with "<>" mapped, every operator of the grammar has an existing MX method and
   translation never fails ... *)
Theorem C11_total (T : table) :
  table_ok T = true -> ne_ok T = true -> table_total T = true /\ forall e, exists c, tr T e = Ok c.
Proof.
  intros HT N. split; [exact (table_ok_total T HT N) |]. intro e. apply (tr_total T HT e). left. exact N.
Qed.
Print Assumptions C11_total.

(* ... the OP_MAP of HEAD satisfies all of it, while the table before commit 1779c2f
   ("/" -> __div__, which casadi.MX does not have) fails on any division *)
Theorem C11_total_fixed_table :
  table_ok good_table = true /\ ne_ok good_table = true /\ table_total good_table = true /\
  tr prefix_table (EBin BDiv (ERef (RVar 1%positive)) (ERef (RVar 2%positive))) = Err E_nomethod.
Proof.
  destruct good_table_total as [H1 H2].
  split; [exact good_table_ok | split; [exact H1 | split; [exact H2 | exact prefix_division_fails]]].
Qed.
Print Assumptions C11_total_fixed_table.

(* before e57542a Modelica's inequality `a <> b` reached the generator as operator "<>", which
   OP_MAP lacked (it only had an unreachable "!=" key): generation failed.  C11_expr /
   C11_residual hold for that table too, carving out exactly `<>`. *)
Theorem C11_total_refuted_ne :
  table_ok pre_ne_table = true /\ ne_ok pre_ne_table = false /\
  exists e, tr pre_ne_table e = Err E_notable.
Proof.
  destruct pre_ne_table_fails as (H0 & H1 & H2). split; [exact H0 | split; [exact H1 |]]. eexists. exact H2.
Qed.
Print Assumptions C11_total_refuted_ne.

(* affine loop subscripts x[a*i + b] (a, b any integers, a may be negative or zero) are part of
   expr (RAff), so C11_expr / C11_residual cover them: the for-equation residual is the body
   instantiated at each range value v with subscript a*v + b.  Spelled out for the subscript: *)
Theorem C11_affine_subscript (rm : menv) (rc : cenv) (x : positive) (a b v : Z) :
  env_rel rm rc -> c_sym (tr_ref (RAff x a b)) (with_ci rc v) = m_arr rm x (a * v + b).
Proof. exact (affine_subscript rm rc x a b v). Qed.
Print Assumptions C11_affine_subscript.

(* for i in lo:hi visits exactly lo..hi *)
Theorem C11_loop_range (lo hi v : Z) : In v (range_values lo 1 hi) <-> (lo <= v <= hi)%Z.
Proof. exact (range_values_step1_In lo hi v). Qed.
Print Assumptions C11_loop_range.

(* three-part ranges (repaired in 3facb7b): for every non-zero step - positive or negative,
   dividing the span or not - the values the generator loops over are exactly the Modelica range
   lo, lo+st, ..., not beyond hi.  C11_residual uses this: m_res ranges over modelica_range. *)
Theorem C11_three_part_range (lo st hi : Z) :
  st <> 0%Z -> range_values lo st hi = modelica_range lo st hi.
Proof. exact (range_values_modelica lo st hi). Qed.
Print Assumptions C11_three_part_range.

(* the reading of the tree before 3facb7b (a:b:c as start:stop:step) is refuted by 1:2:5 *)
Theorem C11_three_part_range_old_reading_refuted :
  exists a b c, old_range3 a b c <> modelica_range a b c.
Proof.
  exists 1%Z, 2%Z, 5%Z. destruct old_range3_differs as [-> ->]. intro H. discriminate H.
Qed.
Print Assumptions C11_three_part_range_old_reading_refuted.

(* User functions with algorithm sections: assignment, if/elseif/else and for-statements.
   sq says which exitIfStatement the tree has (probed on every run; HEAD: true).  For a body whose
   statements are well-formed (stmt_ok: program variables only; loop bodies are lists of
   assignments that may read each other's results; if-statements - only for the repaired
   translation sq = true - whose branches assign subsets of the variables of the first branch),
   if the generator produces the assignment list l (loops unrolled iteration-major with the index
   bound per iteration; if-statements: every branch executed on its own by sequential
   substitution, merged with if_else on the pre-if conditions, assigned to fresh temporaries and
   then simultaneously to the variables), then after get_function's sequential substitution the
   symbolic value of EVERY program variable, evaluated at the input point, is the value the
   Modelica sequential execution `exec` leaves in that variable.
   Not covered: nested statements inside if/for bodies (not in the model; pymoca does not support
   them inside for-statements either). *)
Theorem C11_function (F : positive -> Qc -> Qc) (T : table) (sq : bool) (body : list stmt) (l : list cassign)
        (rm rm' : menv) (rc : cenv) :
  table_ok T = true -> Forall (stmt_ok sq) body -> init_rel rm rc ->
  tr_stmts T sq body = Ok l -> exec F body rm = Some rm' ->
  forall x, small x -> exists q, m_sc rm' x = VNum q /\ ca_eval F (apply_assigns l sigma0 x) rc = Some q.
Proof. intros HT Hok Hi Htr Hex. exact (function_sound F T HT sq body l rm rc rm' Hok Hi Htr Hex). Qed.
Print Assumptions C11_function.

(* The call site.  For `(y1, .., yk) = f(args)` (k may be smaller than the number of outputs:
   the remaining outputs are discarded): if the generator produces the residual r for the call
   equation, then wherever the Modelica meaning is defined (arguments evaluate, the algorithm
   section executes) r is defined and its j-th entry is y_j minus the j-th output of the
   sequential execution of f on the argument values.  Composes C11_expr (arguments) with
   C11_function (body). *)
Theorem C11_call_residual (F : positive -> Qc -> Qc) (T : table) (sq : bool) (rm : menv) (rc : cenv)
        (lhs : list positive) (f : func) (args : list expr) (r : option (list (option Qc))) (ms : list (option Qc)) :
  table_ok T = true -> env_rel rm rc -> func_ok sq f ->
  ca_call_res F T sq (lhs, f, args) rc = Ok r -> m_call_res F (lhs, f, args) rm = Some ms ->
  exists cs, r = Some cs /\ Forall2 agrees ms cs.
Proof. intros HT HE Hf. exact (call_sound F T HT sq rm rc HE lhs f args r ms Hf). Qed.
Print Assumptions C11_call_residual.

(* the order of the unrolled assignments is what the theorem is about: for
   `for i in 1:2 loop a := a + i*b; b := a - b; end for` from a = b = 1 the sequential result is
   a = 4, b = 3, the iteration-major unrolling of the generator gives the same, and the
   statement-major unrolling (seeded change m2) gives b = 1 *)
Theorem C11_function_order :
  match tr_assigns good_table order_body with
  | Ok cb =>
      val_is (exec (fun _ q => q) [SFor 1 1 2 order_body] order_rm) 1%positive 4 = true /\
      val_is (exec (fun _ q => q) [SFor 1 1 2 order_body] order_rm) 2%positive 3 = true /\
      qc_is (ca_eval (fun _ q => q) (apply_assigns (unroll [1; 2]%Z cb) sigma0 1%positive) order_rc) 4 = true /\
      qc_is (ca_eval (fun _ q => q) (apply_assigns (unroll [1; 2]%Z cb) sigma0 2%positive) order_rc) 3 = true /\
      qc_is (ca_eval (fun _ q => q) (apply_assigns (unroll_stmt_major [1; 2]%Z cb) sigma0 2%positive) order_rc) 1 = true
  | Err _ => False
  end.
Proof. exact order_matters. Qed.
Print Assumptions C11_function_order.

(* KNOWN, unrepaired: if-statements are not translated sequentially in general.  Witness:
   `if a > 0 then a := a - 5; b := 1; else a := a; b := 2; end if` from a = b = 3: sequential
   execution gives a = -2, b = 1; the function the generator builds gives b = 2.  The carved-out
   class is "if-statement whose condition reads a variable it assigns, or whose branches assign
   in different orders" (if_wf in Proofs/C11_functions.v states the complement). *)
Theorem C11_function_if_refuted :
  match tr_stmts good_table false [ifdep_stmt] with
  | Ok l =>
      val_is (exec (fun _ q => q) [ifdep_stmt] ifdep_rm) 1%positive (-2) = true /\
      val_is (exec (fun _ q => q) [ifdep_stmt] ifdep_rm) 2%positive 1 = true /\
      qc_is (ca_eval (fun _ q => q) (apply_assigns l sigma0 1%positive) ifdep_rc) (-2) = true /\
      qc_is (ca_eval (fun _ q => q) (apply_assigns l sigma0 2%positive) ifdep_rc) 2 = true
  | Err _ => False
  end.
Proof. exact ifdep_differs. Qed.
Print Assumptions C11_function_if_refuted.

(* ... and the repaired translation (fixes/C11_if_statement_sequential, seq_if = true) gives the
   sequential result on that witness: a = -2, b = 1 *)
Theorem C11_function_if_repaired_witness :
  match tr_stmts good_table true [ifdep_stmt] with
  | Ok l =>
      qc_is (ca_eval (fun _ q => q) (apply_assigns l sigma0 1%positive) ifdep_rc) (-2) = true /\
      qc_is (ca_eval (fun _ q => q) (apply_assigns l sigma0 2%positive) ifdep_rc) 1 = true
  | Err _ => False
  end.
Proof. exact ifdep_repaired. Qed.
Print Assumptions C11_function_if_repaired_witness.

(* non-vacuity: the witness if-statement satisfies the hypothesis of C11_function for sq = true *)
Example C11_function_if_example : stmt_ok true ifdep_stmt.
Proof. exact ifdep_ok. Qed.
Print Assumptions C11_function_if_example.

(* Array equations (vectors, matrices, slices A[lo:hi, k], A[:, k], A[k, :], v[lo:hi], + - .*,
   scalar * array, matrix product, transpose): if the generator produces the residual graph c for
   `l = r` (exitEquation incl. the implicit transpose of a row against a column) and CasADi
   evaluates it to v, then veccat(v) - column-major - is the list of lhs - rhs of the flat
   equations in column-major order.  In particular a square matrix equation is never transposed.
   (Soundness form: that the CasADi evaluation IS defined whenever the shapes are Modelica-legal
   is checked by the correspondence, not proved.) *)
Theorem C11_matrix_residual (F : positive -> Qc -> Qc) (decl : positive -> mshape) (T : table)
        (mm : menv2) (cm : cenv2) (rm : menv) (rc : cenv) (l r : aexpr) (c : caa) (L : list Qc) (v : cmat) :
  table_ok T = true -> env_rel rm rc -> mat_rel mm cm ->
  tr_aeq decl T l r = Ok c -> m_ares F decl l r mm rm = Some L -> ca_aeval F c cm rc = Some v ->
  c_flat v = L.
Proof. intros HT HE HM. exact (aeq_sound F decl T HT mm cm rm rc HE HM l r c L v). Qed.
Print Assumptions C11_matrix_residual.

Theorem C11_square_not_transposed :
  match tr_aeq sq_decl good_table (AVar 1%positive) (AVar 2%positive) with
  | Ok (CABin ASub (CASymM _ _ _) (CASymM _ _ _)) => True
  | _ => False
  end.
Proof. exact square_not_transposed. Qed.
Print Assumptions C11_square_not_transposed.

(* non-vacuity: a concrete well-typed expression with or / and / not / relation / if, whose
   Modelica meaning is defined at a point related to a CasADi point *)
Definition ex_rm : menv :=
  {| m_sc := fun x => if Pos.eqb x 1 then VNum (Q2Qc (3 # 2)) else if Pos.eqb x 2 then VBool true else VNum 0;
     m_der := fun _ => 1; m_arr := fun _ k => z2q k; m_i := 2%Z |}.
Definition ex_rc : cenv :=
  {| c_sc := fun x => if Pos.eqb x 1 then Q2Qc (3 # 2) else if Pos.eqb x 2 then 1 else 0;
     c_der := fun _ => 1; c_arr := fun _ k0 => z2q (k0 + 1); c_i := 2%Z |}.
Definition ex_e : expr :=
  EIf [(EBin BOr (ERef (RVar 2%positive)) (EBin BAnd (EBin BGt (ERef (RVar 1%positive)) (ENum 1)) (EUn UNot (ERef (RVar 2%positive)))),
        EBin BDiv (ERef (RLoopIdx 5%positive 1%Z)) (ERef (RVar 1%positive)))]
      (ENum 0).
Example C11_example :
  env_rel ex_rm ex_rc /\
  typeof (fun x => if Pos.eqb x 2 then TBool else TReal) ex_e = Some TReal /\
  exists q, m_eval (fun _ q => q) ex_e ex_rm = Some (VNum q) /\ qeqb q (Q2Qc 2) = true.
Proof.
  split; [| split; [vm_compute; reflexivity | eexists; split; vm_compute; reflexivity]].
  split; [| split; [| split]].
  - intro x. unfold ex_rm, ex_rc. cbv beta iota delta [m_sc c_sc].
    destruct (Pos.eqb x 1); cbv beta iota; [reflexivity |]. destruct (Pos.eqb x 2); cbv beta iota; reflexivity.
  - intro x. reflexivity.
  - intros x k. simpl. f_equal. lia.
  - reflexivity.
Qed.
Print Assumptions C11_example.
