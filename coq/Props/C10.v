(* C10 — generated CasADi model classifies every variable exactly once.
   Property theorems only; proofs live in Proofs/C10_classify.v.  All statements are over
   arbitrary flat classes: any number of symbols, arbitrary names, orders (ties allowed),
   prefix lists (any multiset of the 8 keywords, grammatical or not), types, and arbitrary
   expression trees. *)
From Coq Require Import List Arith Bool PeanoNat Permutation Sorted.
From PV Require Import Model.C10_classify Proofs.C10_classify.
Import ListNotations.

(* Exactly one category.  The seven lists together are a permutation of the non-empty
   annotated symbols; a symbol is in list c iff c is the category the chain gives it; with
   distinct flat names no name occurs twice anywhere in the seven lists. *)
Theorem C10_partition (fc : flat) :
  Permutation (flat_map (fun c => sel c fc) all_cats) (filter nonempty (annotate fc)) /\
  (forall s c, In s (sel c fc) <-> In s (annotate fc) /\ s_empty s = false /\ scat s = c) /\
  (NoDup (map s_name (f_syms fc)) ->
   NoDup (map s_name (flat_map (fun c => sel c fc) all_cats))).
Proof. exact (partition_main fc). Qed.
Print Assumptions C10_partition.

(* Precedence constant > parameter > input > state > algebraic, String constants/parameters
   in the string categories; for every prefix list and type (not a finite table). *)
Theorem C10_precedence (p : list kw) (t : ty) :
  (In Kconstant p -> cat_of p t = if is_str t then CStrConst else CConst) /\
  (~ In Kconstant p -> In Kparameter p -> cat_of p t = if is_str t then CStrParam else CParam) /\
  (~ In Kconstant p -> ~ In Kparameter p -> In Kinput p -> cat_of p t = CInput) /\
  (~ In Kconstant p -> ~ In Kparameter p -> ~ In Kinput p -> In Kstate p -> cat_of p t = CState) /\
  (~ In Kconstant p -> ~ In Kparameter p -> ~ In Kinput p -> ~ In Kstate p -> cat_of p t = CAlg).
Proof. exact (cat_of_precedence p t). Qed.
Print Assumptions C10_precedence.

(* Declaration order within each category: every list is the sorted symbol list with elements
   removed, hence ascending in `order`; the sorted list is a permutation of the symbol table,
   ascending, and stable (symbols of equal order keep their flat-class order). *)
Theorem C10_order (fc : flat) :
  (forall c, sel c fc = filter (fun s => cat_eqb (scat s) c && nonempty s) (sorted_syms fc)) /\
  (forall c, StronglySorted ord_le (sel c fc)) /\
  Permutation (sorted_syms fc) (annotate fc) /\
  StronglySorted ord_le (sorted_syms fc) /\
  (forall k, filter (at_order k) (sorted_syms fc) = filter (at_order k) (annotate fc)).
Proof. exact (order_main fc). Qed.
Print Assumptions C10_order.

(* States: a declared symbol ends up in `states` iff it is non-empty, not constant / parameter /
   input, and its name occurs below some der(...) node of an equation, initial equation or
   attribute expression (`under`, an inductive reading independent of the in_der counter), or
   it carried the state prefix already.  Exactly one derivative per state, position-wise. *)
Theorem C10_states (fc : flat) :
  (forall s0, In s0 (f_syms fc) ->
     let s := annotate1 (all_der_refs fc) s0 in
     In s (m_states fc) <->
       s_empty s0 = false /\ ~ In Kconstant (s_pref s0) /\ ~ In Kparameter (s_pref s0) /\
       ~ In Kinput (s_pref s0) /\
       (In Kstate (s_pref s0) \/ exists e, In e (f_exprs fc) /\ under (s_name s0) false e)) /\
  m_der_states fc = map (fun s => Der (s_name s)) (m_states fc) /\
  length (m_der_states fc) = length (m_states fc) /\
  (forall i s, nth_error (m_states fc) i = Some s ->
               nth_error (m_der_states fc) i = Some (Der (s_name s))).
Proof. exact (states_main fc). Qed.
Print Assumptions C10_states.

(* Outputs: exactly the output-prefixed members of states then alg_states, in that order. *)
Theorem C10_outputs (fc : flat) :
  m_outputs fc = map s_name (filter (fun s => has Koutput (s_pref s)) (m_states fc)) ++
                 map s_name (filter (fun s => has Koutput (s_pref s)) (m_alg fc)) /\
  (forall n, In n (m_outputs fc) <->
     exists s, (In s (m_states fc) \/ In s (m_alg fc)) /\ In Koutput (s_pref s) /\ s_name s = n).
Proof. exact (outputs_main fc). Qed.
Print Assumptions C10_outputs.

(* The generated model IS these lists — under the hypothesis that carves out exactly the
   recorded defect class (known finding output-string-variable): no non-empty String variable
   with the output prefix that is neither constant, parameter nor input. *)
Theorem C10_model_produced (fc : flat) :
  (forall s, In s (f_syms fc) -> ~ bad_sym s) -> generate fc = Some (lists fc).
Proof. exact (generate_some fc). Qed.
Print Assumptions C10_model_produced.

(* ... and the full statement ("every generated flat model mixing prefixes and types gets a
   Model whose output list ...") is false of the faithful model: for exactly that class no
   Model is produced (the real code raises AttributeError). *)
Theorem C10_outputs_refuted :
  exists fc, NoDup (map s_name (f_syms fc)) /\ generate fc = None.
Proof.
  exists (mkFlat [mkSym 1 0 [Koutput] TString false] []).
  split; [repeat constructor; simpl; tauto | vm_compute; reflexivity].
Qed.
Print Assumptions C10_outputs_refuted.

Theorem C10_no_model_iff (fc : flat) :
  generate fc = None <-> exists s, In s (f_syms fc) /\ bad_sym s.
Proof. exact (generate_none_iff fc). Qed.
Print Assumptions C10_no_model_iff.

(* non-vacuity: a concrete flat class with every category inhabited, an order tie, an empty
   array, der inside an expression and in a nested call, an input and a parameter under der;
   it satisfies the carving hypothesis and the lists are as expected *)
Example C10_example :
  let fc := mkFlat
    [ mkSym 1 5 [Koutput] TReal false;           (* output Real x      -> state (der(x*y))   *)
      mkSym 2 5 [] TReal false;                   (* Real y, same order -> state              *)
      mkSym 3 1 [Kparameter; Kinput] TReal false; (* parameter input    -> parameter          *)
      mkSym 4 2 [Kinput] TReal false;             (* input u, der(u)    -> input              *)
      mkSym 5 0 [Kconstant] TString false;        (* constant String    -> string constant    *)
      mkSym 6 3 [Kparameter] TString false;       (* parameter String   -> string parameter   *)
      mkSym 7 9 [Kconstant] TInteger false;       (* constant Integer   -> constant           *)
      mkSym 8 4 [Koutput; Kdiscrete] TBoolean false; (* discrete output -> algebraic, output  *)
      mkSym 9 7 [] TReal true;                    (* Real e[0]          -> dropped            *)
      mkSym 10 6 [Kinput; Koutput] TString false ](* String input      -> input, no error     *)
    [ EOp false [EOp true [EOp false [ERef 1; ERef 2]]; ERef 8];
      EOp false [ERef 8; EOp false [ELit; EOp true [ERef 4; ERef 3]]] ] in
  (forall s, In s (f_syms fc) -> ~ bad_sym s) /\
  generate fc = Some (mkObs [1; 2] [Der 1; Der 2] [8] [4; 10] [3] [7] [6] [5] [1; 8]).
Proof.
  split.
  - simpl. intros s H. unfold bad_sym.
    repeat (destruct H as [<-|H]; [simpl; intuition discriminate|]). destruct H.
  - vm_compute. reflexivity.
Qed.
Print Assumptions C10_example.
