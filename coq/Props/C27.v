(* C27 — assembling a library from several files is order-independent.
   Property theorems only; model in Model/C27_merge.v, proofs in Proofs/C27_merge.v.

   Vocabulary.  A tree is a header (type, ten adoptable attributes as token lists, three flags) plus an
   insertion-ordered dictionary of nested classes.  [get t p] is the header of the class at dotted
   path p (None if there is no such class).  Two trees with the same [get] have the same classes, with
   the same contents, at every path, and the same SET of child names under every class
   (n is a child of the class at p  iff  get t (p ++ [n]) <> None); the insertion ORDER of the
   children is the only thing lookup-equality ignores (it does differ between file orders; that the real
   flattening does not depend on it is checked by the oracle on the implementation, not proved).
   [merge_api] = casadi api._compile_model (first parse is the receiver), [merge_compiler] =
   tools/compiler.py parse_all (empty Tree is the receiver).  [wf] = no duplicate keys (a Python dict).
   [compatible ts]: whenever two files both contain a class at the same path, the two headers have the
   same type and, attribute by attribute, at most one of them is non-empty or both are equal. *)
From Coq Require Import List Bool PArith Arith Permutation.
From PV Require Import Model.C27_merge Model.C27_flat Proofs.C27_merge Proofs.C27_flat.
Import ListNotations.

(* Central theorem: for every compatible set of parsed files, of any size and nesting depth, every
   permutation of the files gives lookup-equal assembled trees, with both drivers. *)
Theorem C27_merge_perm (ts ts' : list node) (p : list name) :
  Permutation ts ts' -> Forall wf ts -> compatible ts ->
  get (merge_api ts) p = get (merge_api ts') p /\
  get (merge_compiler ts) p = get (merge_compiler ts') p.
Proof. exact (merge_perm_both ts ts' p). Qed.
Print Assumptions C27_merge_perm.

(* The property's own hypothesis: a library split into files with `within` clauses - two files that both
   know a class either agree on it or one of them only has the placeholder package that file_to_tree
   creates for the within clause (and the class really is a package).  This includes "the package's own
   file merged after files that declare classes within it". *)
Theorem C27_split_perm (fs fs' : list file) (p : list name) :
  Permutation fs fs' ->
  Forall wf (map file_to_tree fs) -> split_ok (map file_to_tree fs) ->
  get (merge_api (map file_to_tree fs)) p = get (merge_api (map file_to_tree fs')) p /\
  get (merge_compiler (map file_to_tree fs)) p = get (merge_compiler (map file_to_tree fs')) p.
Proof. exact (split_perm fs fs' p). Qed.
Print Assumptions C27_split_perm.

(* What the assembled tree contains, for ANY list of well-formed files (no compatibility needed): the
   header at p is the left-to-right header merge of the headers the files have at p (first non-empty
   value of each attribute wins, flags are or-ed, the first file that knows the class fixes its type). *)
Theorem C27_lookup_is_fold (t : node) (ts : list node) (p : list name) :
  Forall wf ts ->
  get (merge_api (t :: ts)) p = fold_right omerge None (map (fun t => get t p) (t :: ts)).
Proof. exact (get_merge_api t ts p). Qed.
Print Assumptions C27_lookup_is_fold.

(* the two drivers build the same classes *)
Theorem C27_drivers_agree (t : node) (ts : list node) (n : name) (p : list name) :
  Forall wf (t :: ts) ->
  get (merge_compiler (t :: ts)) (n :: p) = get (merge_api (t :: ts)) (n :: p).
Proof. exact (styles_agree t ts n p). Qed.
Print Assumptions C27_drivers_agree.

(* tools/compiler.parse_all(paths, tree) called several times on one tree (package.mo in one call, `within` files in
   another): adding the files batch by batch is the same left fold as adding them in one call, so every theorem
   about [merge_compiler] covers every batching of every file order.  (That the real parse_all hooks each batch
   into the caller's tree with Tree.extend is checked by the oracle: every partition of every permutation into
   successive calls must give the tree / flattened models of the one-call run.) *)
Theorem C27_compiler_batches (gs : list (list node)) :
  merge_compiler (concat gs) = fold_left (fun t g => fold_left extend g t) gs empty_root.
Proof. exact (merge_compiler_batches gs empty_root). Qed.
Print Assumptions C27_compiler_batches.

(* ---- the flattened models ----
   [flat E t top] (Model/C27_flat.v) is an executable model of the part of pymoca.tree.flatten that decides which
   variables the flat model of class `top` has: _find_class (nested classes, qualified imports, parent scopes,
   encapsulated), flatten_extends (bases first, dict.update), build_instance_tree (symbol types - inherited ones
   too - looked up from the deriving class; a component's modifiers move into its instance), the pulling of
   package constants referenced by qualified name (ConstantReferenceApplier / _find_constant_symbol), dotted
   instance names.  E decodes the content tokens of the headers (symbols: name, type, references; extends;
   imports; equations' references) and is the same for every file order.  It reaches the tree only through [get]: *)
Theorem C27_flat_respects_lookup (E : denv) (t t' : node) :
  (forall p, get t p = get t' p) -> forall top, flat E t top = flat E t' top.
Proof. exact (flat_respects_lookup E t t'). Qed.
Print Assumptions C27_flat_respects_lookup.

(* The property at the level of flattened models (of the flattening MODEL): same flat variable list for every
   permutation of a compatible set of files, both drivers. *)
Theorem C27_flatten_perm (E : denv) (top : path) (ts ts' : list node) :
  Permutation ts ts' -> Forall wf ts -> compatible ts ->
  flat E (merge_api ts) top = flat E (merge_api ts') top /\
  flat E (merge_compiler ts) top = flat E (merge_compiler ts') top.
Proof. exact (flatten_perm E top ts ts'). Qed.
Print Assumptions C27_flatten_perm.

Theorem C27_flatten_split_perm (E : denv) (top : path) (fs fs' : list file) :
  Permutation fs fs' -> Forall wf (map file_to_tree fs) -> split_ok (map file_to_tree fs) ->
  flat E (merge_api (map file_to_tree fs)) top = flat E (merge_api (map file_to_tree fs')) top /\
  flat E (merge_compiler (map file_to_tree fs)) top = flat E (merge_compiler (map file_to_tree fs')) top.
Proof. exact (flatten_split_perm E top fs fs'). Qed.
Print Assumptions C27_flatten_split_perm.

(* PARTIAL.  What is still not proved about the REAL pymoca.tree.flatten: that it equals [flat].  [flat] is tied to it
   on every run by the correspondence (ordered declared variables with their types, set of pulled constants, for every
   model of every generated library, evaluated on the model-merged tree of every file order), not by proof; values,
   attributes and equations of the flat model are not in [flat] at all (the oracle compares them on the real code).
   ASSUMED about dictionary iteration: [flat] never iterates over a nested-class dictionary, classes are reached by key
   only; the order of a class's SYMBOLS is the order the parser built inside one file (content tokens of one header), so
   it cannot depend on the file order.  pymoca does iterate nested-class dictionaries in build_instance_tree
   (tree.py:403-426, eager instantiation of the nested classes of an INSTANTIATED class, in insertion order) and copies
   them in flatten_extends (293, 315): for that order to be file-order independent the nested classes of every
   instantiated class (the model, its bases, its component classes) must come from one file - true when `within` names
   packages and models are not split, which is the property's domain; the generator never nests classes in models.
   `import P.*` is not modelled (such libraries are skipped by the flat correspondence and counted).
   The general statement below covers ANY observation that respects lookup-equality. *)
Theorem C27_flatten_perm_partial (A : Type) (F : node -> A) :
  (forall t t', (forall p, get t p = get t' p) -> F t = F t') ->
  forall ts ts', Permutation ts ts' -> Forall wf ts -> compatible ts ->
  F (merge_api ts) = F (merge_api ts') /\ F (merge_compiler ts) = F (merge_compiler ts').
Proof. exact (observation_perm F). Qed.
Print Assumptions C27_flatten_perm_partial.

(* non-vacuity of the flattening model: package file last / first, the model's variable and the pulled constant *)
Example C27_flat_example :
  flat fx_E (merge_api (map file_to_tree [fx_f1; fx_f0])) [10; 12]%positive
    = Some [([41], 50, false); ([10; 40], 50, true)]%positive /\
  flat fx_E (merge_compiler (map file_to_tree [fx_f0; fx_f1])) [10; 12]%positive
    = Some [([41], 50, false); ([10; 40], 50, true)]%positive.
Proof. exact fx_result. Qed.
Print Assumptions C27_flat_example.

(* the boolean checks that the correspondence evaluates on the really parsed files of every generated
   compatible split imply the hypotheses of C27_merge_perm *)
Theorem C27_checked_hypotheses_sound (ts : list node) :
  forallb wfb ts = true -> compat_filesb ts = true -> Forall wf ts /\ compatible ts.
Proof. exact (checked_hypotheses_sound ts). Qed.
Print Assumptions C27_checked_hypotheses_sound.

(* the compatibility hypothesis is necessary: two files that both give symbols to package P *)
Theorem C27_incompatible_is_order_dependent :
  exists ts ts' p, Permutation ts ts' /\ Forall wf ts /\ get (merge_api ts) p <> get (merge_api ts') p.
Proof. exists [bad_a; bad_b], [bad_b; bad_a], [10%positive]. exact incompatible_witness. Qed.
Print Assumptions C27_incompatible_is_order_dependent.

(* non-vacuity: a package file, a `within P` file and a `within P.Q` file (Q only a placeholder) satisfy
   the hypotheses; merged package-file-last, P keeps its constants and P.Q.S its contents *)
Example C27_example :
  (Forall wf ex_ts /\ compatible ex_ts) /\
  get (merge_api (map file_to_tree [ex_f2; ex_f1; ex_f0])) [10%positive] = Some (ex_h 1 [21; 22]%positive [])
  /\ get (merge_api (map file_to_tree [ex_f2; ex_f1; ex_f0])) [10; 13; 14]%positive = Some (ex_h 3 [25]%positive [33]%positive).
Proof. exact (conj ex_ok ex_result). Qed.
Print Assumptions C27_example.
