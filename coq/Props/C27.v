(* C27 — assembling a library from several files is order-independent.
   Property theorems only; model in Model/C27_merge.v, proofs in Proofs/C27_merge.v.

   Vocabulary.  A tree is a header (type, ten adoptable attributes as token lists, three flags) plus an
   insertion-ordered dictionary of nested classes.  [get t p] is the header of the class at dotted
   path p (None if there is no such class).  Two trees with the same [get] have the same classes, with
   the same contents, at every path, and the same SET of child names under every class
   (n is a child of the class at p  iff  get t (p ++ [n]) <> None); the insertion ORDER of the
   children is the only thing lookup-equality ignores (it does differ between file orders; that the real
   flattening does not depend on it is checked by the oracle on the implementation, not proved).
   [merge_api] = casadi api._compile_model (first parse is the receiver), [merge_compiler] =
   tools/compiler.py parse_all (empty Tree is the receiver).  [wf] = no duplicate keys (a Python dict).
   [compatible ts]: whenever two files both contain a class at the same path, the two headers have the
   same type and, attribute by attribute, at most one of them is non-empty or both are equal. *)
From Coq Require Import List Bool PArith Arith Permutation.
From PV Require Import Model.C27_merge Proofs.C27_merge.
Import ListNotations.

(* Central theorem: for every compatible set of parsed files, of any size and nesting depth, every
   permutation of the files gives lookup-equal assembled trees, with both drivers. *)
Theorem C27_merge_perm (ts ts' : list node) (p : list name) :
  Permutation ts ts' -> Forall wf ts -> compatible ts ->
  get (merge_api ts) p = get (merge_api ts') p /\
  get (merge_compiler ts) p = get (merge_compiler ts') p.
Proof. exact (merge_perm_both ts ts' p). Qed.
Print Assumptions C27_merge_perm.

(* The property's own hypothesis: a library split into files with `within` clauses - two files that both
   know a class either agree on it or one of them only has the placeholder package that file_to_tree
   creates for the within clause (and the class really is a package).  This includes "the package's own
   file merged after files that declare classes within it". *)
Theorem C27_split_perm (fs fs' : list file) (p : list name) :
  Permutation fs fs' ->
  Forall wf (map file_to_tree fs) -> split_ok (map file_to_tree fs) ->
  get (merge_api (map file_to_tree fs)) p = get (merge_api (map file_to_tree fs')) p /\
  get (merge_compiler (map file_to_tree fs)) p = get (merge_compiler (map file_to_tree fs')) p.
Proof. exact (split_perm fs fs' p). Qed.
Print Assumptions C27_split_perm.

(* What the assembled tree contains, for ANY list of well-formed files (no compatibility needed): the
   header at p is the left-to-right header merge of the headers the files have at p (first non-empty
   value of each attribute wins, flags are or-ed, the first file that knows the class fixes its type). *)
Theorem C27_lookup_is_fold (t : node) (ts : list node) (p : list name) :
  Forall wf ts ->
  get (merge_api (t :: ts)) p = fold_right omerge None (map (fun t => get t p) (t :: ts)).
Proof. exact (get_merge_api t ts p). Qed.
Print Assumptions C27_lookup_is_fold.

(* the two drivers build the same classes *)
Theorem C27_drivers_agree (t : node) (ts : list node) (n : name) (p : list name) :
  Forall wf (t :: ts) ->
  get (merge_compiler (t :: ts)) (n :: p) = get (merge_api (t :: ts)) (n :: p).
Proof. exact (styles_agree t ts n p). Qed.
Print Assumptions C27_drivers_agree.

(* PARTIAL (the flattening step).  The property speaks about the FLATTENED models.  pymoca.tree.flatten is
   not modelled; what is proved is that every observation F of the assembled tree that respects
   lookup-equality is the same for every file order.  That the real flatten is such an F (it reaches
   classes through dictionary lookups only and never depends on the insertion order of nested classes)
   is NOT proved: it is checked on every run by the oracle, which flattens every model of every
   generated library with the real code after every permutation of the files. *)
Theorem C27_flatten_perm_partial (A : Type) (F : node -> A) :
  (forall t t', (forall p, get t p = get t' p) -> F t = F t') ->
  forall ts ts', Permutation ts ts' -> Forall wf ts -> compatible ts ->
  F (merge_api ts) = F (merge_api ts') /\ F (merge_compiler ts) = F (merge_compiler ts').
Proof. exact (observation_perm F). Qed.
Print Assumptions C27_flatten_perm_partial.

(* the boolean checks that the correspondence evaluates on the really parsed files of every generated
   compatible split imply the hypotheses of C27_merge_perm *)
Theorem C27_checked_hypotheses_sound (ts : list node) :
  forallb wfb ts = true -> compat_filesb ts = true -> Forall wf ts /\ compatible ts.
Proof. exact (checked_hypotheses_sound ts). Qed.
Print Assumptions C27_checked_hypotheses_sound.

(* the compatibility hypothesis is necessary: two files that both give symbols to package P *)
Theorem C27_incompatible_is_order_dependent :
  exists ts ts' p, Permutation ts ts' /\ Forall wf ts /\ get (merge_api ts) p <> get (merge_api ts') p.
Proof. exists [bad_a; bad_b], [bad_b; bad_a], [10%positive]. exact incompatible_witness. Qed.
Print Assumptions C27_incompatible_is_order_dependent.

(* non-vacuity: a package file, a `within P` file and a `within P.Q` file (Q only a placeholder) satisfy
   the hypotheses; merged package-file-last, P keeps its constants and P.Q.S its contents *)
Example C27_example :
  (Forall wf ex_ts /\ compatible ex_ts) /\
  get (merge_api (map file_to_tree [ex_f2; ex_f1; ex_f0])) [10%positive] = Some (ex_h 1 [21; 22]%positive [])
  /\ get (merge_api (map file_to_tree [ex_f2; ex_f1; ex_f0])) [10; 13; 14]%positive = Some (ex_h 3 [25]%positive [33]%positive).
Proof. exact (conj ex_ok ex_result). Qed.
Print Assumptions C27_example.
