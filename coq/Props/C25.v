(* C25 — ModelicaXML backend mirrors the flat model.  Property theorems only; proofs in Proofs/C25_xml.v.
   `gen mv` is the executable model of XmlGenerator (mv = true: the code in which the left operand of a
   declaration-value equation is moved away by lxml; mv = false: the repaired code).  `norm` keeps exactly
   what the property says the XML carries: per variable name, builtin type, variability, the text of the
   literal start/value (and fixed); per equation its whole expression tree, with literals as their text
   (the XML has one literal element kind) and a declaration-value equation read as `name = value`. *)
From Coq Require Import String List Bool.
From PV Require Import Model.C25_xml Proofs.C25_xml.
Import ListNotations.
Open Scope string_scope.

(* The decoder returns the (normalised) flat tree from the generated XML, for every flat tree of the
   modelled node kinds, of any size: classes, variables, equations (incl. nested when-bodies) and
   expressions are recovered one for one, operator for operator, operand for operand, in order.
   For the unrepaired generator the flat tree must not contain a declaration-value equation. *)
Theorem C25_roundtrip (mv : bool) (t : flat) :
  (mv = true -> has_decl_flat t = false) -> unxml (gen mv t) = Some (norm t).
Proof. exact (roundtrip mv t). Qed.
Print Assumptions C25_roundtrip.

(* hence: equal XML only for flat trees that agree on everything the property names *)
Theorem C25_injective (mv : bool) (t u : flat) :
  (mv = true -> has_decl_flat t = false) -> (mv = true -> has_decl_flat u = false) ->
  gen mv t = gen mv u -> norm t = norm u.
Proof. exact (gen_injective mv t u). Qed.
Print Assumptions C25_injective.

(* one <component> per flat variable, in order, followed by one <equation> element holding one element
   per flat equation, in order (both variants, no hypothesis) *)
Theorem C25_class_shape (mv : bool) (c : cls) :
  exists comps eqs,
    gen_cls mv c = Node T_classDefinition [(A_name, c_name c)]
                        [Node T_class [(A_kind, V_model)] (comps ++ [Node T_equation [] eqs])%list]
    /\ comps = map gen_sym (c_syms c) /\ eqs = map (gen_eqn mv) (c_eqs c)
    /\ length comps = length (c_syms c) /\ length eqs = length (c_eqs c).
Proof. exact (class_shape mv c). Qed.
Print Assumptions C25_class_shape.

(* the recorded defect: without the carving hypothesis the statement is false for mv = true
   (`model M Real x = 3; end M;`: <equal> holds only <real value="3"/>) *)
Theorem C25_roundtrip_refuted :
  exists t, has_decl_flat t = true /\ unxml (gen true t) <> Some (norm t)
            /\ gen_eqn true (DeclEq "x" (Lit KInt "3")) = Node T_equal [] [Node T_real [(A_value, "3")] []].
Proof. exists decl_witness. split; [reflexivity|]. split; [exact moved_refuted | exact moved_loses_left]. Qed.
Print Assumptions C25_roundtrip_refuted.

(* non-vacuity: a model with all variabilities, unary / binary / n-ary operators, a when-equation with a
   call equation, literals of several kinds satisfies the hypothesis (and norm is not the identity on it) *)
Example C25_example :
  has_decl_flat example_flat = false /\ unxml (gen true example_flat) = Some (norm example_flat)
  /\ norm example_flat <> example_flat.
Proof. exact example_ok. Qed.
Print Assumptions C25_example.
