(* C09 — connections produce exactly the Modelica connection-set equations.
   Property theorems only; proofs live in Proofs/C09_connect.v.
   Notation: cs = flattened connect clauses in order (any list, any length);
   flow_pairs cs / pot_pairs cs = the pairs of flow keys (name, inside?) / potential names they
   connect; eqv = equivalence closure (Lib/Closure.v); valuations ρ : var → Qc (exact rationals). *)
From stdpp Require Import gmap.
From Coq Require Import QArith Qcanon.
From PV Require Import Lib.Closure Model.C09_connect Proofs.C09_connect.
Close Scope Qc_scope.
Close Scope Q_scope.

(* the distinct set objects left in flow_connections are duplicate free, pairwise disjoint, each is
   the closure class of a mentioned key, every mentioned key lies in one, and two keys share a set
   iff they are related by the equivalence closure of the connect pairs *)
Theorem C09_partition (flows : list var) (cs : list fclause) :
  let P := flow_pairs cs in
  let sets := sets_of (fc (run_clauses flows cs)) in
  NoDup sets ∧
  (∀ S T, S ∈ sets → T ∈ sets → S ≠ T → S ## T) ∧
  (∀ S, S ∈ sets → ∃ k, mentioned P k ∧ k ∈ S ∧ ∀ v, v ∈ S ↔ eqv P k v) ∧
  (∀ k, mentioned P k → ∃ S, S ∈ sets ∧ k ∈ S) ∧
  (∀ a b, mentioned P a → (∃ S, S ∈ sets ∧ a ∈ S ∧ b ∈ S) ↔ eqv P a b).
Proof. exact (partition_correct flows cs). Qed.
Print Assumptions C09_partition.

(* a valuation satisfies the generated flow equations iff every closure class of a mentioned key
   (however enumerated, duplicate free) has signed sum zero, inside +, outside −, and every flow
   name of the class that no connect clause mentions is zero *)
Theorem C09_flow (flows : list var) (cs : list fclause) (ρ : var → Qc) :
  sat ρ (flow_eqs flows cs) ↔
  (∀ k l, mentioned (flow_pairs cs) k → NoDup l ∧ (∀ v, v ∈ l ↔ eqv (flow_pairs cs) k v) →
          ssum ρ l = 0%Qc) ∧
  (∀ n, n ∈ flows → (∀ k, mentioned (flow_pairs cs) k → k.1 ≠ n) → ρ n = 0%Qc).
Proof. exact (flow_correct flows cs ρ). Qed.
Print Assumptions C09_flow.

(* it satisfies the generated equalities iff it is constant on every closure class of the
   connected potential variables *)
Theorem C09_potential (cs : list fclause) (ρ : var → Qc) :
  sat ρ (pot_eqs cs) ↔ ∀ a b, eqv (pot_pairs cs) a b → ρ a = ρ b.
Proof. exact (pot_correct cs ρ). Qed.
Print Assumptions C09_potential.

(* end to end on the hierarchical input: for every instance tree (any nesting depth, any clauses)
   the rows the model of flatten + expand_connectors emits have exactly the solutions of the
   connection semantics of its flattened clauses, with the inside/outside flag of tree.py:676-679 *)
Theorem C09_model_rows (i : inst) (ρ : var → Qc) :
  sat ρ (model_rows i) ↔
  pot_spec (pot_pairs (flat_clauses [] i)) ρ ∧
  flow_spec (flat_flows [] i) (flow_pairs (flat_clauses [] i)) ρ.
Proof. exact (expand_correct (flat_flows [] i) (flat_clauses [] i) ρ). Qed.
Print Assumptions C09_model_rows.

(* value-level form of the object-sharing invariant: every present key is a member of the set it
   points to and every member of that set points to the same set *)
Theorem C09_sharing_invariant (flows : list var) (cs : list fclause) :
  let m := fc (run_clauses flows cs) in
  ∀ k S, m !! k = Some S → k ∈ S ∧ ∀ v, v ∈ S → m !! v = Some S.
Proof. exact (sharing_invariant flows cs). Qed.
Print Assumptions C09_sharing_invariant.

(* non-vacuity: model M  Comp a(4), b(5);  Pin t(3);  connect(a.p, b.n); connect(t, a.n);
   connect(b.n, t)  — one merged set of four keys with an outside connector — has a solution with
   non-zero flows, and the valuation that is 1 everywhere is not a solution *)
Definition ex_pin : cvars := [(10%positive, KPot); (11%positive, KFlow); (12%positive, KPar)].
Definition ex_comp : inst := Inst [(1%positive, ex_pin); (2%positive, ex_pin)] [] [].
Definition ex_m : inst :=
  Inst [(3%positive, ex_pin)] [(4%positive, ex_comp); (5%positive, ex_comp)]
       [Clause (CRef (Some 4%positive) 1%positive) (CRef (Some 5%positive) 2%positive) ex_pin;
        Clause (CRef None 3%positive) (CRef (Some 4%positive) 2%positive) ex_pin;
        Clause (CRef (Some 5%positive) 2%positive) (CRef None 3%positive) ex_pin].
Definition ex_rho (v : var) : Qc :=
  if decide (v = [3; 11]%positive) then Q2Qc (5 # 2)
  else if decide (v = [4; 1; 11]%positive) then Q2Qc (3 # 2)
  else if decide (v = [4; 2; 11]%positive) then 1%Qc
  else 0%Qc.

Example C09_example :
  length (model_sets ex_m) = 1 ∧ sat ex_rho (model_rows ex_m) ∧ ¬ sat (fun _ => 1%Qc) (model_rows ex_m).
Proof.
  split; [vm_compute; reflexivity|]. split.
  - unfold sat. apply Forall_forall. intros r Hr.
    assert (Hb : forallb (fun r => Qeq_bool (Qcanon.this (eval ex_rho r)) 0%Q) (model_rows ex_m) = true)
      by (vm_compute; reflexivity).
    rewrite forallb_forall in Hb. apply elem_of_list_In in Hr. specialize (Hb r Hr).
    apply Qc_is_canon. apply Qeq_bool_eq in Hb. exact Hb.
  - unfold sat. rewrite Forall_forall. intros Hall.
    assert (Hb : existsb (fun r => negb (Qeq_bool (Qcanon.this (eval (fun _ => 1%Qc) r)) 0%Q)) (model_rows ex_m) = true)
      by (vm_compute; reflexivity).
    apply existsb_exists in Hb as (r & Hr & Hb). apply elem_of_list_In in Hr.
    specialize (Hall r Hr). rewrite Hall in Hb. vm_compute in Hb. discriminate Hb.
Qed.
Print Assumptions C09_example.
