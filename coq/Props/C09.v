(* C09 — connections produce exactly the Modelica connection-set equations.
   Property theorems only; proofs live in Proofs/C09_connect.v.
   Notation: cs = flattened connect clauses in order (any list, any length);
   flow_pairs cs / pot_pairs cs = the pairs of flow keys (name, inside?) / potential names they
   connect; eqv = equivalence closure (Lib/Closure.v); valuations ρ : var → Qc (exact rationals). *)
From stdpp Require Import gmap strings.
From Coq Require Import QArith Qcanon Ascii String.
From PV Require Import Lib.Closure Lib.DotJoin Model.C09_connect Proofs.C09_connect Proofs.C09_names Proofs.C09_indexed.
Close Scope Qc_scope.
Close Scope Q_scope.
Close Scope string_scope.

(* The first five theorems hold for EVERY way of building flattened names (class Naming: Sg = name
   segment, N = flattened name): structured paths and dot-joined strings alike.  The string-level
   theorems below add what makes the string names faithful. *)
Section Generic.
Context {Sg N : Type} `{Countable N} `{!Naming Sg N}.
Local Notation var := N.
Local Notation fclause := ((N * bool) * (N * bool) * list (Sg * kind))%type.

(* the distinct set objects left in flow_connections are duplicate free, pairwise disjoint, each is
   the closure class of a mentioned key, every mentioned key lies in one, and two keys share a set
   iff they are related by the equivalence closure of the connect pairs *)
Theorem C09_partition (flows : list var) (cs : list fclause) :
  let P := flow_pairs cs in
  let sets := sets_of (fc (run_clauses flows cs)) in
  NoDup sets ∧
  (∀ S T, S ∈ sets → T ∈ sets → S ≠ T → S ## T) ∧
  (∀ S, S ∈ sets → ∃ k, mentioned P k ∧ k ∈ S ∧ ∀ v, v ∈ S ↔ eqv P k v) ∧
  (∀ k, mentioned P k → ∃ S, S ∈ sets ∧ k ∈ S) ∧
  (∀ a b, mentioned P a → (∃ S, S ∈ sets ∧ a ∈ S ∧ b ∈ S) ↔ eqv P a b).
Proof. exact (partition_correct flows cs). Qed.

(* a valuation satisfies the generated flow equations iff every closure class of a mentioned key
   (however enumerated, duplicate free) has signed sum zero, inside +, outside −, and every flow
   name of the class that no connect clause mentions is zero *)
Theorem C09_flow (flows : list var) (cs : list fclause) (ρ : var → Qc) :
  sat ρ (flow_eqs flows cs) ↔
  (∀ k l, mentioned (flow_pairs cs) k → NoDup l ∧ (∀ v, v ∈ l ↔ eqv (flow_pairs cs) k v) →
          ssum ρ l = 0%Qc) ∧
  (∀ n, n ∈ flows → (∀ k, mentioned (flow_pairs cs) k → k.1 ≠ n) → ρ n = 0%Qc).
Proof. exact (flow_correct flows cs ρ). Qed.

(* it satisfies the generated equalities iff it is constant on every closure class of the
   connected potential variables *)
Theorem C09_potential (cs : list fclause) (ρ : var → Qc) :
  sat ρ (pot_eqs cs) ↔ ∀ a b, eqv (pot_pairs cs) a b → ρ a = ρ b.
Proof. exact (pot_correct cs ρ). Qed.

(* end to end on the hierarchical input: for every instance tree (any nesting depth, any clauses)
   the rows the model of flatten + expand_connectors emits have exactly the solutions of the
   connection semantics of its flattened clauses, with the inside/outside flag of tree.py:676-679 *)
Theorem C09_model_rows (i : inst Sg) (ρ : var → Qc) :
  sat ρ (model_rows i) ↔
  pot_spec (pot_pairs (flat_clauses [] i)) ρ ∧
  flow_spec (flat_flows [] i) (flow_pairs (flat_clauses [] i)) ρ.
Proof. exact (expand_correct (flat_flows [] i) (flat_clauses [] i) ρ). Qed.

(* value-level form of the object-sharing invariant: every present key is a member of the set it
   points to and every member of that set points to the same set *)
Theorem C09_sharing_invariant (flows : list var) (cs : list fclause) :
  let m := fc (run_clauses flows cs) in
  ∀ k S, m !! k = Some S → k ∈ S ∧ ∀ v, v ∈ S → m !! v = Some S.
Proof. exact (sharing_invariant flows cs). Qed.
End Generic.
Print Assumptions C09_partition.
Print Assumptions C09_flow.
Print Assumptions C09_potential.
Print Assumptions C09_model_rows.
Print Assumptions C09_sharing_invariant.

(* non-vacuity: model M  Comp a(4), b(5);  Pin t(3);  connect(a.p, b.n); connect(t, a.n);
   connect(b.n, t)  — one merged set of four keys with an outside connector — has a solution with
   non-zero flows, and the valuation that is 1 everywhere is not a solution *)
Definition ex_pin : list (positive * kind) := [(10%positive, KPot); (11%positive, KFlow); (12%positive, KPar)].
Definition ex_comp : inst positive := Inst [(1%positive, ex_pin); (2%positive, ex_pin)] [] [].
Definition ex_m : inst positive :=
  Inst [(3%positive, ex_pin)] [(4%positive, ex_comp); (5%positive, ex_comp)]
       [Clause (CRef (Some 4%positive) 1%positive) (CRef (Some 5%positive) 2%positive) ex_pin;
        Clause (CRef None 3%positive) (CRef (Some 4%positive) 2%positive) ex_pin;
        Clause (CRef (Some 5%positive) 2%positive) (CRef None 3%positive) ex_pin].
Definition ex_rho (v : list positive) : Qc :=
  if decide (v = [3; 11]%positive) then Q2Qc (5 # 2)
  else if decide (v = [4; 1; 11]%positive) then Q2Qc (3 # 2)
  else if decide (v = [4; 2; 11]%positive) then 1%Qc
  else 0%Qc.

Definition ex_rows : list (list (list positive * Z)) := model_rows ex_m.
Definition ex_sets : list (list (list positive * bool)) := model_sets ex_m.
Definition ones (_ : list positive) : Qc := 1%Qc.

Example C09_example :
  List.length ex_sets = 1%nat ∧ sat ex_rho ex_rows ∧ ¬ sat ones ex_rows.
Proof.
  split; [vm_compute; reflexivity|]. split.
  - unfold sat. apply Forall_forall. intros r Hr.
    assert (Hb : forallb (fun r => Qeq_bool (Qcanon.this (eval ex_rho r)) 0%Q) ex_rows = true)
      by (vm_compute; reflexivity).
    rewrite forallb_forall in Hb. apply elem_of_list_In in Hr. specialize (Hb r Hr).
    apply Qc_is_canon. apply Qeq_bool_eq in Hb. exact Hb.
  - unfold sat. rewrite Forall_forall. intros Hall.
    assert (Hb : existsb (fun r => negb (Qeq_bool (Qcanon.this (eval ones r)) 0%Q)) ex_rows = true)
      by (vm_compute; reflexivity).
    apply existsb_exists in Hb as (r & Hr & Hb). apply elem_of_list_In in Hr.
    specialize (Hall r Hr). rewrite Hall in Hb. vm_compute in Hb. discriminate Hb.
Qed.
Print Assumptions C09_example.

(* ---------------- string level: names as pymoca holds them ---------------- *)
(* join with a separator is injective on paths whose segments are non-empty and separator free *)
Theorem C09_join_injective (p q : list (list ascii)) :
  path_ok dot p → path_ok dot q → sjoin p = sjoin q → p = q.
Proof. exact (join_inj dot p q). Qed.
Print Assumptions C09_join_injective.

(* "p is a proper prefix of q on segments"  iff  join q startswith (join p + ".") *)
Theorem C09_prefix_with_separator (p q : list (list ascii)) :
  path_ok dot p → path_ok dot q → p ≠ [] →
  (sjoin p ++ [dot]) `prefix_of` sjoin q ↔ ∃ r, r ≠ [] ∧ q = p ++ r.
Proof. exact (prefix_sep_iff dot p q). Qed.
Print Assumptions C09_prefix_with_separator.

(* the variant without the trailing separator is wrong: "port1" is a string prefix of "port10.i"
   although [port1] is not a segment prefix of [port10; i] *)
Theorem C09_bare_prefix_refuted :
  ∃ conn fv q, name_ok conn ∧ seg_ok dot fv ∧ name_ok q ∧
    hits TPrefixBare conn fv (sjoin q) = true ∧ ¬ conn `prefix_of` q.
Proof. exact bare_test_refuted. Qed.
Print Assumptions C09_bare_prefix_refuted.

(* the name test the tie accepts at the zero-default bookkeeping site (exact key conn + "." + var,
   separator '.') removes exactly the entry of that flow variable *)
Theorem C09_name_test_sound (t : name_test) (sep : ascii) :
  accepted t sep = true →
  sep = dot ∧ ∀ conn fv q, name_ok conn → seg_ok dot fv → name_ok q →
    hits t conn fv (sjoin q) = true ↔ q = conn ++ [fv].
Proof. exact (accepted_sound t sep). Qed.
Print Assumptions C09_name_test_sound.

(* string-level connection sets: two string keys share a set iff the STRUCTURED keys are related
   by the equivalence closure of the structured connect pairs *)
Theorem C09_string_partition (flows : list (list ascii)) (cs : list fclauseP) (a b : list (list ascii) * bool) :
  Forall clause_ok cs → mentioned (flow_pairs cs) a → name_ok b.1 →
  (∃ S, S ∈ sets_of (fc (run_clauses flows (map renC cs))) ∧ keyS a ∈ S ∧ keyS b ∈ S) ↔
  eqv (flow_pairs cs) a b.
Proof. exact (string_level_partition flows cs a b). Qed.
Print Assumptions C09_string_partition.

(* end to end at string level: for every instance tree whose identifiers are non-empty and contain
   no '.', the rows emitted when names are dot-joined strings compared as strings have exactly the
   solutions of the connection semantics over the structured names (valuation read through join) *)
Theorem C09_string_model_rows (i : inst (list ascii)) (ρ : list ascii → Qc) :
  inst_ok i →
  sat ρ (rowsS i) ↔
  pot_spec (pot_pairs (fcP [] i)) (ρ ∘ sjoin) ∧
  flow_spec (ffP [] i) (flow_pairs (fcP [] i)) (ρ ∘ sjoin).
Proof. exact (string_model_rows_correct i ρ). Qed.
Print Assumptions C09_string_model_rows.

(* non-vacuity at string level: top-level connectors port1 (connected to t) and port10 (not
   connected); identifiers are legal, and the string-level rows contain port10.i = 0 *)
Definition ex_spin : list (list ascii * kind) := [(lit "v", KPot); (lit "i", KFlow)].
Definition ex_s : inst (list ascii) :=
  Inst [(lit "port1", ex_spin); (lit "port10", ex_spin); (lit "t", ex_spin)] []
       [Clause (CRef None (lit "port1")) (CRef None (lit "t")) ex_spin].
Example C09_string_example :
  inst_ok ex_s ∧ zero_row (lit "port10.i") ∈ rowsS ex_s ∧ zero_row (lit "port1.i") ∉ rowsS ex_s.
Proof.
  split.
  { simpl. unfold vars_ok, ex_spin.
    repeat first [ apply seg_okb_ok; vm_compute; reflexivity | split | constructor ]. }
  split.
  - apply (bool_decide_unpack _). by vm_compute.
  - apply (bool_decide_unpack _). by vm_compute.
Qed.
Print Assumptions C09_string_example.

(* ---------------- indexed names: array elements ---------------- *)
(* a segment = identifier with integer subscripts; the core theorems hold by instantiation *)
Theorem C09_partition_indexed (flows : list ivar) (cs : list fclauseI) :
  let P := flow_pairs cs in
  let sets := sets_of (fc (run_clauses flows cs)) in
  NoDup sets ∧
  (∀ S T, S ∈ sets → T ∈ sets → S ≠ T → S ## T) ∧
  (∀ S, S ∈ sets → ∃ k, mentioned P k ∧ k ∈ S ∧ ∀ v, v ∈ S ↔ eqv P k v) ∧
  (∀ k, mentioned P k → ∃ S, S ∈ sets ∧ k ∈ S) ∧
  (∀ a b, mentioned P a → (∃ S, S ∈ sets ∧ a ∈ S ∧ b ∈ S) ↔ eqv P a b).
Proof. exact (C09_partition flows cs). Qed.
Print Assumptions C09_partition_indexed.

Theorem C09_flow_indexed (flows : list ivar) (cs : list fclauseI) (ρ : ivar → Qc) :
  sat ρ (flow_eqs flows cs) ↔ flow_spec flows (flow_pairs cs) ρ.
Proof. exact (C09_flow flows cs ρ). Qed.
Print Assumptions C09_flow_indexed.

Theorem C09_potential_indexed (cs : list fclauseI) (ρ : ivar → Qc) :
  sat ρ (pot_eqs cs) ↔ ∀ a b, eqv (pot_pairs cs) a b → ρ a = ρ b.
Proof. exact (C09_potential cs ρ). Qed.
Print Assumptions C09_potential_indexed.

Theorem C09_model_rows_indexed (i : inst iseg) (ρ : ivar → Qc) :
  sat ρ (model_rows i) ↔
  pot_spec (pot_pairs (flat_clauses [] i)) ρ ∧
  flow_spec (flat_flows [] i) (flow_pairs (flat_clauses [] i)) ρ.
Proof. exact (C09_model_rows i ρ). Qed.
Print Assumptions C09_model_rows_indexed.

Theorem C09_sharing_invariant_indexed (flows : list ivar) (cs : list fclauseI) :
  let m := fc (run_clauses flows cs) in
  ∀ k S, m !! k = Some S → k ∈ S ∧ ∀ v, v ∈ S → m !! v = Some S.
Proof. exact (C09_sharing_invariant flows cs). Qed.
Print Assumptions C09_sharing_invariant_indexed.

(* the implementation removes zero defaults by array NAME (model_rows_byname).  When every array is
   connected all-or-none this has exactly the solutions of the connection semantics ... *)
Theorem C09_byname_all_or_none (i : inst iseg) (ρ : ivar → Qc) :
  all_or_none (flat_flows [] i) (flow_pairs (flat_clauses [] i)) →
  sat ρ (model_rows_byname i) ↔
  pot_spec (pot_pairs (flat_clauses [] i)) ρ ∧
  flow_spec (flat_flows [] i) (flow_pairs (flat_clauses [] i)) ρ.
Proof.
  intros Han. unfold model_rows_byname. rewrite (byname_agrees _ _ ρ Han). exact (C09_model_rows i ρ).
Qed.
Print Assumptions C09_byname_all_or_none.

(* ... and without that hypothesis it does not (known finding):  Pin t[2]; Pin u; connect(t[1], u)
   leaves t[2].i free — a valuation with t[2].i = 1 satisfies the by-name rows, not the semantics *)
Definition ex_ipin : list (iseg * kind) := [((10%positive, []), KPot); ((11%positive, []), KFlow)].
Definition ex_t : inst iseg :=
  Inst [((20%positive, [1%Z]), ex_ipin); ((20%positive, [2%Z]), ex_ipin); ((21%positive, []), ex_ipin)] []
       [Clause (CRef None (20%positive, [1%Z])) (CRef None (21%positive, [])) ex_ipin].
Definition ex_irho (v : ivar) : Qc :=
  if decide (v = [(20%positive, [2%Z]); (11%positive, [])]) then 1%Qc else 0%Qc.
Definition ex_rows_byname : list (list (ivar * Z)) := model_rows_byname ex_t.
Definition ex_rows_exact : list (list (ivar * Z)) := model_rows ex_t.

Theorem C09_byname_refuted : sat ex_irho ex_rows_byname ∧ ¬ sat ex_irho ex_rows_exact.
Proof.
  split.
  - unfold sat. apply Forall_forall. intros r Hr.
    assert (Hb : forallb (fun r => Qeq_bool (Qcanon.this (eval ex_irho r)) 0%Q) ex_rows_byname = true)
      by (vm_compute; reflexivity).
    rewrite forallb_forall in Hb. apply elem_of_list_In in Hr. specialize (Hb r Hr).
    apply Qc_is_canon. apply Qeq_bool_eq in Hb. exact Hb.
  - unfold sat. rewrite Forall_forall. intros Hall.
    assert (Hb : existsb (fun r => negb (Qeq_bool (Qcanon.this (eval ex_irho r)) 0%Q)) ex_rows_exact = true)
      by (vm_compute; reflexivity).
    apply existsb_exists in Hb as (r & Hr & Hb). apply elem_of_list_In in Hr.
    specialize (Hall r Hr). rewrite Hall in Hb. vm_compute in Hb. discriminate Hb.
Qed.
Print Assumptions C09_byname_refuted.
