(* C11 — correspondence cases for the function and array streams (vlib/c11.py).  NO proofs. *)
From Coq Require Import ZArith QArith Qcanon List Bool.
From PV Require Import Model.C11_residual Model.C11_functions Model.C11_arrays.
Import ListNotations.
Open Scope Qc_scope.

Inductive xeqn :=
| XBase (q : eqn)                      (* scalar / if- / for-equation of Model/C11_residual.v *)
| XCall (q : call_eqn)                 (* (y1, .., yk) = f(args) *)
| XArr (l r : aexpr).                  (* array equation *)

Definition xfails (T : table) (seq_if : bool) (decl : positive -> mshape) (q : xeqn) : bool :=
  match q with
  | XBase q => tr_fails T q
  | XCall (_, f, args) =>
      match tr_func T seq_if f, tr_exprs T args with Ok _, Ok _ => false | _, _ => true end
  | XArr l r => match tr_aeq decl T l r with Ok _ => false | Err _ => true end
  end.

(* table, elementary-function samples, point (scalars, derivatives, vectors), matrices as lists of
   rows, declared array shapes, generate() succeeded?, equations with their observed residuals *)
Definition xcase := (table * ftable * point * list (positive * list (list Qc)) * list (positive * mshape)
                     * bool * list (xeqn * list obs))%type.
Definition check_xcase (seq_if : bool) (c : xcase) : bool :=
  match c with
  | (T, ft, p, mats, decl, impl_ok, qs) =>
      let rho := cenv_of p in
      let F := flookup ft in
      if impl_ok then
        forallb (fun qo =>
                   match fst qo with
                   | XBase q => check_eqn F T rho q (snd qo)
                   | XCall q => check_call F T seq_if rho q (snd qo)
                   | XArr l r => check_aeq F T decl (mat_of mats) rho l r (snd qo)
                   end) qs
      else existsb (fun qo => xfails T seq_if (alookup_sh decl) (fst qo)) qs
  end.
