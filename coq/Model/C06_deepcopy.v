(* C06 — executable model of Class.__deepcopy__ (src/pymoca/ast.py:876-890) run by
   copy.deepcopy over a class tree, and of the AST edit API (ast.py:810-874).
   No proofs in this file.

   flags: g_fixed  = the guard of ast.py:878 is `id(self.parent) not in memo`
                     (false: the pre-08ba236 `self.parent not in memo`, always true);
          h_fixed  = the copy ends without a per-instance hook (`del new.__deepcopy__`)
                     (false: pre-08ba236 `new.__deepcopy__ = _deepcp`, the ORIGINAL's bound method).
   Both are derived from the source on every run (vlib/c06.py probe) and the theorems of
   Props/C06.v are about flags = fixed_flags (tie side condition run/C06/Tie_C06.v). *)
From Coq Require Import List Arith Bool.
From PV Require Import Lib.ObjGraph.
Import ListNotations.

Record flags := Flags { g_fixed : bool; h_fixed : bool }.
Definition fixed_flags := Flags true true.
Definition prefix_flags := Flags false false.

(* the deepcopy memo: id(object) -> object, as addresses; most recent binding first *)
Definition memo := list (addr * addr).
Fixpoint mget (m : memo) (a : addr) : option addr :=
  match m with
  | [] => None
  | (k, v) :: m' => if addr_dec a k then Some v else mget m' a
  end.

(* ast.py:878: `if self.parent is not None and <guard>:` *)
Definition guard (fl : flags) (m : memo) (pa : addr) : bool :=
  if g_fixed fl then match mget m pa with Some _ => false | None => true end
  else true.       (* `self.parent not in memo`: an object is never equal to an int key *)

(* One run of Class.__deepcopy__ on the class at (ti, p ++ r); its copy gets address (n, r).
   Returns the memo as it is when the class's own `classes` dict is about to be copied.
   (`parent` is copied after `classes` in __dict__ order; the pushes made while copying the
   owned classes have keys inside this subtree, or are pins of parents inside it, so the
   lookup of memo[id(self.parent)] gives the same value before and after them.) *)
Definition copy_node (fl : flags) (n ti : nat) (p : path) (m : memo) (e : path * info)
  : memo * (path * info) :=
  let '(r, i) := e in
  let src := (ti, p ++ r) in
  (* ast.py:878-879   memo[id(self.parent)] = self.parent *)
  let m1 := match par i with
            | Some pa => if guard fl m pa then (pa, pa) :: m else m
            | None => m
            end in
  (* copy.py _reconstruct: y = cls.__new__; memo[id(x)] = y *)
  let m2 := (src, (n, r)) :: m1 in
  (* state['parent'] = deepcopy(self.parent, memo): a memo hit by construction *)
  let par' := match par i with
              | Some pa => match mget m2 pa with Some v => Some v | None => Some pa end
              | None => None
              end in
  (* ast.py:888 `del new.__deepcopy__`  |  pre-fix `new.__deepcopy__ = _deepcp` *)
  let hk' := if h_fixed fl then None else Some src in
  (m2, (r, Info (dat i) par' hk')).

Fixpoint copy_ents (fl : flags) (n ti : nat) (p : path) (m : memo) (ents : list (path * info))
  : list (path * info) :=
  match ents with
  | [] => []
  | e :: es => let '(m', e') := copy_node fl n ti p m e in e' :: copy_ents fl n ti p m' es
  end.

(* the class object at address a with the classes it owns: root entry first *)
Definition src_of (w : world) (a : addr) : option (info * list (path * info)) :=
  match nth_error w (fst a) with
  | None => None
  | Some t => match sub (snd a) t with
              | ([], i0) :: rest => Some (i0, rest)
              | _ => None
              end
  end.

Definition no_hook (i : info) : bool := match hk i with None => true | Some _ => false end.

(* copy.deepcopy(x) with a fresh memo, x = the class at address a (a Tree, or the class
   found by find_class(copy=True), ast.py:719-720, 807-808).  copy.py:151 takes x.__deepcopy__: a
   per-instance hook bound to another object h runs Class.__deepcopy__ on h.  Owned classes
   of the object being copied that carry a foreign hook do not occur in reachable worlds
   (the model is stuck = None there; never hit by the correspondence). *)
Definition deepcopy (fl : flags) (w : world) (a : addr) : option world :=
  match src_of w a with
  | None => None
  | Some (i0, _) =>
    let a0 := match hk i0 with Some h => h | None => a end in
    match src_of w a0 with
    | None => None
    | Some (i1, rest) =>
      if no_hook i1 && forallb (fun e => no_hook (snd e)) rest
      then Some (w ++ [copy_ents fl (length w) (fst a0) (snd a0) [] (([], i1) :: rest)])
      else None
    end
  end.

(* ---- the hypothesis of the reachable-world theorems, as a boolean checked on every parsed tree ---- *)
Definition mem_path (p : path) (l : list path) : bool :=
  existsb (fun q => if path_dec p q then true else false) l.
Fixpoint wf_restb (ti : nat) (p : path) (seen : list path) (rest : list (path * info)) : bool :=
  match rest with
  | [] => true
  | (r, i) :: rest' =>
      negb (match r with [] => true | _ => false end) && no_hook i &&
      (if oaddr_dec (par i) (Some (ti, p ++ removelast r)) then true else false) &&
      mem_path (removelast r) seen && wf_restb ti p (r :: seen) rest'
  end.
Fixpoint nodupb (l : list path) : bool :=
  match l with [] => true | x :: l' => negb (mem_path x l') && nodupb l' end.
Definition wf_treeb (ti : nat) (t : tree) : bool :=
  match t with
  | ([], i0) :: rest =>
      no_hook i0 && (match par i0 with None => true | Some pa => Nat.ltb (fst pa) ti end) &&
      wf_restb ti [] [[]] rest && nodupb (map fst t)
  | _ => false
  end.

(* ---- the edit API ---------------------------------------------------------------- *)
Inductive op :=
| DeepCopy (a : addr)                       (* copy.deepcopy(tree) / find_class(copy=True) *)
| AddClass (a : addr) (k : key) (d : cdata) (* ast.py:810 add_class of a new class *)
| RmClass (a : addr) (k : key)              (* ast.py:819 remove_class *)
| SetData (a : addr) (d : cdata)            (* add/remove_symbol, add/remove_equation: new content *)
| AddTree (a : addr) (k : key) (ents : list (path * cdata)).
    (* ast.py:810 add_class of a class OBTAINED ELSEWHERE (find_class(copy=True) / copy.deepcopy of a class
       of another tree or package) together with the classes it owns: ents = (path relative to the added
       class, content), root first; a same-named class of the target is replaced.  The content is a
       parameter of the op: the effect is confined to the target tree. *)

Definition op_tree (o : op) : nat :=
  match o with DeepCopy a => fst a | AddClass a _ _ => fst a | RmClass a _ => fst a | SetData a _ => fst a
  | AddTree a _ _ => fst a end.

Definition is_some {A} (o : option A) : bool := match o with Some _ => true | None => false end.

Definition apply_op (fl : flags) (w : world) (o : op) : world :=
  match o with
  | DeepCopy a => match deepcopy fl w a with Some w' => w' | None => w end
  | AddClass a k d =>
      (* self.classes[c.name] = c; c.parent = self   (new name: appended) *)
      if is_some (get w a) && negb (is_some (get w (fst a, snd a ++ [k])))
      then upd_tree w (fst a) (fun t => t ++ [(snd a ++ [k], Info d (Some a) None)])
      else w
  | RmClass a k =>
      (* del self.classes[c.name]: the class and everything it owns leave the tree *)
      upd_tree w (fst a) (fun t => filter (fun e => negb (is_some (strip (snd a ++ [k]) (fst e)))) t)
  | SetData a d =>
      upd_tree w (fst a) (fun t => map (fun e => if path_dec (fst e) (snd a)
                                                then (fst e, Info d (par (snd e)) (hk (snd e))) else e) t)
  | AddTree a k ents =>
      (* self.classes[c.name] = c (replacing); c.parent = self; the owned classes come along *)
      if is_some (get w a) then
        upd_tree w (fst a) (fun t =>
          let t' := filter (fun e => negb (is_some (strip (snd a ++ [k]) (fst e)))) t ++
                    map (fun e => (snd a ++ k :: fst e,
                                   Info (snd e) (Some (fst a, removelast (snd a ++ k :: fst e))) None)) ents in
          if wf_treeb (fst a) t' then t' else t)       (* ents must be a class tree: root first, owners first *)
      else w
  end.

Definition run (fl : flags) (ops : list op) (w : world) : world := fold_left (apply_op fl) ops w.

(* ---- observation compared with the real object graph ------------------------------ *)
(* an address whose object has left every live tree (its owner was removed) is reported by the
   extraction as "dangling": compare modulo that *)
Definition dangling : addr := (9999, []).
Definition canon (w : world) (o : option addr) : option addr :=
  match o with
  | Some a => if is_some (get w a) then Some a else Some dangling
  | None => None
  end.

Definition info_eqb (w : world) (x y : info) : bool :=
  (if cdata_dec (dat x) (dat y) then true else false) &&
  (if oaddr_dec (canon w (par x)) (par y) then true else false) &&
  (if oaddr_dec (canon w (hk x)) (hk y) then true else false).

Definition tree_matches (w : world) (t : tree) (o : list (path * info)) : bool :=
  Nat.eqb (length t) (length o) &&
  forallb (fun e => match assoc (fst e) t with Some i => info_eqb w i (snd e) | None => false end) o.

Fixpoint trees_match (w : world) (ts : list tree) (o : list (list (path * info))) : bool :=
  match ts, o with
  | [], [] => true
  | t :: ts', ot :: o' => tree_matches w t ot && trees_match w ts' o'
  | _, _ => false
  end.
Definition world_matches (w : world) (o : list (list (path * info))) : bool := trees_match w w o.

Fixpoint check_trace (fl : flags) (w : world) (ops : list op) (obs : list (list (list (path * info)))) : bool :=
  match ops, obs with
  | [], [] => true
  | o :: ops', ob :: obs' => let w' := apply_op fl w o in world_matches w' ob && check_trace fl w' ops' obs'
  | _, _ => false
  end.

(* a case: flags read from the source, the parsed tree, the ops, the world observed after each op *)
Definition check_case (c : (bool * bool) * tree * list op * list (list (list (path * info)))) : bool :=
  let '(f, t0, ops, obs) := c in wf_treeb 0 t0 && check_trace (Flags (fst f) (snd f)) [t0] ops obs.
