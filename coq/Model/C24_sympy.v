(* C24 — executable model of src/pymoca/backends/sympy/generator.py (SympyGenerator):
   name mangling (lines 13, 180-194), expression / equation printing (158-178, 196-199),
   the classification loop of exitClass (47-82); plus a reader for the printed Python
   (token level, Python's operator precedence) and exact evaluators for both sides.
   Strings are [list ascii].  No proofs here: the model must keep running when a proof breaks. *)
From Coq Require Import List String Ascii Bool Arith QArith Qcanon.
Import ListNotations.
Close Scope Q_scope.
Close Scope Qc_scope.
Open Scope nat_scope.
Open Scope list_scope.

Definition str := list ascii.
Definition s_ (s : string) : str := list_ascii_of_string s.
Arguments s_ _%string.

Fixpoint str_eqb (a b : str) : bool :=
  match a, b with
  | [], [] => true
  | x :: a', y :: b' => Ascii.eqb x y && str_eqb a' b'
  | _, _ => false
  end.
Definition mem (x : str) (l : list str) : bool := existsb (str_eqb x) l.

Fixpoint join (sep : str) (l : list str) : str :=
  match l with
  | [] => []
  | [x] => x
  | x :: r => x ++ sep ++ join sep r
  end.

(* ---------------------------------------------------------------------------
   str.format for the "{key:s}" subset: every replacement field is looked up by the
   text before ':' (the empty key is the single positional argument). *)
Fixpoint drop_spec (k : str) : str :=
  match k with [] => [] | c :: r => if Ascii.eqb c ":" then [] else c :: drop_spec r end.
Fixpoint lookup (k : str) (env : list (str * str)) : str :=
  match env with [] => [] | (k', v) :: r => if str_eqb k k' then v else lookup k r end.
Fixpoint fmt_go (f : str) (key : option str) (env : list (str * str)) : str :=
  match f with
  | [] => []
  | c :: r =>
    match key with
    | None => if Ascii.eqb c "{" then fmt_go r (Some []) env else c :: fmt_go r None env
    | Some k => if Ascii.eqb c "}" then lookup (drop_spec k) env ++ fmt_go r None env
                else fmt_go r (Some (k ++ [c])) env
    end
  end.
Definition fmt (f : string) (env : list (str * str)) : str := fmt_go (s_ f) None env.

(* the format strings, verbatim (checked against the source on every run: run/C24/Tie_C24.v) *)
Definition FMT_DER  : string := "sympy.sympify({var:s}).diff(self.t)".               (* generator.py:162 *)
Definition FMT_BIN  : string := "({left:s}) {op:s} ({right:s})".        (* generator.py:164 *)
Definition FMT_UN   : string := "{op:s} ({expr:s})".                    (* generator.py:170 *)
Definition FMT_CALL : string := "{tree.operator.name:s}({operand_src:s})". (* generator.py:173 *)
Definition FMT_PRIM : string := "{:s}".                                 (* generator.py:178 *)
Definition FMT_EQ   : string := "{left:s} - ({right:s})".               (* generator.py:197 *)
Definition SEP_ARGS : string := ",".                                    (* generator.py:172 *)
Definition SEP_LIST : string := ", ".                                   (* generator.py:77-82 *)
Definition POW_PY   : string := "**".                                   (* generator.py:165 *)

(* BUILTINS = dir(__builtins__) + ["psi"] as EVALUATED in the imported module (there
   __builtins__ is a dict, so these are the attribute names of dict), generator.py:13.
   Regenerated from the running implementation and compared on every run. *)
Definition BUILTINS0 : list str := map s_
  [ "__class__"; "__class_getitem__"; "__contains__"; "__delattr__"; "__delitem__"; "__dir__";
    "__doc__"; "__eq__"; "__format__"; "__ge__"; "__getattribute__"; "__getitem__";
    "__getstate__"; "__gt__"; "__hash__"; "__init__"; "__init_subclass__"; "__ior__";
    "__iter__"; "__le__"; "__len__"; "__lt__"; "__ne__"; "__new__"; "__or__"; "__reduce__";
    "__reduce_ex__"; "__repr__"; "__reversed__"; "__ror__"; "__setattr__"; "__setitem__";
    "__sizeof__"; "__str__"; "__subclasshook__"; "clear"; "copy"; "fromkeys"; "get"; "items";
    "keys"; "pop"; "popitem"; "setdefault"; "update"; "values"; "psi" ]%string.

(* ---------------------------------------------------------------------------
   name mangling *)
(* tree.name.replace(".", "__"), generator.py:182/191 *)
Fixpoint repl (n : str) : str :=
  match n with
  | [] => []
  | c :: r => if Ascii.eqb c "." then "_"%char :: "_"%char :: repl r else c :: repl r
  end.
(* while name in BUILTINS: name = name + "_"  (generator.py:183-184/192-193).  Every pass makes
   the name longer, so it is a different element of B each time: S (length B) passes suffice. *)
Fixpoint bump (fuel : nat) (B : list str) (n : str) : str :=
  match fuel with
  | 0 => n
  | S f => if mem n B then bump f B (n ++ ["_"%char]) else n
  end.
Definition sym_name (B : list str) (n : str) : str := bump (S (List.length B)) B (repl n). (* exitSymbol *)
Definition TIME : str := s_ "time".
Definition SELF_T : str := s_ "self.t".
Definition ref_name (B : list str) (n : str) : str :=                                  (* exitComponentRef *)
  let m := sym_name B n in if str_eqb m TIME then SELF_T else m.

(* ---------------------------------------------------------------------------
   flat expressions (pymoca.ast after tree.flatten) *)
Inductive binop := Add | Sub | Mul | Div | Pow.
Inductive expr :=
| EVar (n : str)                      (* ast.ComponentRef, flat name ("time" = the builtin) *)
| ESym (n : str)                      (* ast.Symbol as the left side of a value equation *)
| ENum (lit : str) (v : Qc)           (* ast.Primary: str(value) and its value *)
| EBin (o : binop) (l r : expr)
| EUn (neg : bool) (e : expr)         (* unary - / + *)
| EDer (e : expr)
| ECall (f : str) (args : list expr).

Definition op_modelica (o : binop) : str :=
  match o with Add => s_ "+" | Sub => s_ "-" | Mul => s_ "*" | Div => s_ "/" | Pow => s_ "^" end.
(* op if op != "^" else "**" *)
Definition op_py (o : binop) : str :=
  if str_eqb (op_modelica o) (s_ "^") then s_ POW_PY else op_modelica o.
Definition un_py (neg : bool) : str := if neg then s_ "-" else s_ "+".

(* exitExpression / exitPrimary / exitComponentRef / exitSymbol *)
Fixpoint print (B : list str) (e : expr) : str :=
  match e with
  | EVar n => ref_name B n
  | ESym n => sym_name B n
  | ENum lit _ => fmt FMT_PRIM [([], lit)]
  | EBin o l r => fmt FMT_BIN [(s_ "op", op_py o); (s_ "left", print B l); (s_ "right", print B r)]
  | EUn neg a => fmt FMT_UN [(s_ "op", un_py neg); (s_ "expr", print B a)]
  | EDer a => fmt FMT_DER [(s_ "var", print B a)]
  | ECall f args => fmt FMT_CALL [(s_ "tree.operator.name", f);
                                  (s_ "operand_src", join (s_ SEP_ARGS) (map (print B) args))]
  end.
(* exitEquation *)
Definition print_eq (B : list str) (l r : expr) : str :=
  fmt FMT_EQ [(s_ "left", print B l); (s_ "right", print B r)].

(* ---------------------------------------------------------------------------
   classification (exitClass, generator.py:47-82).  A symbol = (flat name, prefixes),
   the list is already sorted by Symbol.order. *)
Definition symb : Type := str * list str.
Definition picks (p : str) (s : symb) : list symb :=
  flat_map (fun q => if str_eqb q p then [s] else []) (snd s).
Definition by_prefix (p : str) (syms : list symb) : list symb := flat_map (picks p) syms.
Definition in_names (s : symb) (l : list symb) : bool := mem (fst s) (map fst l).
Record lists := Lists { l_x : list symb; l_u : list symb; l_y : list symb;
                        l_c : list symb; l_p : list symb; l_v : list symb }.
Definition classify (syms : list symb) : lists :=
  let states := by_prefix (s_ "state") syms in
  let outputs := by_prefix (s_ "output") syms in
  let variables := filter (fun s => match snd s with [] => true | _ => false end) syms in
  Lists states (by_prefix (s_ "input") syms) outputs
        (by_prefix (s_ "constant") syms) (by_prefix (s_ "parameter") syms)
        (variables ++ filter (fun s => negb (in_names s states)) outputs).
Definition list_str (B : list str) (l : list symb) : str :=
  join (s_ SEP_LIST) (map (fun s => sym_name B (fst s)) l).

(* ---------------------------------------------------------------------------
   the printed form as tokens (same templates; TSp = the blanks of the format strings) *)
Inductive tok :=
| TLp | TRp | TSp | TComma
| TOp (o : binop)                     (* + - * / **  (also the unary signs) *)
| TDiff                               (* the trailer .diff(self.t) *)
| TSelfT                              (* self.t *)
| TName (s : str)
| TNum (lit : str) (v : Qc)
| TSympify.                           (* sympy.sympify : opens the der() argument together with ( *)

Fixpoint joint (sep : list tok) (l : list (list tok)) : list tok :=
  match l with
  | [] => []
  | [x] => x
  | x :: r => x ++ sep ++ joint sep r
  end.

Fixpoint print_tok (B : list str) (e : expr) : list tok :=
  match e with
  | EVar n => let m := sym_name B n in if str_eqb m TIME then [TSelfT] else [TName m]
  | ESym n => [TName (sym_name B n)]
  | ENum lit v => [TNum lit v]
  | EBin o l r => [TLp] ++ print_tok B l ++ [TRp; TSp; TOp o; TSp; TLp] ++ print_tok B r ++ [TRp]
  | EUn neg a => [TOp (if neg then Sub else Add); TSp; TLp] ++ print_tok B a ++ [TRp]
  | EDer a => [TSympify; TLp] ++ print_tok B a ++ [TRp; TDiff]
  | ECall f args => [TName f; TLp] ++ joint [TComma] (map (print_tok B) args) ++ [TRp]
  end.
Definition print_tok_eq (B : list str) (l r : expr) : list tok :=
  print_tok B l ++ [TSp; TOp Sub; TSp; TLp] ++ print_tok B r ++ [TRp].

Definition spell (t : tok) : str :=
  match t with
  | TLp => s_ "(" | TRp => s_ ")" | TSp => s_ " " | TComma => s_ ","
  | TOp o => op_py o
  | TDiff => s_ ".diff(self.t)"
  | TSelfT => SELF_T
  | TName s => s
  | TNum lit _ => lit
  | TSympify => s_ "sympy.sympify"
  end.
Definition render (ts : list tok) : str := flat_map spell ts.
Definition strip (ts : list tok) : list tok :=
  filter (fun t => match t with TSp => false | _ => true end) ts.

(* ---------------------------------------------------------------------------
   reader: Python's expression grammar restricted to the printed subset
     expr   : term (('+'|'-') term)* ;  term : factor (('*'|'/') factor)*
     factor : ('+'|'-') factor | power ;  power : primary ['**' factor]
     primary: atom trailer* ;  atom : NAME | NUMBER | self.t | NAME '(' args ')' | '(' expr ')'
   by precedence climbing on explicit fuel. *)
Inductive pexpr :=
| PName (s : str) | PNum (lit : str) (v : Qc) | PSelfT
| PBin (o : binop) (a b : pexpr) | PUn (neg : bool) (a : pexpr)
| PDiff (a : pexpr) | PCall (f : str) (args : list pexpr)
| PWrap (a : pexpr).                  (* sympy.sympify(a): same meaning as a *)

Definition binlvl (o : binop) : option nat :=
  match o with Add | Sub => Some 1 | Mul | Div => Some 2 | Pow => None end.

(* trailers *)
Fixpoint ptr (acc : pexpr) (ts : list tok) : pexpr * list tok :=
  match ts with TDiff :: r => ptr (PDiff acc) r | _ => (acc, ts) end.

(* power: primary ['**' factor]; [f] reads the factor *)
Definition ppow (f : list tok -> option (pexpr * list tok)) (x : option (pexpr * list tok))
  : option (pexpr * list tok) :=
  match x with
  | Some (a, TOp Pow :: r) => match f r with Some (b, r') => Some (PBin Pow a b, r') | None => None end
  | _ => x
  end.

Fixpoint pu (n : nat) (ts : list tok) {struct n} : option (pexpr * list tok) :=   (* factor *)
  match n with 0 => None | S n =>
    match ts with
    | TOp Sub :: r => match pu n r with Some (a, r') => Some (PUn true a, r') | None => None end
    | TOp Add :: r => match pu n r with Some (a, r') => Some (PUn false a, r') | None => None end
    | _ => ppow (pu n) (pa n ts)
    end
  end
with pa (n : nat) (ts : list tok) {struct n} : option (pexpr * list tok) :=       (* primary *)
  match n with 0 => None | S n =>
    match ts with
    | TNum l v :: r => Some (ptr (PNum l v) r)
    | TSelfT :: r => Some (ptr PSelfT r)
    | TName f :: TLp :: r =>
        match pargs n r with Some (args, r') => Some (ptr (PCall f args) r') | None => None end
    | TName x :: r => Some (ptr (PName x) r)
    | TLp :: r => match pe n 1 r with Some (a, TRp :: r') => Some (ptr a r') | _ => None end
    | TSympify :: TLp :: r =>
        match pe n 1 r with Some (a, TRp :: r') => Some (ptr (PWrap a) r') | _ => None end
    | _ => None
    end
  end
with pe (n : nat) (lvl : nat) (ts : list tok) {struct n} : option (pexpr * list tok) :=
  match n with 0 => None | S n =>
    match pu n ts with Some (a, r) => pl n lvl a r | None => None end
  end
with pl (n : nat) (lvl : nat) (acc : pexpr) (ts : list tok) {struct n} : option (pexpr * list tok) :=
  match n with 0 => None | S n =>
    match ts with
    | TOp o :: r =>
        match binlvl o with
        | Some p => if lvl <=? p
                    then match pe n (S p) r with
                         | Some (b, r') => pl n lvl (PBin o acc b) r'
                         | None => None
                         end
                    else Some (acc, ts)
        | None => Some (acc, ts)
        end
    | _ => Some (acc, ts)
    end
  end
with pargs (n : nat) (ts : list tok) {struct n} : option (list pexpr * list tok) :=
  match n with 0 => None | S n =>
    match ts with
    | TRp :: r => Some ([], r)
    | _ => match pe n 1 ts with
           | Some (a, TComma :: r) =>
               match pargs n r with Some (l, r') => Some (a :: l, r') | None => None end
           | Some (a, TRp :: r) => Some ([a], r)
           | _ => None
           end
    end
  end.

(* whole-input reader *)
Definition py_parse (n : nat) (ts : list tok) : option pexpr :=
  match pe n 1 (strip ts) with Some (a, []) => Some a | _ => None end.

(* ---------------------------------------------------------------------------
   evaluation in DUAL numbers (value, time derivative): every quantity carries its derivative, der(e)
   of an arbitrary expression is the derivative component (sum / product / quotient rules), and the
   printed (e).diff(self.t) is evaluated the same way.  [powf] and [callf] (sin, cos, ...) are
   uninterpreted on duals and applied identically on both sides; division by zero = None; der()
   nested inside der() (second derivatives) is not modelled (None on both sides). *)
Definition dual : Type := (Qc * Qc)%type.

Fixpoint pdiff_free (e : pexpr) : bool :=
  match e with
  | PDiff _ => false
  | PBin _ a b => pdiff_free a && pdiff_free b
  | PUn _ a => pdiff_free a
  | PCall _ args => forallb pdiff_free args
  | PWrap a => pdiff_free a
  | _ => true
  end.
Fixpoint der_free (e : expr) : bool :=
  match e with
  | EDer _ => false
  | EBin _ a b => der_free a && der_free b
  | EUn _ a => der_free a
  | ECall _ args => forallb der_free args
  | _ => true
  end.

Section Sem.
  Variable powf : dual -> dual -> option dual.
  Variable callf : str -> list dual -> option dual.

  Definition bin_sem (o : binop) (a b : dual) : option dual :=
    match o with
    | Add => Some (fst a + fst b, snd a + snd b)
    | Sub => Some (fst a - fst b, snd a - snd b)
    | Mul => Some (fst a * fst b, snd a * fst b + fst a * snd b)
    | Div => if Qc_eq_dec (fst b) 0 then None
             else Some (fst a / fst b, (snd a * fst b - fst a * snd b) / (fst b * fst b))
    | Pow => powf a b
    end%Qc.
  Definition un_sem (neg : bool) (a : dual) : dual := if neg then (- fst a, - snd a)%Qc else a.
  Definition obind {A B} (x : option A) (f : A -> option B) : option B :=
    match x with Some a => f a | None => None end.
  Fixpoint oseq {A} (l : list (option A)) : option (list A) :=
    match l with
    | [] => Some []
    | x :: r => obind x (fun a => obind (oseq r) (fun l' => Some (a :: l')))
    end.
  (* the value of der(e) is the derivative component of e; its own derivative is not tracked *)
  Definition der_of (d : dual) : dual := (snd d, 0%Qc).

  (* Python side: values of identifiers, of their time derivatives, and of self.t *)
  Record penv := PEnv { p_var : str -> Qc; p_der : str -> Qc; p_t : Qc }.
  Fixpoint peval (E : penv) (e : pexpr) : option dual :=
    match e with
    | PName s => Some (p_var E s, p_der E s)
    | PNum _ v => Some (v, 0%Qc)
    | PSelfT => Some (p_t E, 1%Qc)
    | PBin o a b => obind (peval E a) (fun x => obind (peval E b) (fun y => bin_sem o x y))
    | PUn neg a => obind (peval E a) (fun x => Some (un_sem neg x))
    | PDiff a => if pdiff_free a then obind (peval E a) (fun d => Some (der_of d)) else None
    | PCall f args => obind (oseq (map (peval E) args)) (callf f)
    | PWrap a => peval E a
    end.

  (* Modelica side: flat names; [m_decl_time] = the model declares a component called "time" *)
  Record menv := MEnv { m_var : str -> Qc; m_der : str -> Qc; m_t : Qc; m_decl_time : bool }.
  Definition is_time (M : menv) (n : str) : bool := str_eqb n TIME && negb (m_decl_time M).
  Fixpoint m_eval (M : menv) (e : expr) : option dual :=
    match e with
    | EVar n => Some (if is_time M n then (m_t M, 1%Qc) else (m_var M n, m_der M n))
    | ESym n => Some (m_var M n, m_der M n)
    | ENum _ v => Some (v, 0%Qc)
    | EBin o a b => obind (m_eval M a) (fun x => obind (m_eval M b) (fun y => bin_sem o x y))
    | EUn neg a => obind (m_eval M a) (fun x => Some (un_sem neg x))
    | EDer a => if der_free a then obind (m_eval M a) (fun d => Some (der_of d)) else None
    | ECall f args => obind (oseq (map (m_eval M) args)) (callf f)
    end.
  (* the residual lhs - rhs (value component) *)
  Definition m_eval_eq (M : menv) (l r : expr) : option Qc :=
    obind (m_eval M l) (fun x => obind (m_eval M r) (fun y => Some (fst x - fst y)%Qc)).

  (* the Modelica environment a Python environment induces through the mangling *)
  Definition pull (B : list str) (E : penv) (decl_time : bool) : menv :=
    MEnv (fun n => p_var E (sym_name B n)) (fun n => p_der E (sym_name B n)) (p_t E) decl_time.
End Sem.

(* ---------------------------------------------------------------------------
   correspondence case: what the generator was given (evaluated BUILTINS, flat symbols in
   Symbol.order, flat equations) and what it emitted (the six list strings x u y c p v and the
   equation lines). *)
Definition case : Type :=
  (list str * list symb * list (expr * expr)) * (list str * list str).
Fixpoint all2 {A} (f : A -> A -> bool) (a b : list A) : bool :=
  match a, b with
  | [], [] => true
  | x :: a', y :: b' => f x y && all2 f a' b'
  | _, _ => false
  end.
Definition model_lists (B : list str) (syms : list symb) : list str :=
  let L := classify syms in
  map (list_str B) [l_x L; l_u L; l_y L; l_c L; l_p L; l_v L].
Definition model_eqs (B : list str) (eqs : list (expr * expr)) : list str :=
  map (fun lr => print_eq B (fst lr) (snd lr)) eqs.
Definition check_case (c : case) : bool :=
  let '((B, syms, eqs), (olists, oeqs)) := c in
  all2 str_eqb (model_lists B syms) olists && all2 str_eqb (model_eqs B eqs) oeqs
  (* and the token form spells exactly the emitted line *)
  && all2 str_eqb (map (fun lr => render (print_tok_eq B (fst lr) (snd lr))) eqs) oeqs.
