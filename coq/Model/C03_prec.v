(* C03 — executable model of how pymoca parses an expression:
     src/pymoca/Modelica.g4  rules expression / expr / primary / function_call_args (lines 408-447, 470-480)
     src/pymoca/generated/ModelicaParser.py  (ANTLR4 4.13.1 output for the left-recursive rule `expr`)
     src/pymoca/parser.py    listener exitExpr_* / exitPrimary_* / exitExpression_if (lines 344-449, 500-512)
   The lexer is not modelled: the input is the token list.
   ANTLR4 rewrites the left-recursive rule `expr` with n alternatives into a precedence-climbing loop:
     alternative i (1-based) gets precedence n-i+1 (earlier = binds tighter);
     expr[_p] : ( prefix-op expr[prec_i] | primary op primary | primary )     -- always admissible
                ( {prec_i >= _p}? op expr[prec_i + 1] )*                      -- binary alternatives
   `parse_antlr` below is that scheme driven by the TABLE of alternatives (type `table`), which the
   harness regenerates from Modelica.g4 on every run (run/C03/Gen.v).
   No proofs here: the model must keep running when a proof breaks. *)
From Coq Require Import List Arith ZArith QArith Qabs Bool.
From Coq Require String.
Notation string := String.string.
Import ListNotations.
Local Open Scope nat_scope.

(* operator symbols of rule expr (token text) *)
Inductive sym :=
  | SPlus | SMinus | SEPlus | SEMinus        (*  +  -  .+  .-  *)
  | SMul | SDiv | SEMul | SEDiv              (*  *  /  .*  ./  *)
  | SPow | SEPow                             (*  ^  .^         *)
  | SLt | SLe | SGt | SGe | SEq | SNe        (*  <  <=  >  >=  ==  <>  *)
  | SNot | SAnd | SOr.

Definition sym_idx (s : sym) : nat :=
  match s with
  | SPlus => 0 | SMinus => 1 | SEPlus => 2 | SEMinus => 3 | SMul => 4 | SDiv => 5 | SEMul => 6 | SEDiv => 7
  | SPow => 8 | SEPow => 9 | SLt => 10 | SLe => 11 | SGt => 12 | SGe => 13 | SEq => 14 | SNe => 15
  | SNot => 16 | SAnd => 17 | SOr => 18
  end.
Definition sym_eqb (a b : sym) : bool := sym_idx a =? sym_idx b.
Definition all_syms : list sym :=
  [SPlus; SMinus; SEPlus; SEMinus; SMul; SDiv; SEMul; SEDiv; SPow; SEPow; SLt; SLe; SGt; SGe; SEq; SNe; SNot; SAnd; SOr].

(* ---- the table of alternatives of rule expr (T1) ---- *)
Inductive kind := KPrefix | KBinary | KPrimBin | KAtom.
  (* KPrefix : op expr | KBinary : expr op expr | KPrimBin : primary op primary | KAtom : primary *)
Definition kind_eqb (a b : kind) : bool :=
  match a, b with KPrefix, KPrefix | KBinary, KBinary | KPrimBin, KPrimBin | KAtom, KAtom => true | _, _ => false end.
Inductive label := LSigned | LExp | LMul | LAdd | LRel | LNot | LAnd | LOr | LPrimary.
Definition label_eqb (a b : label) : bool :=
  match a, b with
  | LSigned, LSigned | LExp, LExp | LMul, LMul | LAdd, LAdd | LRel, LRel | LNot, LNot | LAnd, LAnd | LOr, LOr
  | LPrimary, LPrimary => true
  | _, _ => false
  end.
Record alt := mkAlt { a_kind : kind; a_ops : list sym; a_label : label }.
Definition table := list alt.

(* precedence of the first alternative of kind k listing s, when the alternatives left have
   precedences n, n-1, ... *)
Fixpoint lookup (k : kind) (s : sym) (t : table) (n : nat) : option (nat * label) :=
  match t with
  | [] => None
  | a :: t' => if kind_eqb (a_kind a) k && existsb (sym_eqb s) (a_ops a) then Some (n, a_label a)
               else lookup k s t' (pred n)
  end.
(* (level, label of the alternative = which listener handler fires) *)
Definition ppre (t : table) (s : sym) : option (nat * label) := lookup KPrefix s t (length t).  (* operand level of prefix op *)
Definition pbin (t : table) (s : sym) : option (nat * label) := lookup KBinary s t (length t).  (* level of binary op *)
Definition ppow (t : table) (s : sym) : option label :=
  match lookup KPrimBin s t (length t) with Some (_, l) => Some l | None => None end.

(* the table of Modelica.g4:421-430 as of the verified tree; the theorems are stated for every
   table that agrees with this one on ppre/pbin/ppow (tab_ok), run/C03/Tie_C03.v checks the
   regenerated one *)
Definition g4 : table :=
  [ mkAlt KPrefix  [SPlus; SMinus] LSigned;
    mkAlt KPrimBin [SPow; SEPow] LExp;
    mkAlt KBinary  [SMul; SDiv; SEMul; SEDiv] LMul;
    mkAlt KBinary  [SPlus; SMinus; SEPlus; SEMinus] LAdd;
    mkAlt KBinary  [SLt; SLe; SGt; SGe; SEq; SNe] LRel;
    mkAlt KPrefix  [SNot] LNot;
    mkAlt KBinary  [SAnd] LAnd;
    mkAlt KBinary  [SOr] LOr;
    mkAlt KAtom    [] LPrimary ].

Definition opt_nl_eqb (a b : option (nat * label)) : bool :=
  match a, b with Some (x, l), Some (y, m) => (x =? y) && label_eqb l m | None, None => true | _, _ => false end.
Definition opt_l_eqb (a b : option label) : bool :=
  match a, b with Some l, Some m => label_eqb l m | None, None => true | _, _ => false end.
Definition tab_ok (t : table) : bool :=
  forallb (fun s => opt_nl_eqb (ppre t s) (ppre g4 s) && opt_nl_eqb (pbin t s) (pbin g4 s)
                    && opt_l_eqb (ppow t s) (ppow g4 s)) all_syms.

Definition alt_eqb (a b : alt) : bool :=
  kind_eqb (a_kind a) (a_kind b) && label_eqb (a_label a) (a_label b)
  && (length (a_ops a) =? length (a_ops b))
  && forallb (fun p => sym_eqb (fst p) (snd p)) (combine (a_ops a) (a_ops b)).
Definition table_eqb (a b : table) : bool :=
  (length a =? length b) && forallb (fun p => alt_eqb (fst p) (snd p)) (combine a b).

(* ---- literals (parser.py:431-449) ---- *)
Definition digits := list nat.                       (* decimal digits, most significant first *)
Definition horner (ds : digits) : N := fold_left (fun a d => (10 * a + N.of_nat d)%N) ds 0%N.
(* UNSIGNED_NUMBER text: integer digits, optional '.' digits*, optional e[+-]digits *)
Record numtok := mkNum { n_int : digits; n_frac : option digits; n_exp : option (bool * digits) }.  (* bool: negative exponent *)
Inductive value := VInt (n : N) | VReal (q : Q) | VBool (b : bool) | VStr (s : string).
Definition exp_of (e : option (bool * digits)) : Z :=
  match e with None => 0%Z | Some (neg, ds) => if neg then (- Z.of_N (horner ds))%Z else Z.of_N (horner ds) end.
(* exitPrimary_unsigned_number: int(text) succeeds exactly when the text is all digits; else float(text)
   (modelled as the exact decimal value, binary64 rounding is not modelled) *)
Definition num_value (n : numtok) : value :=
  match n_frac n, n_exp n with
  | None, None => VInt (horner (n_int n))
  | fr, ex =>
      let fd := match fr with Some d => d | None => [] end in
      VReal (Qmult (inject_Z (Z.of_N (horner (n_int n ++ fd))))
                   (Qpower (10 # 1) (exp_of ex - Z.of_nat (length fd))))
  end.
(* exitPrimary_string: val[1:-1], escape sequences are NOT decoded (kept raw) *)
Definition str_value (raw : string) : value := VStr raw.


(* ---- the listener table (T2): what parser.py's exit* handlers do, re-read from the source on every run ---- *)
Inductive opsrc := OpText | OpLit (s : sym).       (* operator=ctx.op.text  |  operator="not"/"and"/"or" *)
Inductive accessor := AccExpr | AccPrimary.        (* operands from ctx.expr() | ctx.primary() *)
Record lrow := mkRow { r_label : label; r_op : opsrc; r_acc : accessor; r_rev : bool (* operands reversed *) }.
Definition pslice := (option Z * option Z * option Z)%type.     (* a Python slice [a:b:c] *)
Inductive numconv := NumIntThenFloat | NumFloat.    (* try int(text) except ValueError: float(text)  |  float(text) *)
Record ltable := mkLt {
  lt_rows : list lrow;                 (* exitExpr_signed/exp/mul/add/rel/not/and/or *)
  lt_if_conds : pslice;                (* conditions  = all_expr[:-1:2] *)
  lt_if_blocks1 : pslice;              (* expressions = all_expr[1::2] + ... *)
  lt_if_blocks2 : pslice;              (*               ... + all_expr[-1:]  *)
  lt_num : numconv;                    (* exitPrimary_unsigned_number *)
  lt_str : pslice;                     (* exitPrimary_string: val[1:-1] *)
  lt_pass : bool                       (* exitExpr_primary, exitExpression_simple, exitSimple_expression (1 expr),
                                          exitPrimary_output_expression_list (1 element) pass the child through *)
}.
Definition std_lt : ltable :=
  mkLt [ mkRow LSigned OpText AccExpr false; mkRow LExp OpText AccPrimary false; mkRow LMul OpText AccExpr false;
         mkRow LAdd OpText AccExpr false; mkRow LRel OpText AccExpr false; mkRow LNot (OpLit SNot) AccExpr false;
         mkRow LAnd (OpLit SAnd) AccExpr false; mkRow LOr (OpLit SOr) AccExpr false ]
       (None, Some (-1)%Z, Some 2%Z) (Some 1%Z, None, Some 2%Z) (Some (-1)%Z, None, None)
       NumIntThenFloat (Some 1%Z, Some (-1)%Z, None) true.

Fixpoint find_row (l : label) (rs : list lrow) : option lrow :=
  match rs with [] => None | r :: rs' => if label_eqb (r_label r) l then Some r else find_row l rs' end.
Definition op_of (lt : ltable) (l : label) (s : sym) : sym :=
  match find_row l (lt_rows lt) with Some (mkRow _ (OpLit s') _ _) => s' | _ => s end.
Definition rev_of (lt : ltable) (l : label) : bool :=
  match find_row l (lt_rows lt) with Some r => r_rev r | None => false end.

(* Python slicing l[a:b:c] for a positive step *)
Definition snorm (len d : Z) (o : option Z) : Z :=
  match o with None => d | Some z => if (z <? 0)%Z then Z.max 0 (len + z) else Z.min z len end.
Fixpoint everyk {A} (k i : nat) (l : list A) : list A :=
  match l with [] => [] | x :: r => if i =? 0 then x :: everyk k (pred k) r else everyk k (pred i) r end.
Definition pyslice {A} (s : pslice) (l : list A) : list A :=
  let '(a, b, c) := s in
  let len := Z.of_nat (length l) in
  let k := match c with None => 1 | Some z => Z.to_nat z end in
  if k =? 0 then [] else
  let lo := Z.to_nat (snorm len 0%Z a) in
  let hi := Z.to_nat (snorm len len b) in
  everyk k 0 (firstn (hi - lo) (skipn lo l)).
Definition oz_eqb (a b : option Z) : bool :=
  match a, b with Some x, Some y => Z.eqb x y | None, None => true | _, _ => false end.
Definition pslice_eqb (a b : pslice) : bool :=
  let '(a1, a2, a3) := a in let '(b1, b2, b3) := b in oz_eqb a1 b1 && oz_eqb a2 b2 && oz_eqb a3 b3.

(* table-driven conversions; with the standard entries they ARE num_value / str_value (by computation) *)
Definition num_value_lt (lt : ltable) (n : numtok) : value :=
  match lt_num lt with
  | NumIntThenFloat => num_value n
  | NumFloat => let fd := match n_frac n with Some d => d | None => [] end in
                VReal (Qmult (inject_Z (Z.of_N (horner (n_int n ++ fd))))
                             (Qpower (10 # 1) (exp_of (n_exp n) - Z.of_nat (length fd))))
  end.
Definition dq : Ascii.ascii := Ascii.ascii_of_nat 34.
Definition str_value_lt (lt : ltable) (raw : string) : value :=
  if pslice_eqb (lt_str lt) (lt_str std_lt) then str_value raw
  else VStr (String.string_of_list_ascii
               (pyslice (lt_str lt) (dq :: String.list_ascii_of_string raw ++ [dq]))).

(* ---- tokens and trees ---- *)
Inductive tok :=
  | TId (x : positive) | TNum (n : numtok) | TStr (raw : string) | TTrue | TFalse
  | TSym (s : sym) | TLp | TRp | TComma | TIf | TThen | TElseif | TElse | TDer.

Inductive fname := FDer | FName (x : positive).
Inductive expr :=
  | Var (x : positive)                          (* ast.ComponentRef *)
  | Lit (v : value)                             (* ast.Primary *)
  | Un (o : sym) (e : expr)                     (* ast.Expression, 1 operand *)
  | Bin (o : sym) (l r : expr)                  (* ast.Expression, 2 operands *)
  | Call (f : fname) (args : list expr)         (* ast.Expression(operator = ComponentRef | "der") *)
  | IfE (conds blocks : list expr).             (* ast.IfExpression *)

Fixpoint every2 {A} (l : list A) : list A :=      (* l[::2] *)
  match l with a :: _ :: r => a :: every2 r | [a] => [a] | [] => [] end.
Definition last1 {A} (l : list A) : list A := match rev l with a :: _ => [a] | [] => [] end.  (* l[-1:] *)
(* exitExpression_if, parser.py:360-366 *)
Definition mk_if (all : list expr) : expr :=
  IfE (every2 (removelast all)) (every2 (tl all) ++ last1 all).

Definition mk_if_lt (lt : ltable) (all : list expr) : expr :=
  if pslice_eqb (lt_if_conds lt) (lt_if_conds std_lt) && pslice_eqb (lt_if_blocks1 lt) (lt_if_blocks1 std_lt)
     && pslice_eqb (lt_if_blocks2 lt) (lt_if_blocks2 std_lt)
  then mk_if all
  else IfE (pyslice (lt_if_conds lt) all) (pyslice (lt_if_blocks1 lt) all ++ pyslice (lt_if_blocks2 lt) all).
(* exitExpr_signed / exitExpr_not;  exitExpr_exp/mul/add/rel/and/or *)
Definition build_un (lt : ltable) (l : label) (s : sym) (e : expr) : expr := Un (op_of lt l s) e.
Definition build_bin (lt : ltable) (l : label) (s : sym) (a b : expr) : expr :=
  if rev_of lt l then Bin (op_of lt l s) b a else Bin (op_of lt l s) a b.

Inductive res := RE (e : expr) | RL (l : list expr).
Inductive mode :=
  | MExpression                    (* rule expression *)
  | MIf (acc : list expr)          (* after 'if'/'elseif': expression 'then' expression ('elseif' .. | 'else' expression) *)
  | MExpr (lvl : nat)              (* rule expr[_p] *)
  | MLoop (lvl : nat) (acc : expr) (* the ( {prec >= _p}? op expr )* loop *)
  | MPrimary                       (* rule primary *)
  | MArgs (acc : list expr).       (* function_arguments, after '(' or ',' *)

Section Parser.
  Variable t : table.
  Variable lt : ltable.
  Definition R := option (res * list tok).

  (* one unfolding of the recursive-descent parser; `self` = the recursive calls *)
  Definition step (self : mode -> list tok -> R) (m : mode) (ts : list tok) : R :=
    match m with
    | MExpression =>
        match ts with
        | TIf :: r => match self (MIf []) r with
                      | Some (RL all, r') => Some (RE (mk_if_lt lt all), r')
                      | _ => None
                      end
        | _ => self (MExpr 0) ts       (* simple_expression without ':' *)
        end
    | MIf acc =>
        match self MExpression ts with
        | Some (RE c, TThen :: r1) =>
            match self MExpression r1 with
            | Some (RE b, TElseif :: r2) => self (MIf (acc ++ [c; b])) r2
            | Some (RE b, TElse :: r2) =>
                match self MExpression r2 with
                | Some (RE e, r3) => Some (RL (acc ++ [c; b; e]), r3)
                | _ => None
                end
            | _ => None
            end
        | _ => None
        end
    | MExpr lvl =>
        match ts with
        | TSym s :: r =>                                     (* expr_signed / expr_not *)
            match ppre t s with
            | Some (p, l) => match self (MExpr p) r with
                             | Some (RE e, r') => self (MLoop lvl (build_un lt l s e)) r'   (* exitExpr_signed / exitExpr_not *)
                             | _ => None
                             end
            | None => None
            end
        | _ =>
            match self MPrimary ts with
            | Some (RE a, TSym s :: r) =>
                match ppow t s with
                | Some l =>                                   (* expr_exp : primary op primary *)
                  match self MPrimary r with
                  | Some (RE b, r') => self (MLoop lvl (build_bin lt l s a b)) r'   (* exitExpr_exp *)
                  | _ => None
                  end
                | None => self (MLoop lvl a) (TSym s :: r)    (* expr_primary *)
                end
            | Some (RE a, r) => self (MLoop lvl a) r
            | _ => None
            end
        end
    | MLoop lvl acc =>
        match ts with
        | TSym s :: r =>
            match pbin t s with
            | Some (p, l) =>
                if lvl <=? p then                             (* precpred(_ctx, p) *)
                  match self (MExpr (S p)) r with
                  | Some (RE e2, r') => self (MLoop lvl (build_bin lt l s acc e2)) r'   (* exitExpr_mul/add/rel/and/or *)
                  | _ => None
                  end
                else Some (RE acc, ts)
            | None => Some (RE acc, ts)
            end
        | _ => Some (RE acc, ts)
        end
    | MPrimary =>
        match ts with
        | TNum n :: r => Some (RE (Lit (num_value_lt lt n)), r)
        | TStr s :: r => Some (RE (Lit (str_value_lt lt s)), r)
        | TTrue :: r => Some (RE (Lit (VBool true)), r)
        | TFalse :: r => Some (RE (Lit (VBool false)), r)
        | TId x :: TLp :: r =>                                (* primary_function *)
            match self (MArgs []) r with
            | Some (RL a, r') => Some (RE (Call (FName x) a), r')
            | _ => None
            end
        | TId x :: r => Some (RE (Var x), r)                  (* primary_component_reference *)
        | TDer :: TLp :: r =>                                 (* primary_derivative *)
            match self (MArgs []) r with
            | Some (RL a, r') => Some (RE (Call FDer a), r')
            | _ => None
            end
        | TLp :: r =>                                         (* primary_output_expression_list, 1 element: collapsed *)
            match self MExpression r with
            | Some (RE e, TRp :: r') => Some (RE e, r')
            | _ => None
            end
        | _ => None
        end
    | MArgs acc =>
        match self MExpression ts with
        | Some (RE e, TComma :: r) => self (MArgs (acc ++ [e])) r
        | Some (RE e, TRp :: r) => Some (RL (acc ++ [e]), r)
        | _ => None
        end
    end.

  Fixpoint run (fuel : nat) : mode -> list tok -> R :=
    match fuel with
    | 0 => fun _ _ => None
    | S f => step (run f)
    end.

  (* whole right-hand side: all tokens must be consumed *)
  Definition parse_antlr (fuel : nat) (ts : list tok) : option expr :=
    match run fuel MExpression ts with
    | Some (RE e, []) => Some e
    | _ => None
    end.
End Parser.

(* ---- observation of the real parser (serialised by vlib/impl/c03.py) ---- *)
Inductive oexpr :=
  | OVar (x : positive) | OInt (z : Z) | OReal (q : Q) | OBool (b : bool) | OStr (s : string)
  | OUn (o : sym) (e : oexpr) | OBin (o : sym) (l r : oexpr)
  | OCall (f : fname) (args : list oexpr) | OIf (conds blocks : list oexpr).

Definition fname_eqb (a b : fname) : bool :=
  match a, b with FDer, FDer => true | FName x, FName y => Pos.eqb x y | _, _ => false end.

(* a Python float x matches the exact decimal value q when |x - q| <= |q| * 2^-53
   (correct rounding in the normal range; the generators keep literals in that range) *)
Definition real_close (q x : Q) : bool :=
  Qle_bool (Qabs (x - q)) (Qabs q * (1 # 9007199254740992)).

Definition lit_matches (v : value) (o : oexpr) : bool :=
  match v, o with
  | VInt n, OInt z => Z.eqb (Z.of_N n) z
  | VReal q, OReal x => real_close q x
  | VBool a, OBool b => Bool.eqb a b
  | VStr a, OStr b => String.eqb a b
  | _, _ => false
  end.

Fixpoint matches (e : expr) (o : oexpr) {struct e} : bool :=
  let fix all2 (l : list expr) (m : list oexpr) {struct l} : bool :=
    match l, m with
    | [], [] => true
    | a :: l', b :: m' => matches a b && all2 l' m'
    | _, _ => false
    end in
  match e, o with
  | Var x, OVar y => Pos.eqb x y
  | Lit v, _ => lit_matches v o
  | Un s a, OUn s' b => sym_eqb s s' && matches a b
  | Bin s a1 a2, OBin s' b1 b2 => sym_eqb s s' && matches a1 b1 && matches a2 b2
  | Call f l, OCall g m => fname_eqb f g && all2 l m
  | IfE c b, OIf c' b' => all2 c c' && all2 b b'
  | _, _ => false
  end.

(* a correspondence case: the regenerated table, the tokens, what the real parser returned
   (None = the text was rejected / no tree) *)
Definition case := (list tok * option oexpr)%type.
Definition check_with (t : table) (lt : ltable) (c : case) : bool :=
  let '(ts, obs) := c in
  match parse_antlr t lt (S (2 * length ts) * 4) ts, obs with
  | Some e, Some o => matches e o
  | None, None => true
  | _, _ => false
  end.
