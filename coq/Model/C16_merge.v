(* C16 — executable model of the metadata merge performed while alias elimination removes
   variables: src/pymoca/backends/casadi/model.py, Model.simplify(), "Eliminate alias
   variables" loop (lines 1106-1179).
   Bounds are extended exact rationals; IEEE rounding is not modelled (the correspondence
   check feeds dyadic rationals, for which ca.fmax/ca.fmin/negation are exact).
   No proofs here: the model must keep running when a proof breaks. *)
From Coq Require Import QArith Qcanon List Bool.
Import ListNotations.

(* -np.inf | float | np.inf   (Variable.__init__: min = -inf, max = inf) *)
Inductive ext := NegInf | Fin (q : Qc) | PosInf.

Definition qleb (a b : Qc) : bool := match (a ?= b)%Qc with Gt => false | _ => true end.

Definition eleb (a b : ext) : bool :=
  match a, b with
  | NegInf, _ => true
  | _, PosInf => true
  | Fin x, Fin y => qleb x y
  | _, _ => false
  end.

(* ca.fmax / ca.fmin on a totally ordered carrier *)
Definition gmax {A} (leb : A -> A -> bool) (a b : A) : A := if leb a b then b else a.
Definition gmin {A} (leb : A -> A -> bool) (a b : A) : A := if leb a b then a else b.
Definition emax := gmax eleb.
Definition emin := gmin eleb.
Definition qmax := gmax qleb.

(* unary minus on a bound *)
Definition eopp (e : ext) : ext :=
  match e with NegInf => PosInf | PosInf => NegInf | Fin q => Fin (- q) end.

(* the five attributes the property talks about.  vstart = None is the _DefaultValue marker
   (model.py:23,37): "no start value of its own" *)
Record var := Var { vmin : ext; vmax : ext; vnom : Qc; vfixed : bool; vstart : option Qc }.

(* one element of `aliases` as the loop sees it:
   aneg        alias[0] == "-"                                             (l.1124-1128)
   ain_old     len(old_alias_relation.aliases(alias)) > 1                  (l.1118)
   aold_canon  the alias' name is in old_alias_relation.canonical_variables (l.1119)
   avar        all_states[alias]                                           (l.1130) *)
Record alias := Alias { aneg : bool; ain_old : bool; aold_canon : bool; avar : var }.

(* l.1117-1122: "We already handled this alias in a previous pass of detect_aliases" *)
Definition skipped (a : alias) : bool := ain_old a && negb (aold_canon a).

Definition sgn (neg : bool) (q : Qc) : Qc := if neg then (- q)%Qc else q.
(* alias_state.min if sign == 1 else -alias_state.max   (l.1167) *)
Definition smin (a : alias) : ext := if aneg a then eopp (vmax (avar a)) else vmin (avar a).
(* alias_state.max if sign == 1 else -alias_state.min   (l.1168) *)
Definition smax (a : alias) : ext := if aneg a then eopp (vmin (avar a)) else vmax (avar a).

(* the loop body, l.1116-1176, on the local variables (m, M, nominal, fixed, start) *)
Definition step (c : var) (a : alias) : var :=
  if skipped a then c else
  Var (emax (vmin c) (smin a))                              (* l.1167 *)
      (emin (vmax c) (smax a))                              (* l.1168 *)
      (qmax (vnom c) (vnom (avar a)))                       (* l.1171 *)
      (vfixed c || vfixed (avar a))                         (* l.1174 *)
      (match vstart c with                                  (* l.1143-1164 *)
       | Some s => Some s                                   (*   conflict only logs a warning *)
       | None => option_map (sgn (aneg a)) (vstart (avar a))(*   start = sign * alias_state.start *)
       end).

(* l.1106-1186 for one canonical variable: fold over its aliases in iteration order *)
Definition merge (c : var) (als : list alias) : var := fold_left step als c.

(* several simplify() passes seen from one canonical variable *)
Definition passes (c : var) (ps : list (list alias)) : var := fold_left merge ps c.

(* ---- correspondence: model result vs. the Variable observed after simplify() ---- *)
Definition qeqb (a b : Qc) : bool := Qeq_bool (this a) (this b).
Definition eeqb (a b : ext) : bool :=
  match a, b with
  | NegInf, NegInf | PosInf, PosInf => true
  | Fin x, Fin y => qeqb x y
  | _, _ => false
  end.
Definition oeqb (a b : option Qc) : bool :=
  match a, b with None, None => true | Some x, Some y => qeqb x y | _, _ => false end.
Definition var_eqb (a b : var) : bool :=
  eeqb (vmin a) (vmin b) && eeqb (vmax a) (vmax b) && qeqb (vnom a) (vnom b)
  && Bool.eqb (vfixed a) (vfixed b) && oeqb (vstart a) (vstart b).

(* (canonical before the pass, aliases in iteration order, canonical observed after) *)
Definition check_case (k : var * list alias * var) : bool :=
  let '(c, als, o) := k in var_eqb (merge c als) o.
