(* C02 — executable model of concurrent parse() calls on one cache database.
   src/pymoca/parser.py: _check_database_structure (836-930), parse (955-1115).
   No proofs here: the model must keep running when a proof breaks.

   A parse() call is a flat list of guarded statements (the SQL skeleton of parse with
   _check_database_structure inlined), REGENERATED from parser.py on every run by the AST probe
   of vlib/c02.py (run/C02/Gen.v) and compared with / checked like the static copy `prog_head`
   below.  Every call owns one connection; connections interact only through the lock table of
   Lib/Lock.v and through the committed database content.  A schedule is a list of call ids;
   one schedule entry = one ATTEMPT of that call's current statement:
     done      the statement ran (locks, registers, pending or committed content updated),
     blocked   it needs a lock another connection holds (busy handler: it will be retried),
     busy      SQLITE_BUSY at once (deadlock avoidance) -> the call fails with "database is locked",
     fail      the integrity check raised DatabaseError and the handler caught it,
     err       any other exception (no such table, UNIQUE constraint, FileNotFoundError, ...),
     viol      os.remove() of the database file while another call has it open.
   Since a7369f2 parse() is wrapped by _fresh_parse_on_database_error (a sqlite3.DatabaseError inside
   parse() becomes an uncached parse for the caller): `Err e` below means "raised inside parse()", which
   is what the proxied sqlite3 of the harness observes; the wrapper itself is not modelled.
   Abstractions: a database is (layout of `models`, layout of `metadata`, metadata keys
   present?, cached rows = (text id, age of last_hit in days)) or garbage; uncommitted writes live in a private view of the
   one writer; files are generations (os.remove unlinks the path, the next connect creates a new
   generation; old generations stay usable by the connections that have them open). *)
From Coq Require Import List Bool Arith.
From PV Require Import Lib.Lock.
Import ListNotations.

(* ---------------- programs ---------------- *)
Inductive tbl := TModels | TMeta.
Inductive rd :=
| RMaster (t : tbl) | RInfo (t : tbl)
| RLookup      (* SELECT ... FROM models WHERE key; the row (or None) is kept in a variable *)
| RFetch.      (* the same SELECT whose single row is unpacked at once: TypeError when there is none *)
Inductive wr :=
| WDrop (t : tbl) | WCreate (t : tbl)
| WMetaKeys                 (* INSERT OR IGNORE INTO metadata *)
| WPrune                    (* DELETE FROM models WHERE last_hit < ? *)
| WTouchMeta                (* UPDATE metadata *)
| WTouchRow                 (* UPDATE models SET last_hit *)
| WInsert (replace : bool). (* INSERT [OR REPLACE] INTO models *)

Inductive stmt :=
| SConnect
| SIntegrity (handled : bool)  (* PRAGMA integrity_check; handled: inside try/except DatabaseError *)
| SRemove
| SBegin (imm : bool)
| SRead (r : rd) (dst : nat)
| SWrite (w : wr)
| SCommit
| SClose
| SSet (r : nat) (b : bool).   (* python: name = True / False *)

Inductive cond :=
| CReg (r : nat)   (* truthiness of a python variable fed by a read / SSet *)
| CInit            (* db not yet in parse.initialized_dbs of this process *)
| CUpd             (* always_update_last_hit or last_hit < yesterday *)
| CTree            (* _parse(txt) is not None *)
| CIFail.          (* the integrity check raised and was caught *)

Inductive instr :=
| IS (s : stmt)
| IIf (c : cond) (th el : list instr).   (* python: if c: th else: el *)
Definition prog := list instr.

(* registers (python variables) *)
Definition r_mex := 0.   (* table_exists *)
Definition r_xex := 1.   (* metadata_table_exists *)
Definition r_cols := 2.  (* columns == expected_columns *)
Definition r_mok := 3.   (* table_correct *)
Definition r_xok := 4.   (* metadata_table_correct *)
Definition r_hit := 5.   (* result (lookup) *)
Definition r_stale := 6. (* last_hit < yesterday, of the row just looked up *)

(* the schema check of one table (parser.py:843-877 models, 881-912 metadata) *)
Definition schema_tx (imm : bool) (t : tbl) (rex rok : nat) : prog :=
  [ IS (SBegin imm);
    IS (SRead (RMaster t) rex);
    IS (SSet rok false);
    IIf (CReg rex)
      [ IS (SRead (RInfo t) r_cols);
        IIf (CReg r_cols) [ IS (SSet rok true) ] [ IS (SSet rok false) ] ]
      [];
    IIf (CReg rok) [] [ IS (SWrite (WDrop t)); IS (SWrite (WCreate t)) ];
    IS SCommit ].

(* parse() with the three schema transactions begun as `BEGIN IMMEDIATE` (imm = true: /repo after
   1904e3c) or `BEGIN` (imm = false: before it) *)
Definition prog_of (imm : bool) : prog :=
  [ IS SConnect;                                                          (* 1013 *)
    IIf CInit (
      [ IS (SIntegrity true);                                             (* 1019-1023 *)
        IIf CIFail [ IS SClose; IS SRemove; IS SConnect ] [] ] ++         (* 1025-1030 *)
      schema_tx imm TModels r_mex r_mok ++
      schema_tx imm TMeta r_xex r_xok ++
      [ IS (SBegin imm); IS (SWrite WMetaKeys); IS (SWrite WMetaKeys); IS SCommit;   (* 914-926 *)
        IS (SBegin false); IS (SWrite WPrune); IS (SWrite WTouchMeta); IS SCommit ]) (* 1036-1047 *)
      [];
    IS (SBegin false); IS (SRead RLookup r_hit); IS SCommit;              (* 1057-1063 *)
    IIf (CReg r_hit)
      [ IIf CUpd [ IS (SBegin false); IS (SWrite WTouchRow); IS SCommit ] [] ]   (* 1073-1082 *)
      [];
    IIf (CReg r_hit) []                                                   (* if tree is None *)
      [ IIf CTree [ IS (SBegin false); IS (SWrite (WInsert true)); IS SCommit ] [] ];  (* 1106-1111 *)
    IS SClose ].                                                          (* 1113 *)

Definition prog_head : prog := prog_of true.
Definition prog_prefix : prog := prog_of false.

(* ---------------- state ---------------- *)
Inductive tst := TMissing | TWrong | TGood.
(* a cached row: (text id, age of last_hit in days) *)
Record db := Db { d_models : tst; d_meta : tst; d_keys : bool; d_rows : list (nat * nat) }.
Definition empty_db := Db TMissing TMissing false [].

Inductive err := EBusy | ECorrupt | ESchema | EConstraint | ENested | ENoFile | ENoConn | ENoRow.
Inductive status := Run | Fin | Err (e : err).

(* p_exp = cache_expiration_days of the call *)
Record params := Par { p_text : nat; p_init : bool; p_upd : bool; p_tree : bool; p_exp : nat }.

Record thr := Thr {
  t_k : prog;               (* rest of the program; its head (if any) is the next statement *)
  t_conn : option nat;      (* generation of the open connection *)
  t_lvl : lvl;
  t_intx : bool;
  t_view : option db;       (* uncommitted content (writer only) *)
  t_regs : list (nat * bool);
  t_ifail : bool;
  t_par : params;
  t_st : status }.

Record cfg := Cfg {
  c_path : option nat;          (* generation linked at the database path *)
  c_store : list (option db);   (* content per generation; None = not a database *)
  c_thrs : list thr;
  c_viol : bool }.

(* ---------------- guards ---------------- *)
Fixpoint reg (rs : list (nat * bool)) (r : nat) : bool :=
  match rs with [] => false | (r', b) :: rs' => if Nat.eqb r r' then b else reg rs' r end.

Definition cond_val (t : thr) (c : cond) : bool :=
  match c with
  | CReg r => reg (t_regs t) r
  | CInit => p_init (t_par t)
  | CUpd => p_upd (t_par t) || reg (t_regs t) r_stale
  | CTree => p_tree (t_par t)
  | CIFail => t_ifail t
  end.

Definition set_reg (t : thr) (r : nat) (b : bool) : thr :=
  Thr (t_k t) (t_conn t) (t_lvl t) (t_intx t) (t_view t) ((r, b) :: t_regs t) (t_ifail t) (t_par t) (t_st t).
Definition set_k (t : thr) (k : prog) : thr :=
  Thr k (t_conn t) (t_lvl t) (t_intx t) (t_view t) (t_regs t) (t_ifail t) (t_par t) (t_st t).
Definition set_st (t : thr) (s : status) : thr :=
  Thr (t_k t) (t_conn t) (t_lvl t) (t_intx t) (t_view t) (t_regs t) (t_ifail t) (t_par t) s.

Definition closed (t : thr) : thr :=
  Thr (t_k t) None Unl false None (t_regs t) (t_ifail t) (t_par t) (t_st t).

(* resolve the `if`s and run the local assignments; afterwards the head of the program is the
   statement that will be attempted next, or the program is finished.  Fuel = number of nodes. *)
Fixpoint size_i (i : instr) : nat :=
  match i with
  | IS _ => 1
  | IIf _ th el => S ((fix sz (l : list instr) := match l with [] => 0 | x :: l' => size_i x + sz l' end) th
                    + (fix sz (l : list instr) := match l with [] => 0 | x :: l' => size_i x + sz l' end) el)
  end.
Fixpoint size (l : list instr) : nat := match l with [] => 0 | x :: l' => size_i x + size l' end.

Fixpoint advance_f (n : nat) (k : prog) (t : thr) : thr :=
  match k with
  | [] => set_st (set_k (closed t) []) Fin   (* parse() returns: the connection object is released *)
  | IS (SSet r b) :: k' =>
      match n with O => set_k t k | S n' => advance_f n' k' (set_reg t r b) end
  | IS _ :: _ => set_k t k
  | IIf c th el :: k' =>
      match n with O => set_k t k | S n' => advance_f n' ((if cond_val t c then th else el) ++ k') t end
  end.
Definition advance (k : prog) (t : thr) : thr := advance_f (S (size k)) k t.

(* ---------------- content ---------------- *)
Definition tget (t : tbl) (d : db) : tst := match t with TModels => d_models d | TMeta => d_meta d end.
Definition is_good (s : tst) : bool := match s with TGood => true | _ => false end.
Definition is_missing (s : tst) : bool := match s with TMissing => true | _ => false end.

Definition has_row (text : nat) (d : db) : bool := existsb (fun r => Nat.eqb text (fst r)) (d_rows d).
Definition row_stale (text : nat) (d : db) : bool :=
  existsb (fun r => Nat.eqb text (fst r) && Nat.ltb 1 (snd r)) (d_rows d).
Definition set_rows (d : db) (rs : list (nat * nat)) : db := Db (d_models d) (d_meta d) (d_keys d) rs.

Definition apply_wr (par : params) (w : wr) (d : db) : db + err :=
  let text := p_text par in
  match w with
  | WDrop TModels => inl ((Db TMissing (d_meta d) (d_keys d) []))
  | WDrop TMeta => inl ((Db (d_models d) TMissing false (d_rows d)))
  | WCreate TModels => if is_missing (d_models d) then inl ((Db TGood (d_meta d) (d_keys d) [])) else inr ESchema
  | WCreate TMeta => if is_missing (d_meta d) then inl ((Db (d_models d) TGood false (d_rows d))) else inr ESchema
  | WMetaKeys => if is_good (d_meta d) then inl ((Db (d_models d) (d_meta d) true (d_rows d))) else inr ESchema
  | WTouchMeta => if is_good (d_meta d) then inl d else inr ESchema
  | WPrune =>      (* DELETE FROM models WHERE last_hit < now - cache_expiration_days *)
      if is_good (d_models d) then inl (set_rows d (filter (fun r => Nat.leb (snd r) (p_exp par)) (d_rows d)))
      else inr ESchema
  | WTouchRow =>   (* UPDATE models SET last_hit = now WHERE key: nothing happens when the row is gone *)
      if is_good (d_models d)
      then inl (set_rows d (map (fun r => if Nat.eqb text (fst r) then (fst r, 0) else r) (d_rows d)))
      else inr ESchema
  | WInsert rep =>
      if is_good (d_models d) then
        if has_row text d then
          (if rep then inl (set_rows d ((text, 0) :: filter (fun r => negb (Nat.eqb text (fst r))) (d_rows d)))
           else inr EConstraint)
        else inl (set_rows d ((text, 0) :: d_rows d))
      else inr ESchema
  end.

Definition read_val (text : nat) (r : rd) (d : db) : bool + err :=
  match r with
  | RMaster t => inl (negb (is_missing (tget t d)))
  | RInfo t => inl (is_good (tget t d))
  | RLookup | RFetch => if is_good (d_models d) then inl (has_row text d) else inr ESchema
  end.

(* ---------------- one attempt ---------------- *)
Inductive kind := KConnect | KIntegrity | KRemove | KBeginD | KBeginI | KRead | KWrite | KCommit | KClose | KNone.
Inductive outcome := ODone | OBlocked | OBusy | OFail | OErr | OViol | OIdle | OTimeout.

Definition kind_of (s : stmt) : kind :=
  match s with
  | SConnect => KConnect | SIntegrity _ => KIntegrity | SRemove => KRemove
  | SBegin false => KBeginD | SBegin true => KBeginI
  | SRead _ _ => KRead | SWrite _ => KWrite | SCommit => KCommit | SClose => KClose | SSet _ _ => KNone
  end.

Definition opt_eqb (a b : option nat) : bool :=
  match a, b with Some x, Some y => Nat.eqb x y | _, _ => false end.

(* lock levels of the other connections on generation g *)
Fixpoint others_from (i : nat) (tid : nat) (g : nat) (ts : list thr) : list lvl :=
  match ts with
  | [] => []
  | t :: ts' =>
      (if negb (Nat.eqb i tid) && opt_eqb (t_conn t) (Some g) then [t_lvl t] else [])
      ++ others_from (S i) tid g ts'
  end.
Definition others (c : cfg) (tid g : nat) : list lvl := others_from 0 tid g (c_thrs c).

Fixpoint open_other_from (i : nat) (tid : nat) (g : nat) (ts : list thr) : bool :=
  match ts with
  | [] => false
  | t :: ts' => (negb (Nat.eqb i tid) && opt_eqb (t_conn t) (Some g)) || open_other_from (S i) tid g ts'
  end.

Fixpoint upd_nth {A} (n : nat) (x : A) (l : list A) : list A :=
  match l, n with
  | [], _ => []
  | _ :: l', O => x :: l'
  | y :: l', S n' => y :: upd_nth n' x l'
  end.

Definition content (c : cfg) (g : nat) : option db :=
  match nth_error (c_store c) g with Some (Some d) => Some d | _ => None end.

(* result of executing the head statement: new thread (before `advance`), new globals, outcome *)
Record res := Res_ { r_thr : thr; r_path : option nat; r_store : list (option db); r_viol : bool; r_out : outcome }.

Definition mk (t : thr) (c : cfg) (o : outcome) : res := Res_ t (c_path c) (c_store c) (c_viol c) o.
Definition with_lock (t : thr) (l : lvl) (intx : bool) (v : option db) : thr :=
  Thr (t_k t) (t_conn t) l intx v (t_regs t) (t_ifail t) (t_par t) (t_st t).
Definition failed (t : thr) (e : err) : thr := set_st (closed t) (Err e).
Definition pop (t : thr) : thr := set_k t (tl (t_k t)).

Definition exec (c : cfg) (tid : nat) (t : thr) (s : stmt) : res :=
  match s with
  | SSet r b => mk (pop (set_reg t r b)) c ODone
  | SConnect =>
      match c_path c with
      | Some g => mk (pop (Thr (t_k t) (Some g) Unl false None (t_regs t) (t_ifail t) (t_par t) (t_st t))) c ODone
      | None =>
          let g := length (c_store c) in
          Res_ (pop (Thr (t_k t) (Some g) Unl false None (t_regs t) (t_ifail t) (t_par t) (t_st t)))
               (Some g) (c_store c ++ [Some empty_db]) (c_viol c) ODone
      end
  | SClose => mk (pop (closed t)) c ODone
  | SRemove =>
      match c_path c with
      | None => mk (failed t ENoFile) c OErr
      | Some g =>
          (* a violation when the file is a database and another call has it open *)
          let v := open_other_from 0 tid g (c_thrs c) && (match content c g with Some _ => true | None => false end) in
          Res_ (pop t) None (c_store c) (c_viol c || v) (if v then OViol else ODone)
      end
  | _ =>
    match t_conn t with
    | None => mk (failed t ENoConn) c OErr
    | Some g =>
      let oth := others c tid g in
      match s with
      | SIntegrity handled =>
          match acquire (t_lvl t) oth (LRead (t_intx t)) with
          | Grant l =>
              match content c g with
              | Some _ => mk (pop (with_lock t l (t_intx t) (t_view t))) c ODone
              | None =>
                  if handled
                  then mk (pop (Thr (t_k t) (t_conn t) (t_lvl t) (t_intx t) (t_view t) (t_regs t) true (t_par t) (t_st t))) c OFail
                  else mk (failed t ECorrupt) c OErr
              end
          | Block _ => mk t c OBlocked
          | Busy => mk (failed t EBusy) c OBusy
          end
      | SBegin imm =>
          if t_intx t then mk (failed t ENested) c OErr
          else if imm then
            match acquire (t_lvl t) oth LBeginImm with
            | Grant l =>
                match content c g with
                | Some d => mk (pop (with_lock t l true (Some d))) c ODone
                | None => mk (failed t ECorrupt) c OErr
                end
            | Block _ => mk t c OBlocked
            | Busy => mk (failed t EBusy) c OBusy
            end
          else mk (pop (with_lock t (t_lvl t) true (t_view t))) c ODone
      | SRead r dst =>
          match acquire (t_lvl t) oth (LRead (t_intx t)) with
          | Grant l =>
              match (match t_view t with Some d => Some d | None => content c g end) with
              | None => mk (failed t ECorrupt) c OErr
              | Some d =>
                  match read_val (p_text (t_par t)) r d with
                  | inl b =>
                      let t1 := set_reg (with_lock t l (t_intx t) (t_view t)) dst b in
                      match r with
                      | RLookup => mk (pop (set_reg t1 r_stale (row_stale (p_text (t_par t)) d))) c ODone
                      | RFetch =>
                          (* the statement itself succeeds; unpacking the missing row raises TypeError *)
                          if b then mk (pop t1) c ODone else mk (failed t ENoRow) c ODone
                      | _ => mk (pop t1) c ODone
                      end
                  | inr e => mk (failed t e) c OErr
                  end
              end
          | Block _ => mk t c OBlocked
          | Busy => mk (failed t EBusy) c OBusy
          end
      | SWrite w =>
          match acquire (t_lvl t) oth (LWrite (t_intx t)) with
          | Grant l =>
              match (match t_view t with Some d => Some d | None => content c g end) with
              | None => mk (failed t ECorrupt) c OErr
              | Some d =>
                  match apply_wr (t_par t) w d with
                  | inl v =>
                      if t_intx t then mk (pop (with_lock t l true (Some v))) c ODone
                      else (* autocommit: the statement is its own transaction *)
                        Res_ (pop (with_lock t l false None)) (c_path c) (upd_nth g (Some v) (c_store c)) (c_viol c) ODone
                  | inr e => mk (failed t e) c OErr
                  end
              end
          | Block _ => mk t c OBlocked
          | Busy => mk (failed t EBusy) c OBusy
          end
      | SCommit =>
          if negb (t_intx t) then mk (pop t) c ODone
          else
            match acquire (t_lvl t) oth LCommit with
            | Grant l =>
                match t_view t with
                | Some d => Res_ (pop (with_lock t l false None)) (c_path c) (upd_nth g (Some d) (c_store c)) (c_viol c) ODone
                | None => mk (pop (with_lock t l false None)) c ODone
                end
            | Block l => mk (with_lock t l (t_intx t) (t_view t)) c OBlocked
            | Busy => mk (failed t EBusy) c OBusy
            end
      | _ => mk t c OIdle
      end
    end
  end.

Definition obs := (nat * kind * outcome)%type.

Definition step (tid : nat) (c : cfg) : cfg * obs :=
  match nth_error (c_thrs c) tid with
  | None => (c, (tid, KNone, OIdle))
  | Some t =>
      match t_st t, t_k t with
      | Run, IIf _ _ _ :: _ => (Cfg (c_path c) (c_store c) (upd_nth tid (advance (t_k t) t) (c_thrs c)) (c_viol c),
                                (tid, KNone, OIdle))
      | Run, IS s :: _ =>
          let r := exec c tid t s in
          let t' := match t_st (r_thr r), r_out r with
                    | Run, OBlocked => r_thr r
                    | Run, _ => advance (t_k (r_thr r)) (r_thr r)
                    | _, _ => r_thr r
                    end in
          (Cfg (r_path r) (r_store r) (upd_nth tid t' (c_thrs c)) (r_viol r), (tid, kind_of s, r_out r))
      | _, _ => (c, (tid, KNone, OIdle))
      end
  end.

Fixpoint run (sched : list nat) (c : cfg) : cfg * list obs :=
  match sched with
  | [] => (c, [])
  | tid :: sched' =>
      let '(c1, o) := step tid c in
      let '(c2, os) := run sched' c1 in
      (c2, o :: os)
  end.

(* ---------------- unfair schedules: an expired busy timeout ----------------
   The theorems are about `run` (a blocked statement is retried for ever).  For the correspondence and
   for the refutation of a missing busy guard, `runx` also accepts entries 100 + tid: "if this attempt
   of call tid is blocked, its busy timeout expires now" - the statement raises "database is locked"
   after having waited.  `guard` = the handler of the integrity check re-raises a busy error after
   conn.close() (parser.py 1043-1045; recognised by the probe); without it the time-out is taken for
   corruption and the handler goes on to os.remove.  Any other statement that times out fails the call
   (the fall-back wrapper of parse() then parses uncached). *)
Definition expire (guard : bool) (tid : nat) (c : cfg) : cfg * obs :=
  match nth_error (c_thrs c) tid with
  | None => (c, (tid, KNone, OIdle))
  | Some t =>
      match t_st t, t_k t with
      | Run, IS s :: k' =>
          let t' :=
            match s with
            | SIntegrity true =>
                if guard then set_k t [IS SClose]
                else advance k' (Thr k' (t_conn t) (t_lvl t) (t_intx t) (t_view t) (t_regs t) true (t_par t) (t_st t))
            | _ => failed t EBusy
            end in
          (Cfg (c_path c) (c_store c) (upd_nth tid t' (c_thrs c)) (c_viol c), (tid, kind_of s, OTimeout))
      | _, _ => (c, (tid, KNone, OIdle))
      end
  end.

Definition stepx (guard : bool) (e : nat) (c : cfg) : cfg * obs :=
  if Nat.ltb e 100 then step e c
  else
    let tid := e - 100 in
    match snd (snd (step tid c)) with
    | OBlocked => expire guard tid c
    | _ => step tid c
    end.

Fixpoint runx (guard : bool) (sched : list nat) (c : cfg) : cfg * list obs :=
  match sched with
  | [] => (c, [])
  | e :: sched' =>
      let '(c1, o) := stepx guard e c in
      let '(c2, os) := runx guard sched' c1 in
      (c2, o :: os)
  end.

Definition new_thr (p : prog) (par : params) : thr :=
  advance p (Thr p None Unl false None [] false par Run).

Definition init_cfg (p : prog) (d0 : option db) (pars : list params) : cfg :=
  Cfg (Some 0) [d0] (map (new_thr p) pars) false.

(* ---------------- correspondence ---------------- *)
Definition kind_eqb (a b : kind) : bool :=
  match a, b with
  | KConnect, KConnect | KIntegrity, KIntegrity | KRemove, KRemove | KBeginD, KBeginD | KBeginI, KBeginI
  | KRead, KRead | KWrite, KWrite | KCommit, KCommit | KClose, KClose | KNone, KNone => true
  | _, _ => false
  end.
Definition out_eqb (a b : outcome) : bool :=
  match a, b with
  | ODone, ODone | OBlocked, OBlocked | OBusy, OBusy | OFail, OFail | OErr, OErr | OViol, OViol | OIdle, OIdle
  | OTimeout, OTimeout => true
  | _, _ => false
  end.
Definition obs_eqb (a b : obs) : bool :=
  Nat.eqb (fst (fst a)) (fst (fst b)) && kind_eqb (snd (fst a)) (snd (fst b)) && out_eqb (snd a) (snd b).

(* compare up to and including the first `viol` step: after the file another call is using has been
   removed the property is already violated and the model does not follow SQLite any further *)
Fixpoint obs_match (m i : list obs) : bool :=
  match m, i with
  | [], [] => true
  | a :: m', b :: i' =>
      obs_eqb a b && (match snd a with OViol => true | _ => obs_match m' i' end)
  | _, _ => false
  end.

Fixpoint nlist_eqb (a b : list nat) : bool :=
  match a, b with
  | [], [] => true
  | x :: a', y :: b' => Nat.eqb x y && nlist_eqb a' b'
  | _, _ => false
  end.

Definition st_code (s : status) : nat :=
  match s with Run => 0 | Fin => 1 | Err EBusy => 2 | Err _ => 3 end.

Definition rows_of (c : cfg) : list nat :=
  match c_path c with
  | Some g => match content c g with Some d => map fst (d_rows d) | None => [] end
  | None => []
  end.
Definition same_set (a b : list nat) : bool :=
  forallb (fun x => existsb (Nat.eqb x) b) a && forallb (fun x => existsb (Nat.eqb x) a) b.

(* a case: program, initial database, calls, effective schedule, observed steps, final status per
   call (0 running / 1 finished / 2 "database is locked" / 3 other exception), cached texts at the end *)
Definition case := (prog * bool * option db * list params * list nat * list obs * list nat * list nat)%type.

Definition check_case (x : case) : bool :=
  let '(p, guard, d0, pars, sched, iobs, ist, irows) := x in
  let '(c, mobs) := runx guard sched (init_cfg p d0 pars) in
  obs_match mobs iobs &&
  (c_viol c ||
   (nlist_eqb (map (fun t => st_code (t_st t)) (c_thrs c)) ist && same_set (rows_of c) irows)).

(* ---------------- the side condition of the safety theorem (decidable, evaluated on the
   regenerated program by run/C02/Tie_C02.v) ----------------
   Typing of one call by its connection/transaction mode:  MClosed no connection | MN connected,
   autocommit | MD0 deferred transaction, no lock yet | MD1 deferred transaction holding SHARED |
   MW transaction holding RESERVED or more.  A program is well-moded from mode a when no statement
   runs without a connection, no BEGIN runs inside a transaction, the two branches of every `if`
   leave in the same mode, every INSERT INTO models is OR REPLACE and — the point of the
   property — NO WRITE RUNS IN MODE MD1: every write is the first statement of its transaction or
   its transaction was begun IMMEDIATE.  The handler of a failed integrity check (`if CIFail`) is
   not typed and os.remove is not allowed anywhere else: the safety theorem is about databases
   that are not garbage, where that handler is dead code. *)
Inductive mode := MClosed | MN | MD0 | MD1 | MW.
Definition mode_eqb (a b : mode) : bool :=
  match a, b with
  | MClosed, MClosed | MN, MN | MD0, MD0 | MD1, MD1 | MW, MW => true
  | _, _ => false
  end.

Definition trm (s : stmt) (a : mode) : mode :=
  match s with
  | SConnect => MN
  | SClose => MClosed
  | SRemove | SSet _ _ => a
  | SIntegrity _ | SRead _ _ => match a with MD0 => MD1 | _ => a end
  | SBegin false => MD0
  | SBegin true => MW
  | SWrite _ => match a with MD0 | MD1 => MW | _ => a end
  | SCommit => MN
  end.

Definition check (s : stmt) (a : mode) : bool :=
  match s with
  | SConnect | SClose | SSet _ _ => true
  | SRemove => false
  | SRead r _ =>                 (* RFetch may raise when another call's prune removed the row *)
      negb (mode_eqb a MClosed) && negb (match r with RFetch => true | _ => false end)
  | SBegin _ => mode_eqb a MN
  | SWrite w => negb (mode_eqb a MClosed) && negb (mode_eqb a MD1)
                && (match w with WInsert rep => rep | _ => true end)
  | _ => negb (mode_eqb a MClosed)
  end.

Definition is_cifail (c : cond) : bool := match c with CIFail => true | _ => false end.

Fixpoint ty_i (i : instr) (a : mode) : option mode :=
  match i with
  | IS s => if check s a then Some (trm s a) else None
  | IIf c th el =>
      let ty := fix ty (l : list instr) (a : mode) : option mode :=
                  match l with
                  | [] => Some a
                  | x :: l' => match ty_i x a with Some a1 => ty l' a1 | None => None end
                  end in
      if is_cifail c then ty el a
      else match ty th a, ty el a with
           | Some x, Some y => if mode_eqb x y then Some x else None
           | _, _ => None
           end
  end.
Fixpoint ty (l : list instr) (a : mode) : option mode :=
  match l with
  | [] => Some a
  | x :: l' => match ty_i x a with Some a1 => ty l' a1 | None => None end
  end.

Definition side_ok (p : prog) : bool := match ty p MClosed with Some _ => true | None => false end.

(* ---------------- second side condition: layout knowledge (path-sensitive, no joins) ----------------
   Along every path through the `if`s the typing tracks, per table, what the call KNOWS about the
   layout it sees (its private view inside a write transaction, else the committed content):
     VU nothing | VG expected layout | VB not the expected layout | VM missing
   and, per python variable, where its value comes from (a constant, PRAGMA table_info of a table,
   the sqlite_master lookup of a table; `mw`: read inside the write transaction that is still open).
   Facts "expected layout" are stable for ever (a good table is never dropped, C02_layout_stable);
   the negative facts VB/VM are only valid inside the write transaction in which they were read.
   sch_ok demands:  DROP TABLE t only inside a write transaction in which t is KNOWN not to have
   the expected layout (so the layout read that guards it is inside the same IMMEDIATE
   transaction), CREATE TABLE t only after the call's own DROP of t in the same transaction, every
   other statement on a table only where the table is known good, connect/close only outside
   transactions.  Calls that skip the start-up check (CInit false) may assume both tables good. *)
Inductive vk := VU | VG | VB | VM.
Inductive rk := RTop | RConst (b : bool) | RInfoOf (t : tbl) (mw : bool) | RMasterOf (t : tbl) (mw : bool).
Record ast := AS { a_mode : mode; a_vm : vk; a_vx : vk; a_regs : list (nat * rk) }.

Definition tbl_eqb (a b : tbl) : bool :=
  match a, b with TModels, TModels | TMeta, TMeta => true | _, _ => false end.
Fixpoint lookup_rk (R : list (nat * rk)) (r : nat) : rk :=
  match R with [] => RTop | (r', k) :: R' => if Nat.eqb r r' then k else lookup_rk R' r end.
Definition getv (T : tbl) (s : ast) : vk := match T with TModels => a_vm s | TMeta => a_vx s end.
Definition setv (T : tbl) (v : vk) (s : ast) : ast :=
  match T with
  | TModels => AS (a_mode s) v (a_vx s) (a_regs s)
  | TMeta => AS (a_mode s) (a_vm s) v (a_regs s)
  end.
Definition setmode (a : mode) (s : ast) : ast := AS a (a_vm s) (a_vx s) (a_regs s).
Definition setreg (s : ast) (r : nat) (k : rk) : ast := AS (a_mode s) (a_vm s) (a_vx s) ((r, k) :: a_regs s).
Definition inval (T : tbl) (s : ast) : ast :=
  AS (a_mode s) (a_vm s) (a_vx s)
     (map (fun e => (fst e, match snd e with
                            | RInfoOf T' _ | RMasterOf T' _ => if tbl_eqb T T' then RTop else snd e
                            | k => k
                            end)) (a_regs s)).
Definition end_vk (v : vk) : vk := match v with VG => VG | _ => VU end.
Definition txn_end (s : ast) : ast :=
  AS (a_mode s) (end_vk (a_vm s)) (end_vk (a_vx s))
     (map (fun e => (fst e, match snd e with
                            | RInfoOf T _ => RInfoOf T false
                            | RMasterOf _ _ => RTop
                            | k => k
                            end)) (a_regs s)).
Definition is_vg (v : vk) : bool := match v with VG => true | _ => false end.
Definition is_bad (v : vk) : bool := match v with VB | VM => true | _ => false end.
Definition is_vm (v : vk) : bool := match v with VM => true | _ => false end.
Definition is_mw (a : mode) : bool := mode_eqb a MW.
Definition outside_tx (a : mode) : bool := mode_eqb a MClosed || mode_eqb a MN.

Definition trs (s : stmt) (x : ast) : option ast :=
  let a := a_mode x in
  if negb (check s a) then None else
  let x1 := setmode (trm s a) x in
  match s with
  | SConnect | SClose => if outside_tx a then Some x1 else None
  | SRemove => None
  | SIntegrity _ | SBegin _ => Some x1
  | SSet r b => Some (setreg x1 r (RConst b))
  | SRead (RMaster T) r => Some (setreg x1 r (RMasterOf T (is_mw a)))
  | SRead (RInfo T) r => Some (setreg x1 r (RInfoOf T (is_mw a)))
  | SRead RLookup r => if is_vg (a_vm x) then Some (setreg (setreg x1 r RTop) r_stale RTop) else None
  | SRead RFetch _ => None
  | SWrite (WDrop T) => if is_mw a && is_bad (getv T x) then Some (inval T (setv T VM x1)) else None
  | SWrite (WCreate T) => if is_mw a && is_vm (getv T x) then Some (inval T (setv T VG x1)) else None
  | SWrite WMetaKeys | SWrite WTouchMeta => if is_vg (a_vx x) then Some x1 else None
  | SWrite WPrune | SWrite WTouchRow | SWrite (WInsert _) => if is_vg (a_vm x) then Some x1 else None
  | SCommit => Some (if is_mw a then txn_end x1 else x1)
  end.

Definition assume_init (x : ast) : ast :=
  if is_mw (a_mode x) then x else AS (a_mode x) VG VG (a_regs x).

Fixpoint tys_f (n : nat) (k : prog) (x : ast) : bool :=
  match n with
  | O => false
  | S n' =>
    match k with
    | [] => true
    | IS s :: k' => match trs s x with Some x' => tys_f n' k' x' | None => false end
    | IIf c th el :: k' =>
        match c with
        | CIFail => tys_f n' (el ++ k') x
        | CInit => tys_f n' (th ++ k') x && tys_f n' (el ++ k') (assume_init x)
        | CReg r =>
            match lookup_rk (a_regs x) r with
            | RConst true => tys_f n' (th ++ k') x
            | RConst false => tys_f n' (el ++ k') x
            | RInfoOf T mw =>
                tys_f n' (th ++ k') (setreg (setv T VG x) r (RConst true)) &&
                tys_f n' (el ++ k') (setreg (if mw then setv T VB x else x) r (RConst false))
            | RMasterOf T mw =>
                tys_f n' (th ++ k') (setreg x r (RConst true)) &&
                tys_f n' (el ++ k') (setreg (if mw then setv T VM x else x) r (RConst false))
            | RTop => tys_f n' (th ++ k') x && tys_f n' (el ++ k') x
            end
        | _ => tys_f n' (th ++ k') x && tys_f n' (el ++ k') x
        end
    end
  end.

Definition ast0 : ast := AS MClosed VU VU [].
Definition sch_ok (p : prog) : bool := tys_f (S (S (size p))) p ast0.
Definition side_ok_full (p : prog) : bool := side_ok p && sch_ok p.

(* seeded change C02/m1: the layout reads of the start-up check are done without a lock and
   BEGIN IMMEDIATE is taken only around DROP+CREATE *)
Definition schema_tx_m1 (t : tbl) (rex rok : nat) : prog :=
  [ IS (SRead (RMaster t) rex);
    IS (SSet rok false);
    IIf (CReg rex)
      [ IS (SRead (RInfo t) r_cols);
        IIf (CReg r_cols) [ IS (SSet rok true) ] [ IS (SSet rok false) ] ]
      [];
    IIf (CReg rok) [] [ IS (SBegin true); IS (SWrite (WDrop t)); IS (SWrite (WCreate t)); IS SCommit ] ].
Definition prog_m1 : prog :=
  [ IS SConnect;
    IIf CInit (
      [ IS (SIntegrity true) ] ++ schema_tx_m1 TModels r_mex r_mok ++ schema_tx_m1 TMeta r_xex r_xok ++
      [ IS (SBegin true); IS (SWrite WMetaKeys); IS SCommit;
        IS (SBegin false); IS (SWrite WPrune); IS SCommit ]) [];
    IS (SBegin false); IS (SRead RLookup r_hit); IS SCommit;
    IIf (CReg r_hit) [] [ IS (SBegin false); IS (SWrite (WInsert true)); IS SCommit ];
    IS SClose ].
