(* C25 — executable model of src/pymoca/backends/xml/generator.py (XmlGenerator, generate).
   Rose trees stand for lxml elements (tag, attributes in document order, element children;
   no text).  The flat class is what pymoca.tree.flatten returns, restricted to the node kinds
   the generator has handlers for.  No proofs in this file. *)
From Coq Require Import String List Bool Arith.
Import ListNotations.
Open Scope string_scope.

Inductive xml := Node (tag : string) (attrs : list (string * string)) (children : list xml).

(* ---- tag / attribute names (T10): Notations, so that gen and model_table use the same literals *)
Notation T_equal := "equal".
Notation T_operator := "operator".
Notation T_apply := "apply".
Notation T_real := "real".
Notation T_local := "local".
Notation T_item := "item".
Notation T_true := "true".
Notation T_false := "false".
Notation T_modifier := "modifier".
Notation T_component := "component".
Notation T_builtin := "builtin".
Notation T_when := "when".
Notation T_cond := "cond".
Notation T_then := "then".
Notation T_classDefinition := "classDefinition".
Notation T_class := "class".
Notation T_equation := "equation".
Notation T_modelica := "modelica".
Notation T_declarations := "declarations".
Notation A_name := "name".
Notation A_builtin := "builtin".
Notation A_value := "value".
Notation A_variability := "variability".
Notation A_kind := "kind".
Notation A_format := "format".
Notation V_model := "model".
Notation V_format := "1.0".
Notation F_start := "start".
Notation F_value := "value".
Notation F_fixed := "fixed".

(* generator.py:45 — search order of the variability keywords *)
Definition variabilities : list string := ["discrete"; "continuous"; "parameter"; "constant"].

(* The element-constructor table read off the source on every run (vlib/c25.py, probe_source):
   per exit* handler: the E(tag, ..., kw=...) calls in source order with their keyword names and the
   keyword values that are string constants; the `.attrib[...]` keys assigned; the lists of string
   constants iterated over. *)
Definition ctor : Type := string * list (string * option string).
Definition handler_row : Type := string * list ctor * list string * list (list string).
Definition model_table (mv : bool) : list handler_row :=
  [ ("exitClass", [(T_classDefinition, [(A_name, None)]); (T_class, [(A_kind, Some V_model)]); (T_equation, [])], [], []);
    ("exitClassModification", [(T_modifier, [])], [], []);
    ("exitComponentRef", [(T_local, [(A_name, None)])], [], []);
    ("exitEquation", (if mv then [(T_equal, [])] else [(T_local, [(A_name, None)]); (T_equal, [])]), [], []);
    ("exitExpression", [(T_operator, [(A_name, None)]); (T_apply, [(A_builtin, None)])], [], []);
    ("exitFunction", [(T_apply, [(A_builtin, None)])], [], []);
    ("exitPrimary", [(T_real, [(A_value, None)])], [], []);
    ("exitSymbol", [(T_item, [(A_name, None)]); (T_real, [(A_value, None)]); (T_true, []); (T_false, []);
                    (T_item, [(A_name, None)]); (T_modifier, []); (T_component, [(A_name, None)]);
                    (T_builtin, [(A_name, None)])],
                   [A_variability], [variabilities; [F_start; F_value]; [F_fixed]; [F_fixed]]);
    ("exitTree", [(T_modelica, [(A_format, Some V_format)]); (T_declarations, [])], [], []);
    ("exitWhenEquation", [(T_when, []); (T_cond, []); (T_then, [])], [], []) ].

(* boolean equality of tables, for the tie (run/C25/Tie_C25.v) *)
Fixpoint list_eqb {A} (f : A -> A -> bool) (l m : list A) : bool :=
  match l, m with
  | [], [] => true
  | x :: l', y :: m' => f x y && list_eqb f l' m'
  | _, _ => false
  end.
Definition opt_eqb {A} (f : A -> A -> bool) (a b : option A) : bool :=
  match a, b with Some x, Some y => f x y | None, None => true | _, _ => false end.
Definition ctor_eqb (a b : ctor) : bool :=
  (fst a =? fst b) && list_eqb (fun x y => (fst x =? fst y) && opt_eqb String.eqb (snd x) (snd y)) (snd a) (snd b).
Definition row_eqb (a b : handler_row) : bool :=
  match a, b with
  | (na, ca, ka, la), (nb, cb, kb, lb) =>
      (na =? nb) && list_eqb ctor_eqb ca cb && list_eqb String.eqb ka kb && list_eqb (list_eqb String.eqb) la lb
  end.
Definition table_eqb : list handler_row -> list handler_row -> bool := list_eqb row_eqb.

(* ---- the flat model -------------------------------------------------------------------- *)
Inductive litkind := KInt | KReal | KBool | KStr.

(* ast.ComponentRef / ast.Primary (text = str(value)) / ast.Expression (operator name, operands) *)
Inductive expr :=
| Ref (n : string)
| Lit (k : litkind) (t : string)
| Op (o : string) (args : list expr).

(* members of Class.equations: ast.Equation with an expression on the left; ast.Equation whose left is
   the ast.Symbol itself (tree.py add_state_value_equations: `Real x = 3;`); ast.Function (reinit, assert);
   ast.WhenEquation with one branch *)
Inductive eqn :=
| Equal (l r : expr)
| DeclEq (s : string) (r : expr)
| FunEq (f : string) (args : list expr)
| When (c : expr) (body : list eqn).

Record sym := Sym {
  s_name : string; s_type : string; s_prefixes : list string;
  s_start : option (litkind * string); s_value : option (litkind * string);
  s_fixed : bool (* fixed.value is truthy *) }.

Record cls := Cls { c_name : string; c_syms : list sym; c_eqs : list eqn }.
Definition flat : Type := list cls.      (* Tree.classes of the flat tree, in order *)

(* ---- generator -------------------------------------------------------------------------- *)
(* exitComponentRef :40-41, exitPrimary :37-38, exitExpression :27-35 *)
Fixpoint gen_expr (e : expr) : xml :=
  match e with
  | Ref n => Node T_local [(A_name, n)] []
  | Lit _ t => Node T_real [(A_value, t)] []
  | Op o args =>
      match args with
      | [_] => Node T_operator [(A_name, o)] (map gen_expr args)       (* len(operands) == 1 *)
      | _ => Node T_apply [(A_builtin, o)] (map gen_expr args)
      end
  end.

(* exitEquation :20-25, exitFunction :86-87, exitWhenEquation :89-100.
   mv = true is the code in which the left operand of a declaration-value equation is the symbol's own
   <component> element: exitClass appends that element to <class> afterwards and lxml MOVES an element
   that already has a parent, so <equal> keeps only the right operand.  mv = false is the repaired code
   (a fresh <local name=…/> for a Symbol on the left). *)
Fixpoint gen_eqn (mv : bool) (q : eqn) : xml :=
  match q with
  | Equal l r => Node T_equal [] [gen_expr l; gen_expr r]
  | DeclEq s r => if mv then Node T_equal [] [gen_expr r]
                  else Node T_equal [] [Node T_local [(A_name, s)] []; gen_expr r]
  | FunEq f args => Node T_apply [(A_builtin, f)] (map gen_expr args)
  | When c body => Node T_when [] [Node T_cond [] [gen_expr c]; Node T_then [] (map (gen_eqn mv) body)]
  end.

(* exitSymbol :44-48 *)
Fixpoint first_in (cands prefixes : list string) : option string :=
  match cands with
  | [] => None
  | v :: r => if existsb (String.eqb v) prefixes then Some v else first_in r prefixes
  end.
Definition variability (s : sym) : option string := first_in variabilities (s_prefixes s).

Definition item (nm : string) (c : xml) : xml := Node T_item [(A_name, nm)] [c].
Definition opt_item (nm : string) (v : option (litkind * string)) : list xml :=
  match v with Some (_, t) => [item nm (Node T_real [(A_value, t)] [])] | None => [] end.

(* exitSymbol :49-81 *)
Definition gen_sym (s : sym) : xml :=
  let items := (opt_item F_start (s_start s) ++ opt_item F_value (s_value s)
                ++ (if s_fixed s then [item F_fixed (Node T_true [] [])] else []))%list in
  Node T_component
       ((A_name, s_name s) :: match variability s with Some v => [(A_variability, v)] | None => [] end)
       [Node T_builtin [(A_name, s_type s)] []; Node T_modifier [] items].

(* exitClass :102-112 *)
Definition gen_cls (mv : bool) (c : cls) : xml :=
  Node T_classDefinition [(A_name, c_name c)]
       [Node T_class [(A_kind, V_model)]
             (map gen_sym (c_syms c) ++ [Node T_equation [] (map (gen_eqn mv) (c_eqs c))])%list].

(* exitTree :114-119 *)
Definition gen (mv : bool) (t : flat) : xml :=
  Node T_modelica [(A_format, V_format)] [Node T_declarations [] (map (gen_cls mv) t)].

(* ---- what the XML is supposed to carry: literal kinds are not represented (every Primary is a <real
   value=str(v)>), of the prefixes only the variability, a declaration equation reads `s = value` ---- *)
Fixpoint norm_expr (e : expr) : expr :=
  match e with
  | Ref n => Ref n
  | Lit _ t => Lit KReal t
  | Op o args => Op o (map norm_expr args)
  end.
Fixpoint norm_eqn (q : eqn) : eqn :=
  match q with
  | Equal l r => Equal (norm_expr l) (norm_expr r)
  | DeclEq s r => Equal (Ref s) (norm_expr r)
  | FunEq f args => FunEq f (map norm_expr args)
  | When c body => When (norm_expr c) (map norm_eqn body)
  end.
Definition norm_lit (v : option (litkind * string)) : option (litkind * string) :=
  match v with Some (_, t) => Some (KReal, t) | None => None end.
Definition norm_sym (s : sym) : sym :=
  Sym (s_name s) (s_type s) (match variability s with Some v => [v] | None => [] end)
      (norm_lit (s_start s)) (norm_lit (s_value s)) (s_fixed s).
Definition norm_cls (c : cls) : cls := Cls (c_name c) (map norm_sym (c_syms c)) (map norm_eqn (c_eqs c)).
Definition norm (t : flat) : flat := map norm_cls t.

(* declaration-value equations present? *)
Fixpoint has_decl (q : eqn) : bool :=
  match q with
  | DeclEq _ _ => true
  | When _ body => existsb has_decl body
  | _ => false
  end.
Definition has_decl_flat (t : flat) : bool := existsb (fun c => existsb has_decl (c_eqs c)) t.

(* ---- decoder ---------------------------------------------------------------------------- *)
Definition mapM {A B} (f : A -> option B) : list A -> option (list B) :=
  fix go (l : list A) : option (list B) :=
    match l with
    | [] => Some []
    | a :: r => match f a, go r with Some b, Some bs => Some (b :: bs) | _, _ => None end
    end.

Fixpoint unexpr (x : xml) : option expr :=
  match x with
  | Node tag attrs ch =>
      if tag =? T_local then
        match attrs, ch with [(k, n)], [] => if k =? A_name then Some (Ref n) else None | _, _ => None end
      else if tag =? T_real then
        match attrs, ch with [(k, t)], [] => if k =? A_value then Some (Lit KReal t) else None | _, _ => None end
      else if tag =? T_operator then
        match attrs with
        | [(k, o)] => if k =? A_name then
                        match mapM unexpr ch with Some [e] => Some (Op o [e]) | _ => None end
                      else None
        | _ => None
        end
      else if tag =? T_apply then
        match attrs with
        | [(k, o)] => if k =? A_builtin then
                        match mapM unexpr ch with
                        | Some [_] => None
                        | Some es => Some (Op o es)
                        | None => None
                        end
                      else None
        | _ => None
        end
      else None
  end.

Fixpoint uneqn (x : xml) : option eqn :=
  match x with
  | Node tag attrs ch =>
      if tag =? T_equal then
        match attrs, ch with
        | [], [l; r] => match unexpr l, unexpr r with Some a, Some b => Some (Equal a b) | _, _ => None end
        | _, _ => None
        end
      else if tag =? T_apply then
        match attrs with
        | [(k, f)] => if k =? A_builtin then
                        match mapM unexpr ch with Some es => Some (FunEq f es) | None => None end
                      else None
        | _ => None
        end
      else if tag =? T_when then
        match attrs, ch with
        | [], [Node tc [] [c]; Node tth [] body] =>
            if (tc =? T_cond) && (tth =? T_then) then
              match unexpr c, mapM uneqn body with Some c', Some b' => Some (When c' b') | _, _ => None end
            else None
        | _, _ => None
        end
      else None
  end.

Definition unlit (x : xml) : option (litkind * string) :=
  match x with
  | Node tag [(k, t)] [] => if (tag =? T_real) && (k =? A_value) then Some (KReal, t) else None
  | _ => None
  end.

Definition take_item (nm : string) (l : list xml) : option xml * list xml :=
  match l with
  | Node tag [(k, n)] [c] :: r =>
      if (tag =? T_item) && (k =? A_name) && (n =? nm) then (Some c, r) else (None, l)
  | _ => (None, l)
  end.

Definition unlit_opt (o : option xml) : option (option (litkind * string)) :=
  match o with
  | None => Some None
  | Some x => match unlit x with Some v => Some (Some v) | None => None end
  end.

Definition unsym (x : xml) : option sym :=
  match x with
  | Node tag ((kn, n) :: vattrs) [Node tb [(kb, ty)] []; Node tm [] items] =>
      if (tag =? T_component) && (kn =? A_name) && (tb =? T_builtin) && (kb =? A_name) && (tm =? T_modifier) then
        let '(st, l1) := take_item F_start items in
        let '(va, l2) := take_item F_value l1 in
        let '(fx, l3) := take_item F_fixed l2 in
        let prefixes := match vattrs with
                        | [] => Some []
                        | [(kv, v)] => if kv =? A_variability then Some [v] else None
                        | _ => None
                        end in
        let fixed := match fx with
                     | None => Some false
                     | Some (Node tg [] []) => if tg =? T_true then Some true else None
                     | _ => None
                     end in
        match l3, prefixes, unlit_opt st, unlit_opt va, fixed with
        | [], Some p, Some s, Some v, Some f => Some (Sym n ty p s v f)
        | _, _, _, _, _ => None
        end
      else None
  | _ => None
  end.

(* children of <class>: components, then exactly one <equation> *)
Fixpoint unbody (l : list xml) : option (list sym * list eqn) :=
  match l with
  | [] => None
  | x :: r =>
      match r with
      | [] => match x with
              | Node tag [] eqs => if tag =? T_equation then
                                     match mapM uneqn eqs with Some es => Some ([], es) | None => None end
                                   else None
              | _ => None
              end
      | _ => match unsym x, unbody r with
             | Some s, Some (ss, es) => Some (s :: ss, es)
             | _, _ => None
             end
      end
  end.

Definition uncls (x : xml) : option cls :=
  match x with
  | Node tag [(kn, n)] [Node tc [(kk, kind)] body] =>
      if (tag =? T_classDefinition) && (kn =? A_name) && (tc =? T_class) && (kk =? A_kind) && (kind =? V_model) then
        match unbody body with Some (ss, es) => Some (Cls n ss es) | None => None end
      else None
  | _ => None
  end.

Definition unxml (x : xml) : option flat :=
  match x with
  | Node tag [(kf, f)] [Node td [] cs] =>
      if (tag =? T_modelica) && (kf =? A_format) && (f =? V_format) && (td =? T_declarations) then mapM uncls cs
      else None
  | _ => None
  end.

(* ---- correspondence ---------------------------------------------------------------------- *)
Definition attrs_eqb (a b : list (string * string)) : bool :=
  (length a =? length b)%nat && forallb (fun p => (fst (fst p) =? fst (snd p)) && (snd (fst p) =? snd (snd p))) (combine a b).

Fixpoint xml_eqb (a b : xml) : bool :=
  match a, b with
  | Node ta aa ca, Node tb ab cb =>
      (ta =? tb) && attrs_eqb aa ab &&
      (fix go (l : list xml) (m : list xml) : bool :=
         match l, m with
         | [], [] => true
         | x :: l', y :: m' => xml_eqb x y && go l' m'
         | _, _ => false
         end) ca cb
  end.

(* one case: (mv, flat tree as serialised from pymoca.tree.flatten, rose tree parsed from generate()'s text).
   Also runs the decoder on the REAL output: in the subset it must give back norm of the flat tree. *)
Definition flat_eq_dec_by_gen (t u : flat) : bool := xml_eqb (gen false t) (gen false u).
Definition check_case (c : bool * flat * xml) : bool :=
  let '(mv, t, obs) := c in
  xml_eqb (gen mv t) obs &&
  (if mv && has_decl_flat t then true
   else match unxml obs with Some u => flat_eq_dec_by_gen u (norm t) | None => false end).
