(* C27 — executable model of the part of flattening that decides WHICH variables a flat model has:
   class lookup, extends, component instantiation and the pulling of package constants.
   Mirrors (line references are to /repo/src/pymoca at HEAD):
     ast.py  Class._find_class              629-693  (nested classes, qualified imports, parent scopes, encapsulated)
     ast.py  Class._find_constant_symbol    725-754
     tree.py flatten_extends                262-343  (bases first, symbols merged by dict.update)
     tree.py build_instance_tree            440-561  (every symbol type - inherited ones too - is looked up from
                                                      the DERIVING class; a component's modifiers move into its instance)
     tree.py ConstantReferenceApplier       918-975  (qualified references that resolve to a symbol of a class become
                                                      extra symbols of the instance in which the walker meets them)
     tree.py flatten_symbols                566-661  (dotted instance names, elementary leaves)
     tree.py flatten                        1237-1275
   No proofs in this file.

   The whole model is written over a LOOKUP FUNCTION  g : path -> option hdr  (for a tree t: g = get t) and a
   decoding environment E that says what the content tokens of the headers mean.  Nested-class dictionaries
   are never iterated: classes are reached by key only.
   Not modelled (the harness does not compare such libraries / the generator does not produce them):
   `import P.*`, nested classes inside the instantiated classes themselves (pymoca instantiates those eagerly in
   dictionary order), redeclare, short class definitions / `extends Real`, arrays, values and attributes of the
   variables, equations.  Pulled constants are produced in an unspecified order (compared as a set). *)
From Coq Require Import List Bool PArith Arith.
From PV Require Import Model.C27_merge.
Import ListNotations.

Definition path := list name.

Record syminfo := SymI {
  sy_name : name;
  sy_type : path;            (* the declared type reference *)
  sy_builtin : bool;         (* first identifier is Real / Integer / Boolean / String *)
  sy_vrefs : list path;      (* qualified references in the declaration, outside its modifier *)
  sy_mrefs : list path       (* qualified references inside its modifier *)
}.

(* meaning of the content tokens (built by the harness from the real parsed classes) *)
Record denv := DEnv {
  d_sym : list (positive * syminfo);
  d_ext : list (positive * (path * list path));       (* base class reference, references in the clause's modifier *)
  d_imp : list (positive * (name * path));            (* short name, imported path (qualified imports only) *)
  d_eq : list (positive * list path)                  (* references of an equation / statement *)
}.

Definition var := (path * name * bool)%type.           (* flat name, elementary type, pulled constant? *)

Fixpoint assoc {A} (k : positive) (l : list (positive * A)) : option A :=
  match l with
  | [] => None
  | (k', x) :: r => if Pos.eqb k' k then Some x else assoc k r
  end.

Definition decode {A} (tab : list (positive * A)) (ts : list positive) : list A :=
  flat_map (fun t => match assoc t tab with Some x => [x] | None => [] end) ts.

Definition path_eqb (a b : path) : bool := list_eqb Pos.eqb a b.

(* OrderedDict.update on symbols keyed by name: existing key keeps its position, value replaced *)
Fixpoint sym_update (l : list syminfo) (s : syminfo) : list syminfo :=
  match l with
  | [] => [s]
  | x :: r => if Pos.eqb (sy_name x) (sy_name s) then s :: r else x :: sym_update r s
  end.
Definition syms_update (l new : list syminfo) : list syminfo := fold_left sym_update new l.

Fixpoint imp_lookup (n : name) (l : list (name * path)) : option path :=
  match l with
  | [] => None
  | (k, t) :: r => if Pos.eqb k n then Some t else imp_lookup n r
  end.

Fixpoint mem_path (p : path) (l : list path) : bool :=
  match l with [] => false | q :: r => path_eqb p q || mem_path p r end.

Fixpoint dedup_paths (l : list path) (seen : list path) : list path :=
  match l with
  | [] => []
  | p :: r => if mem_path p seen then dedup_paths r seen else p :: dedup_paths r (p :: seen)
  end.

Definition is_nil {A} (l : list A) : bool := match l with [] => true | _ => false end.
Definition sym_refs (s : syminfo) : list path := sy_vrefs s ++ (if sy_builtin s then sy_mrefs s else []).
Definition last_id (p : path) : name := last p 1%positive.

Definition FC_FUEL : nat := 48.
Definition EXT_FUEL : nat := 24.
Definition INST_FUEL : nat := 24.

Section FlatG.
  Variable E : denv.
  Variable g : path -> option hdr.

  (* the only three places where the tree is consulted *)
  Definition toks (p : path) (i : nat) : list positive :=
    match g p with Some h => nth i (h_attrs h) [] | None => [] end.
  Definition encaps (p : path) : bool :=
    match g p with Some h => nth 0 (h_flags h) false | None => false end.
  Definition present (p : path) : bool := match g p with Some _ => true | None => false end.

  Definition imports_of (p : path) : list (name * path) := decode (d_imp E) (toks p 0).
  Definition own_exts (p : path) : list (path * list path) := decode (d_ext E) (toks p 1).
  Definition own_syms (p : path) : list syminfo := decode (d_sym E) (toks p 2).
  Definition eq_refs (p : path) : list path :=
    concat (decode (d_eq E) (toks p 4)) ++ concat (decode (d_eq E) (toks p 5)) ++
    concat (decode (d_eq E) (toks p 6)) ++ concat (decode (d_eq E) (toks p 7)).

  (* Class._find_class(ref, search_parent = sp, search_imports = si) on the class at `scope`;
     [rec] = the same function with one unit of fuel less *)
  Definition fc_step (rec : path -> path -> bool -> bool -> option path)
             (scope ref : path) (sp si : bool) : option path :=
    match ref with
    | [] => None
    | n :: rest =>
        (* try: self.classes[name] (._find_class(child, False)) *)
        let down := if present (scope ++ [n])
                    then (if is_nil rest then Some (scope ++ [n]) else rec (scope ++ [n]) rest false true)
                    else None in
        match down with
        | Some r => Some r
        | None =>
            (* qualified import: short name expanded, looked up again from self *)
            let via := if si
                       then match imp_lookup n (imports_of scope) with
                            | Some T => rec scope (T ++ rest) true true
                            | None => None
                            end
                       else None in
            match via with
            | Some r => Some r
            | None =>
                if sp && negb (is_nil scope) && negb (encaps scope)
                then rec (removelast scope) (n :: rest) true true
                else None
            end
        end
    end.

  Fixpoint find_class (fuel : nat) : path -> path -> bool -> bool -> option path :=
    match fuel with
    | O => fun _ _ _ _ => None
    | S f => fc_step (find_class f)
    end.

  (* flatten_extends: symbols (ordered, keyed by name) and the references of equations and extends modifiers *)
  Section ExtFold.
    Variable rec : path -> option (list syminfo * list path).
    Variable fc : path -> option path.
    Variable C : path.
    Fixpoint ext_fold (es : list (path * list path)) (acc : list syminfo * list path)
      : option (list syminfo * list path) :=
      match es with
      | [] => Some acc
      | (b, mrefs) :: es' =>
          match fc b with
          | None => None                                            (* ClassNotFoundError *)
          | Some B =>
              if path_eqb B C then None                             (* "Cannot extend class with itself" *)
              else match rec B with
                   | None => None
                   | Some (sb, rb) => ext_fold es' (syms_update (fst acc) sb, snd acc ++ rb ++ mrefs)
                   end
          end
      end.
  End ExtFold.

  Fixpoint ext_content (fuel : nat) (C : path) : option (list syminfo * list path) :=
    match fuel with
    | O => None
    | S f =>
        match ext_fold (ext_content f) (fun b => find_class FC_FUEL C b true true) C (own_exts C) ([], []) with
        | None => None
        | Some (s, r) => Some (syms_update s (own_syms C), r ++ eq_refs C)
        end
    end.

  (* Class._find_constant_symbol below the class found for the first identifier *)
  Fixpoint const_in (N : path) (rest : path) : option name :=
    match rest with
    | [] => None
    | x :: more =>
        if is_nil more
        then match List.find (fun s => Pos.eqb (sy_name s) x) (own_syms N) with
             | Some s => Some (last_id (sy_type s))
             | None => None
             end
        else match find_class FC_FUEL N [x] false true with
             | Some N' => const_in N' more
             | None => None
             end
    end.

  Definition find_const (C : path) (r : path) : option name :=
    match r with
    | [] => None
    | t0 :: rest =>
        if is_nil rest then None
        else match find_class FC_FUEL C [t0] true true with
             | Some N => const_in N rest
             | None => None
             end
    end.

  Definition pulled (C prefix : path) (refs : list path) : list var :=
    flat_map (fun r => match find_const C r with Some ty => [(prefix ++ r, ty, true)] | None => [] end) refs.

  Section InstSyms.
    Variable rec : path -> path -> list path -> option (list var).   (* class, instance prefix, modifier refs *)
    Variable fc : path -> option path.
    Variable prefix : path.
    Fixpoint inst_syms (ss : list syminfo) : option (list var) :=
      match ss with
      | [] => Some []
      | s :: ss' =>
          let here :=
            if sy_builtin s then Some [(prefix ++ [sy_name s], last_id (sy_type s), false)]
            else match fc (sy_type s) with
                 | None => None
                 | Some T => rec T (prefix ++ [sy_name s]) (sy_mrefs s)
                 end in
          match here with
          | None => None
          | Some v => match inst_syms ss' with None => None | Some vs => Some (v ++ vs) end
          end
      end.
  End InstSyms.

  Fixpoint inst (fuel : nat) (C prefix : path) (inm : list path) {struct fuel} : option (list var) :=
    match fuel with
    | O => None
    | S f =>
        match ext_content EXT_FUEL C with
        | None => None
        | Some (syms, refs) =>
            match inst_syms (inst f) (fun t => find_class FC_FUEL C t true true) prefix syms with
            | None => None
            | Some vs =>
                Some (vs ++ pulled C prefix
                              (dedup_paths (flat_map sym_refs syms ++ refs ++ map snd (imports_of C) ++ inm) []))
            end
        end
    end.

  (* tree.flatten(root, top): root.find_class(top), instance name "" *)
  Definition flatG (top : path) : option (list var) :=
    match find_class FC_FUEL [] top true true with
    | Some C => inst INST_FUEL C [] []
    | None => None
    end.
End FlatG.

Definition flat (E : denv) (t : node) (top : path) : option (list var) := flatG E (get t) top.

(* ---- correspondence with the real flat model's variable list ---- *)
Definition var_eqb (a b : var) : bool :=
  match a, b with
  | (pa, ta, ca), (pb, tb, cb) => path_eqb pa pb && Pos.eqb ta tb && Bool.eqb ca cb
  end.

Definition declared (l : list var) : list var := filter (fun v => negb (snd v)) l.
Definition subset (a b : list var) : bool := forallb (fun v => existsb (var_eqb v) b) a.

(* declared variables: same ordered list; pulled constants: same set *)
Definition vars_match (m : option (list var)) (obs : list var) : bool :=
  match m with
  | None => false
  | Some mv => list_eqb var_eqb (declared mv) (declared obs) && subset mv obs && subset obs mv
               && Nat.eqb (length mv) (length obs)
  end.

(* per library: the files, the driver style, the file orders that are full permutations, and for every model
   the variable list of the real flat model (None: the real flatten raised - nothing is required) *)
Definition flat_case := (denv * bool * list file * list (list nat) * list (path * option (list var)))%type.

Definition check_flat (c : flat_case) : bool :=
  match c with
  | (E, style, fs, orders, flats) =>
      forallb (fun ord =>
                 let t := merge_in_order style fs ord in
                 forallb (fun mo => match snd mo with
                                    | None => true
                                    | Some vs => vars_match (flat E t (fst mo)) vs
                                    end) flats) orders
  end.

Definition check_both (c : case * flat_case) : bool := check_case (fst c) && check_flat (snd c).
