(* Model/C08_modify.v — C08 vocabulary on top of the shared flattening model (Model/C07_flatten.v, which
   contains the modification machinery: environment merge tree.py:303-328, shifting 440-561,
   modify_symbol 838-875).  Definitions only. *)
From Coq Require Import List ZArith Bool PArith.
From PV Require Import Lib.ClassTree Model.C07_flatten.
Import ListNotations.

(* the nested spelling of a dotted modification:  a.rest(ms)  ~>  a(rest(ms)) *)
Definition nest (a : marg) : marg :=
  match a with
  | MArg sc (n :: (_ :: _) as rest) ms => MArg sc [n] [MClass [MArg None rest ms]]
  | _ => a
  end.

(* the expression of the LAST argument of the list that sets attribute `a` (setattr order) *)
Fixpoint last_for (a : ident) (l : list marg) : option expr :=
  match l with
  | [] => None
  | m :: l' =>
      match last_for a l' with
      | Some e => Some e
      | None => if Pos.eqb (head_id (m_target m)) a
                then match m_mods m with MExpr e :: _ => Some e | _ => None end
                else None
      end
  end.

Definition get_attr (a : ident) (l : list (ident * expr)) : option expr :=
  option_map snd (od_get fst Pos.eqb a l).

(* same checker as C07 (one model of flatten) *)
Definition check_case := C07_flatten.check_case.
