(* C13 — executable model of how the CasADi backend reports variable attributes:
     generator.py  _ast_symbols_to_variables   (l.116-159: extraction + type coercion)
     ast.py        Symbol.__init__             (l.430-435: ast-level defaults, fixed = False)
     model.py      Variable.__init__           (l.27-41:  defaults)
     model.py      variable_metadata_function  (l.1348-1423: per-category matrix, repmat of
                                                scalars, affine test, rebuild A*p + b)
   Numbers are exact rationals (Qc) extended with -inf / +inf / NaN; IEEE rounding is not
   modelled.  Attribute expressions are trees over the flattened parameter vector.
   No proofs here: the model must keep running when a proof breaks. *)
From Coq Require Import QArith Qcanon Qabs List Bool ZArith.
Import ListNotations.
Local Open Scope Qc_scope.

Inductive ext := NegInf | Fin (q : Qc) | PosInf | NaN.

(* ---------- attribute expressions over the parameter vector ---------- *)
Inductive aexp :=
| Cst (c : Qc)
| Par (i : nat)                 (* i-th entry of veccat(parameters) *)
| Add (a b : aexp) | Sub (a b : aexp) | Mul (a b : aexp) | Div (a b : aexp)
| Neg (a : aexp)
| Pow (a : aexp) (n : nat)
(* piecewise nodes (outside the polynomial fragment and outside the affine class unless
   parameter-free); truth = non-zero, as CasADi evaluates Boolean parameters as 0.0 / 1.0 *)
| IfB (c a b : aexp)            (* if c then a else b  (ca.if_else) *)
| NotB (a : aexp)               (* not a *)
| LtB (a b : aexp).             (* a < b  -> 1 / 0 *)

Fixpoint eval (p : list Qc) (e : aexp) : Qc :=
  match e with
  | Cst c => c
  | Par i => nth i p 0
  | Add a b => eval p a + eval p b
  | Sub a b => eval p a - eval p b
  | Mul a b => eval p a * eval p b
  | Div a b => eval p a / eval p b
  | Neg a => - eval p a
  | Pow a n => Qcpower (eval p a) n
  | IfB c a b => if Qc_eq_bool (eval p c) 0 then eval p b else eval p a
  | NotB a => if Qc_eq_bool (eval p a) 0 then 1 else 0
  | LtB a b => match (eval p a ?= eval p b) with Lt => 1 | _ => 0 end
  end.

Definition qnz (q : Qc) : bool := negb (Qc_eq_bool q 0).

(* no division by zero at p (Qc's x/0 = 0 is never relied upon) *)
Fixpoint safe (p : list Qc) (e : aexp) : bool :=
  match e with
  | Cst _ | Par _ => true
  | Add a b | Sub a b | Mul a b => safe p a && safe p b
  | Div a b => safe p a && safe p b && qnz (eval p b)
  | Neg a | Pow a _ | NotB a => safe p a
  | IfB c a b => safe p c && safe p a && safe p b
  | LtB a b => safe p a && safe p b
  end.

(* parameter-free subexpression ("c" of the affine class; the generator folds such
   subexpressions into one Python float before CasADi sees them) *)
Fixpoint pfree (e : aexp) : bool :=
  match e with
  | Cst _ => true
  | Par _ => false
  | Add a b | Sub a b | Mul a b | Div a b => pfree a && pfree b
  | Neg a | Pow a _ | NotB a => pfree a
  | IfB c a b => pfree c && pfree a && pfree b
  | LtB a b => pfree a && pfree b
  end.

(* The syntactic affine class  c | p_i | a+a | a-a | c*a | a*c | a/c | -a  (c parameter-free).
   Relation to the code's test (model.py:1381-1401): the code accepts an output matrix iff
   every instruction of the CasADi function is in {INPUT, OUTPUT, CONST, ADD, SUB, MUL, DIV,
   NEG} and the symbolic Hessian is structurally zero.  Every expression of this class uses
   only those scalar operations and has a structurally zero Hessian; conversely CasADi may
   also accept expressions outside the class whose second derivatives cancel structurally,
   and may reject members of the class for reasons internal to CasADi (2*x becomes OP_TWICE,
   x*x OP_SQ, repmat of a scalar over an array and indexing of an array parameter add
   instructions outside the set).  The branch decision is therefore an INPUT of the model ([rb] below);
   the contract "rb = true -> all cells are in this class" is checked on every
   correspondence case and is the hypothesis of the theorems. *)
Fixpoint affine (e : aexp) : bool :=
  match e with
  | Cst _ | Par _ => true
  | Add a b | Sub a b => affine a && affine b
  | Mul a b => (pfree a && affine b) || (affine a && pfree b)
  | Div a b => affine a && pfree b
  | Neg a => affine a
  | Pow a _ => pfree a          (* folded to a constant before CasADi sees it *)
  | IfB c a b => pfree c && pfree a && pfree b   (* piecewise nodes: only when parameter-free *)
  | NotB a => pfree a
  | LtB a b => pfree a && pfree b
  end.

(* value at p = 0  (bf(0), model.py:1413) *)
Definition v0 (e : aexp) : Qc := eval [] e.

Definition qnat (n : nat) : Qc := Q2Qc (inject_Z (Z.of_nat n)).

(* i-th entry of the Jacobian row evaluated at p = 0  (Af(0), model.py:1407-1410) *)
Fixpoint d0 (e : aexp) (i : nat) : Qc :=
  match e with
  | Cst _ => 0
  | Par j => if Nat.eqb i j then 1 else 0
  | Add a b => d0 a i + d0 b i
  | Sub a b => d0 a i - d0 b i
  | Mul a b => d0 a i * v0 b + v0 a * d0 b i
  | Div a b => (d0 a i * v0 b - v0 a * d0 b i) / (v0 b * v0 b)
  | Neg a => - d0 a i
  | Pow a n => match n with O => 0 | S m => qnat n * Qcpower (v0 a) m * d0 a i end
  | IfB c a b => if Qc_eq_bool (v0 c) 0 then d0 b i else d0 a i   (* the branch selected at p = 0 *)
  | NotB _ | LtB _ _ => 0
  end.

Fixpoint dot (g : nat -> Qc) (p : list Qc) (i : nat) : Qc :=
  match p with [] => 0 | x :: p' => g i * x + dot g p' (S i) end.

(* o_ = reshape(A * in_var_, shape) + b   (model.py:1416) *)
Definition rebuild (e : aexp) (p : list Qc) : Qc := dot (d0 e) p 0 + v0 e.

(* ---------- literals, Python types, coercion (generator.py:140-157) ---------- *)
Inductive vtype := TReal | TInt | TBool.                 (* python_type float | int | bool *)
Inductive lit := LInt (z : Z) | LReal (q : Qc) | LBool (b : bool).
Inductive tag := GInt | GFloat | GBool | GDefault | GMX | GList.

Definition qZ (z : Z) : Qc := Q2Qc (inject_Z z).
Definition lit_val (l : lit) : Qc :=
  match l with LInt z => qZ z | LReal q => q | LBool b => if b then 1 else 0 end.
Definition lit_tag (l : lit) : tag :=
  match l with LInt _ => GInt | LReal _ => GFloat | LBool _ => GBool end.

(* `isinstance(v, (float, int)) and not isinstance(v, python_type)` -> python_type(v);
   bool is a subclass of int, int() truncates toward zero *)
Definition coerce (t : vtype) (l : lit) : lit :=
  match t, l with
  | TReal, LInt z => LReal (qZ z)
  | TReal, LBool b => LReal (if b then 1 else 0)
  | TReal, LReal q => LReal q
  | TInt, LReal q => LInt (Z.quot (Qnum (this q)) (Zpos (Qden (this q))))
  | TInt, l => l
  | TBool, LInt z => LBool (negb (Z.eqb z 0))
  | TBool, LReal q => LBool (qnz q)
  | TBool, LBool b => LBool b
  end.

(* literals whose coercion is value preserving (the well-typed Modelica ones) *)
Definition well_typed (t : vtype) (l : lit) : bool :=
  match t, l with
  | TReal, _ => true
  | TInt, LReal _ => false
  | TInt, _ => true
  | TBool, LBool _ => true
  | TBool, _ => false
  end.

(* ---------- declarations ---------- *)
Inductive attr := AValue | AMin | AMax | AStart | AFixed | ANominal.

(* CASADI_ATTRIBUTES (model.py:20): the column order of the metadata matrices *)
Definition attr_order : list attr := [AValue; AMin; AMax; AStart; AFixed; ANominal].

(* Variable.__init__ defaults (model.py:35-41) with the Python type of the default object *)
Definition default (a : attr) : ext * tag :=
  match a with
  | AValue => (NaN, GFloat)
  | AStart => (Fin 0, GDefault)
  | AMin => (NegInf, GFloat)
  | AMax => (PosInf, GFloat)
  | ANominal => (Fin 0, GInt)
  | AFixed => (Fin 0, GBool)
  end.

Fixpoint repeat_ {A} (x : A) (n : nat) : list A :=
  match n with O => [] | S m => x :: repeat_ x m end.

Fixpoint zipw {A} (f : A -> A -> A) (l m : list A) : list A :=
  match l, m with x :: l', y :: m' => f x y :: zipw f l' m' | _, _ => [] end.

(* vector / matrix valued attribute expressions (start = pa, 2*pa, 3*P, P + fill(p,2,3)); all
   arrays in veccat (column-major) order.  VList es: an array parameter (es = its entries of the
   parameter vector) or, after substitution, arbitrary element expressions *)
Inductive vexp :=
| VList (es : list aexp)
| VFill (e : aexp) (n : nat)          (* fill(e, ...) with n elements *)
| VScale (c : Qc) (v : vexp)          (* c * v, element-wise *)
| VNeg (v : vexp)
| VAdd (v w : vexp).

(* element expressions: what CasADi's element-wise operations build, entry by entry *)
Fixpoint velems (v : vexp) : list aexp :=
  match v with
  | VList es => es
  | VFill e n => repeat_ e n
  | VScale c v => map (Mul (Cst c)) (velems v)
  | VNeg v => map Neg (velems v)
  | VAdd v w => zipw Add (velems v) (velems w)
  end.

(* SPEC side: the value of the vector expression as a vector *)
Fixpoint veval (p : list Qc) (v : vexp) : list Qc :=
  match v with
  | VList es => map (eval p) es
  | VFill e n => repeat_ (eval p e) n
  | VScale c v => map (Qcmult c) (veval p v)
  | VNeg v => map Qcopp (veval p v)
  | VAdd v w => zipw Qcplus (veval p v) (veval p w)
  end.

Inductive elem := ELit (l : lit) | EExp (e : aexp).
Inductive decl :=
| DNone                       (* attribute not given *)
| DLit (l : lit)              (* scalar literal (also `each c`) *)
| DExp (e : aexp)             (* scalar parameter expression, symbolic MX (also `each e`) *)
| DElems (es : list elem)     (* array literal: element-wise literals / expressions *)
| DVec (v : vexp)             (* array-valued expression, one entry per element *)
| DVecEl (v : vexp) (k : nat).  (* _expand_vectors (model.py:355-375): element k (veccat index of
                                   `ind`) of an array-valued expression, on the expanded scalar *)

Record var := Var { vt : vtype; vsize : nat; vdecl : attr -> decl }.

(* ast.Symbol.__init__ (ast.py:430-435): every attribute defaults to Primary(None) = "not
   given", except fixed = Primary(False), which then takes the coercion path *)
Definition ast_default (a : attr) : option lit :=
  match a with AFixed => Some (LBool false) | _ => None end.

Definition eff_decl (v : var) (a : attr) : decl :=
  match vdecl v a with
  | DNone => match ast_default a with Some l => DLit l | None => DNone end
  | d => d
  end.

(* ---------- cells of the metadata matrix ---------- *)
Inductive cell := CLit (x : ext) | CExp (e : aexp).

(* a list literal is not coerced (it is neither float nor int): values as written *)
Definition elem_cell (el : elem) : cell :=
  match el with ELit l => CLit (Fin (lit_val l)) | EExp e => CExp e end.

(* column of one variable for one attribute: `value if numel != 1 else repmat(value, size)`;
   None = the array literal has the wrong number of elements (CasADi raises) *)
Definition column (v : var) (a : attr) : option (list cell) :=
  match eff_decl v a with
  | DNone => Some (repeat_ (CLit (fst (default a))) (vsize v))
  | DLit l => Some (repeat_ (CLit (Fin (lit_val (coerce (vt v) l)))) (vsize v))
  | DExp e => Some (repeat_ (CExp e) (vsize v))
  | DElems es => if Nat.eqb (length es) (vsize v) then Some (map elem_cell es) else None
  | DVec w => if Nat.eqb (length (velems w)) (vsize v) then Some (map CExp (velems w)) else None
  | DVecEl w k => match nth_error (velems w) k with
                  | Some e => Some (repeat_ (CExp e) (vsize v))
                  | None => None
                  end
  end.

(* Python type of the attribute object on the Variable *)
Definition attr_tag (v : var) (a : attr) : tag :=
  match eff_decl v a with
  | DNone => snd (default a)
  | DLit l => lit_tag (coerce (vt v) l)
  | DExp _ | DVec _ | DVecEl _ _ => GMX
  | DElems _ => GList
  end.

Fixpoint all_some {A} (l : list (option A)) : option (list A) :=
  match l with
  | [] => Some []
  | Some x :: l' => match all_some l' with Some r => Some (x :: r) | None => None end
  | None :: _ => None
  end.

(* rows of one variable: element k of every attribute column, columns in attr_order
   (horzcat of the veccat'ed attribute lists, model.py:1379) *)
Definition var_rows (v : var) : option (list (list cell)) :=
  match all_some (map (column v) attr_order) with
  | Some cols => Some (map (fun k => map (fun col => nth k col (CLit NaN)) cols) (seq 0 (vsize v)))
  | None => None
  end.

(* one category (states | alg_states | inputs | parameters | constants) *)
Definition cat_rows (vs : list var) : option (list (list cell)) :=
  match all_some (map var_rows vs) with Some rs => Some (concat rs) | None => None end.

(* the model: five categories in the order of model.py:1354-1360 *)
Definition model := list (list var).

Definition cells (M : model) : option (list (list (list cell))) := all_some (map cat_rows M).

Definition cell_affine (c : cell) : bool := match c with CLit _ => true | CExp e => affine e end.
Definition cell_safe (p : list Qc) (c : cell) : bool := match c with CLit _ => true | CExp e => safe p e end.

Definition forall3 {A} (f : A -> bool) (m : list (list (list A))) : bool :=
  forallb (forallb (forallb f)) m.

(* the class for which the rebuild is proved correct; contract of the branch decision *)
Definition affine_ok (M : model) : bool :=
  match cells M with Some cs => forall3 cell_affine cs | None => false end.
Definition safe_ok (p : list Qc) (M : model) : bool :=
  match cells M with Some cs => forall3 (cell_safe p) cs | None => false end.

(* value of one cell: direct expression, or the rebuilt affine form.  A literal cell has a
   structurally zero Jacobian row, so the rebuilt entry is b itself (NaN, +-inf included) *)
Definition cell_val (rb : bool) (p : list Qc) (c : cell) : ext :=
  match c with
  | CLit x => x
  | CExp e => Fin (if rb then rebuild e p else eval p e)
  end.

(* variable_metadata_function(p); rb = "the affine rebuild branch was taken" (l.1402) *)
Definition metadata (rb : bool) (M : model) (p : list Qc) : option (list (list (list ext))) :=
  match cells M with
  | Some cs => Some (map (map (map (cell_val rb p))) cs)
  | None => None
  end.

(* the attributes as they sit on the Variable objects, evaluated at p and broadcast *)
Definition var_attrs (M : model) (p : list Qc) := metadata false M p.

Definition tags (M : model) : list (list (vtype * list tag)) :=
  map (map (fun v => (vt v, map (attr_tag v) attr_order))) M.

(* ---------- SPECIFICATION (what the property text says) ---------- *)
Definition spec_default (a : attr) : ext :=
  match a with
  | AValue => NaN | AStart => Fin 0 | AMin => NegInf | AMax => PosInf
  | ANominal => Fin 0 | AFixed => Fin 0 (* false *)
  end.

Definition spec_elem (p : list Qc) (el : elem) : ext :=
  match el with ELit l => Fin (lit_val l) | EExp e => Fin (eval p e) end.

(* declared value of attribute a of element k of variable v at parameter valuation p *)
Definition spec_entry (p : list Qc) (v : var) (a : attr) (k : nat) : ext :=
  match vdecl v a with
  | DNone => spec_default a
  | DLit l => Fin (lit_val l)
  | DExp e => Fin (eval p e)
  | DElems es => match nth_error es k with Some el => spec_elem p el | None => NaN end
  | DVec w => match nth_error (veval p w) k with Some q => Fin q | None => NaN end
  | DVecEl w j => match nth_error (veval p w) j with Some q => Fin q | None => NaN end
  end.

Definition spec_rows (p : list Qc) (v : var) : list (list ext) :=
  map (fun k => map (fun a => spec_entry p v a k) attr_order) (seq 0 (vsize v)).

Definition spec_metadata (p : list Qc) (M : model) : list (list (list ext)) :=
  map (fun vs => concat (map (spec_rows p) vs)) M.

(* well-formed declarations: array literals have the variable's size, scalar literals are
   well typed for the variable *)
Definition decl_wf (v : var) (a : attr) : bool :=
  match vdecl v a with
  | DNone | DExp _ => true
  | DLit l => well_typed (vt v) l
  | DElems es => Nat.eqb (length es) (vsize v)
  | DVec w => Nat.eqb (length (velems w)) (vsize v)
  | DVecEl w j => Nat.ltb j (length (velems w))
  end.
Definition var_wf (v : var) : bool := forallb (decl_wf v) attr_order.
Definition model_wf (M : model) : bool := forallb (forallb var_wf) M.

(* ---------- _substitute_metadata (model.py:239-267) ----------
   simplify()'s replace_parameter_values / replace_parameter_expressions / resolve passes eliminate
   parameters: entry i of the OLD parameter vector becomes the expression nth i sg over the NEW
   parameter vector (Par j for a surviving parameter, a constant or the parameter's declared
   expression for an eliminated one), in every symbolic attribute of every variable. *)
Fixpoint subst (sg : list aexp) (e : aexp) : aexp :=
  match e with
  | Cst c => Cst c
  | Par i => nth i sg (Cst 0)
  | Add a b => Add (subst sg a) (subst sg b)
  | Sub a b => Sub (subst sg a) (subst sg b)
  | Mul a b => Mul (subst sg a) (subst sg b)
  | Div a b => Div (subst sg a) (subst sg b)
  | Neg a => Neg (subst sg a)
  | Pow a n => Pow (subst sg a) n
  | IfB c a b => IfB (subst sg c) (subst sg a) (subst sg b)
  | NotB a => NotB (subst sg a)
  | LtB a b => LtB (subst sg a) (subst sg b)
  end.

Fixpoint vsubst (sg : list aexp) (v : vexp) : vexp :=
  match v with
  | VList es => VList (map (subst sg) es)
  | VFill e n => VFill (subst sg e) n
  | VScale c v => VScale c (vsubst sg v)
  | VNeg v => VNeg (vsubst sg v)
  | VAdd v w => VAdd (vsubst sg v) (vsubst sg w)
  end.

Definition subst_elem (sg : list aexp) (el : elem) : elem :=
  match el with ELit l => ELit l | EExp e => EExp (subst sg e) end.

(* l.245-246: only symbolic, non-constant attributes are touched; l.255-265: a scalar result that
   became constant is turned into a Python number of the variable's type (int(float(v)) truncates;
   Boolean variables keep the constant MX).  Array-valued attributes stay MX. *)
Definition subst_decl (t : vtype) (sg : list aexp) (d : decl) : decl :=
  match d with
  | DNone => DNone
  | DLit l => DLit l
  | DExp e =>
      if pfree e then DExp e else
      let e' := subst sg e in
      if pfree e' then match t with TBool => DExp e' | _ => DLit (coerce t (LReal (v0 e'))) end
      else DExp e'
  | DElems es => DElems (map (subst_elem sg) es)
  | DVec w => DVec (vsubst sg w)
  | DVecEl w k => DVecEl (vsubst sg w) k
  end.

Definition subst_var (sg : list aexp) (v : var) : var :=
  Var (vt v) (vsize v) (fun a => subst_decl (vt v) sg (vdecl v a)).
Definition apply_subst (sg : list aexp) (M : model) : model := map (map (subst_var sg)) M.

(* a sequence of simplify steps; which parameters each step eliminates, and by what, is given *)
Fixpoint run (steps : list (list aexp)) (M : model) : model :=
  match steps with [] => M | sg :: r => run r (apply_subst sg M) end.
(* the ORIGINAL parameter valuation that corresponds to the final one *)
Fixpoint env_back (steps : list (list aexp)) (p : list Qc) : list Qc :=
  match steps with [] => p | sg :: r => map (eval (env_back r p)) sg end.

(* hypothesis of the substitution theorems: an Integer attribute that becomes constant has an
   integral value (int() would truncate otherwise) *)
Definition is_int (q : Qc) : bool := Pos.eqb (Qden (this q)) 1.
Definition int_ok (sg : list aexp) (v : var) (a : attr) : bool :=
  match vdecl v a, vt v with
  | DExp e, TInt => if negb (pfree e) && pfree (subst sg e) then is_int (v0 (subst sg e)) else true
  | _, _ => true
  end.
Definition subst_ok (sg : list aexp) (M : model) : bool :=
  forallb (forallb (fun v => forallb (int_ok sg v) attr_order)) M.
Fixpoint steps_ok (steps : list (list aexp)) (M : model) : bool :=
  match steps with [] => true | sg :: r => subst_ok sg M && steps_ok r (apply_subst sg M) end.

(* ---------- correspondence ---------- *)
Definition qabs (q : Qc) : Qc := Q2Qc (Qabs (this q)).
Definition qle (a b : Qc) : bool := match (a ?= b) with Gt => false | _ => true end.
(* doubles vs exact values: |x - q| <= 2^-30 (1 + |q|); the harness keeps intermediate
   magnitudes below 2^12 and divisors above 1/8 *)
Definition tol : Qc := Q2Qc (1 # 1073741824).
Definition close (x q : ext) : bool :=
  match x, q with
  | NegInf, NegInf | PosInf, PosInf | NaN, NaN => true
  | Fin a, Fin b => qle (qabs (a - b)) (tol * (1 + qabs b))
  | _, _ => false
  end.

Fixpoint all2 {A B} (f : A -> B -> bool) (l : list A) (m : list B) : bool :=
  match l, m with
  | [], [] => true
  | x :: l', y :: m' => f x y && all2 f l' m'
  | _, _ => false
  end.

Definition mats_close (obs : list (list (list ext))) (mdl : option (list (list (list ext)))) : bool :=
  match mdl with Some m => all2 (all2 (all2 close)) obs m | None => false end.

Definition tag_eqb (a b : tag) : bool :=
  match a, b with
  | GInt, GInt | GFloat, GFloat | GBool, GBool | GDefault, GDefault | GMX, GMX | GList, GList => true
  | _, _ => false
  end.
Definition vtype_eqb (a b : vtype) : bool :=
  match a, b with TReal, TReal | TInt, TInt | TBool, TBool => true | _, _ => false end.

(* which tags are compared: the Python type of the variable always; of an attribute only
   when it was declared by a scalar literal (the coercion path) *)
Definition tag_row_ok (v : var) (o : vtype * list (option tag)) : bool :=
  vtype_eqb (vt v) (fst o) &&
  all2 (fun a ot => match ot with None => true | Some t => tag_eqb (attr_tag v a) t end) attr_order (snd o).

(* one observation point: parameter vector, metadata matrices, Variable-level matrices *)
Definition point := (list Qc * list (list (list ext)) * list (list (list ext)))%type.

Record case := Case {
  c_model : model;                                (* declared attributes, ORIGINAL parameter indexing *)
  c_steps : list (list aexp);                     (* parameter eliminations of the simplify steps so far *)
  c_rebuilt : bool;                               (* observed branch (false when unknown) *)
  c_tags : list (list (vtype * list (option tag)));
  c_points : list point }.

Definition check_point (M : model) (rb : bool) (pt : point) : bool :=
  let '(p, om, ov) := pt in
  safe_ok p M && mats_close om (metadata rb M p) && mats_close ov (var_attrs M p).

Definition check_case (c : case) : bool :=
  let M := run (c_steps c) (c_model c) in
  steps_ok (c_steps c) (c_model c) &&
  implb (c_rebuilt c) (affine_ok M) &&
  all2 (all2 tag_row_ok) M (c_tags c) &&
  forallb (check_point M (c_rebuilt c)) (c_points c).

(* ---------- tie side condition: tables regenerated from the sources (run/C13/Gen.v) ---------- *)
Definition ext_eqb (x y : ext) : bool :=
  match x, y with
  | NegInf, NegInf | PosInf, PosInf | NaN, NaN => true
  | Fin a, Fin b => Qc_eq_bool a b
  | _, _ => false
  end.
Definition attr_eqb (a b : attr) : bool :=
  match a, b with
  | AValue, AValue | AMin, AMin | AMax, AMax | AStart, AStart | AFixed, AFixed | ANominal, ANominal => true
  | _, _ => false
  end.
Definition olit_eqb (a b : option lit) : bool :=
  match a, b with
  | None, None => true
  | Some (LInt x), Some (LInt y) => Z.eqb x y
  | Some (LReal x), Some (LReal y) => Qc_eq_bool x y
  | Some (LBool x), Some (LBool y) => Bool.eqb x y
  | _, _ => false
  end.

(* order = CASADI_ATTRIBUTES; dfl = Variable.__init__ assignments; astd = ast.Symbol.__init__ *)
Definition tie_ok (order : list attr) (dfl : list (attr * (ext * tag))) (astd : list (attr * option lit)) : bool :=
  all2 attr_eqb order attr_order &&
  Nat.eqb (length dfl) 6 && Nat.eqb (length astd) 6 &&
  forallb (fun a =>
    existsb (fun x => attr_eqb a (fst x) && ext_eqb (fst (default a)) (fst (snd x))
                      && tag_eqb (snd (default a)) (snd (snd x))) dfl &&
    existsb (fun x => attr_eqb a (fst x) && olit_eqb (ast_default a) (snd x)) astd) attr_order.
