(* C27 — executable model of assembling a library tree from several parsed files.
   Mirrors (line references are to /repo/src/pymoca at HEAD):
     ast.py    Class._extend           773-798   (recursive class merge + attribute adoption)
     ast.py    Tree.extend             920-922   (_extend, then parent back-pointers are rebuilt:
                                                  back-pointers are not part of this value-level model,
                                                  the child process checks them on the real tree)
     parser.py file_to_tree            776-792   (placeholder packages for a `within` clause)
     api.py    _compile_model          109-119   (tree = first parse; tree.extend(every later parse))
     tools/compiler.py parse_all        86-96    (ast = Tree(name=...); ast.extend(every parse))
   No proofs in this file.

   A class is a header (type + the ten adoptable attributes + the three or-ed flags) and an
   insertion-ordered dictionary of nested classes (association list, first match = the key's entry).
   Attribute VALUES are abstracted to token lists (one token per symbol / equation / import ...,
   interned by the harness); the only thing _extend looks at is emptiness (Python truthiness). *)
From Coq Require Import List Bool PArith Arith.
Import ListNotations.

Definition name := positive.
Definition attr := list positive.          (* [] = falsy (empty dict / list / "" ) *)

Record hdr := Hdr { h_ty : positive; h_attrs : list attr; h_flags : list bool }.

Inductive node := Node (h : hdr) (cs : list (name * node)).

Definition pkg_ty : positive := 1%positive.     (* "package" *)
Definition root_ty : positive := 2%positive.    (* ""  (ast.Tree() / ast.Class() default) *)

(* ast.Class(name=p, type="package"): every attribute empty, every flag False (parser.py:784) *)
Definition ph_hdr : hdr := Hdr pkg_ty (repeat [] 10) (repeat false 3).
(* ast.Tree() *)
Definition root_hdr : hdr := Hdr root_ty (repeat [] 10) (repeat false 3).

(* ---- attribute adoption, ast.py:782-798 ---- *)
Definition is_empty (a : attr) : bool := match a with [] => true | _ => false end.

(* `if not getattr(self, attr) and getattr(other, attr): setattr(self, attr, getattr(other, attr))` *)
Definition adopt (s o : attr) : attr := if is_empty s then o else s.

Fixpoint merge_attrs (s o : list attr) : list attr :=
  match s, o with
  | [], _ => o
  | _, [] => s
  | a :: s', b :: o' => adopt a b :: merge_attrs s' o'
  end.

(* `if getattr(other, attr): setattr(self, attr, True)` *)
Fixpoint merge_flags (s o : list bool) : list bool :=
  match s, o with
  | [], _ => o
  | _, [] => s
  | a :: s', b :: o' => orb a b :: merge_flags s' o'
  end.

(* name and type of the receiver are never touched by _extend *)
Definition merge_hdr (s o : hdr) : hdr :=
  Hdr (h_ty s) (merge_attrs (h_attrs s) (h_attrs o)) (merge_flags (h_flags s) (h_flags o)).

(* ---- insertion-ordered dictionaries ---- *)
Fixpoint find (n : name) (l : list (name * node)) : option node :=
  match l with
  | [] => None
  | (k, x) :: r => if Pos.eqb k n then Some x else find n r
  end.

Definition has (n : name) (l : list (name * node)) : bool :=
  match find n l with Some _ => true | None => false end.

Fixpoint upd (n : name) (f : node -> node) (l : list (name * node)) : list (name * node) :=
  match l with
  | [] => []
  | (k, x) :: r => if Pos.eqb k n then (k, f x) :: r else (k, x) :: upd n f r
  end.

(* the loop of ast.py:774-778 over other.classes, with the recursive call abstracted
   (section variable, so that [merge_children extend] is convertible with the inner fix of [extend]) *)
Section MergeChildren.
  Variable ext : node -> node -> node.
  Fixpoint merge_children (co acc : list (name * node)) : list (name * node) :=
    match co with
    | [] => acc
    | (n, c) :: co' =>
        merge_children co'
          (if has n acc then upd n (fun x => ext x c) acc     (* self.classes[n]._extend(other.classes[n]) *)
           else acc ++ [(n, c)])                              (* self.classes[n] = other.classes[n]        *)
    end.
End MergeChildren.

(* Class._extend(self = s, other = o); the inner fix is merge_children with ext := extend
   (written inline for the guard checker; Proofs/C27_merge.v: extend_eq) *)
Fixpoint extend (s o : node) {struct o} : node :=
  match o with
  | Node ho co =>
      match s with
      | Node hs cs =>
          Node (merge_hdr hs ho)
               ((fix go (co acc : list (name * node)) : list (name * node) :=
                   match co with
                   | [] => acc
                   | (n, c) :: co' =>
                       go co' (if has n acc then upd n (fun x => extend x c) acc else acc ++ [(n, c)])
                   end) co cs)
      end
  end.

(* ---- parser.file_to_tree (parser.py:776-792) ---- *)
Fixpoint wrap (within : list name) (classes : list (name * node)) : list (name * node) :=
  match within with
  | [] => classes                                          (* insert_node.classes.update(f.classes) *)
  | p :: w => [(p, Node ph_hdr (wrap w classes))]          (* package = Class(name=p, type="package") *)
  end.

Definition file := (list name * list (name * node))%type.   (* (within path, top-level classes) *)

Definition file_to_tree (f : file) : node := Node root_hdr (wrap (fst f) (snd f)).

(* ---- the two drivers ---- *)
Definition empty_root : node := Node root_hdr [].

Definition nth_file (fs : list file) (i : nat) : file := nth i fs ([], []).

(* tools/compiler.py parse_all: ast = Tree(); for path in files: ast.extend(parse(path)) *)
Definition merge_compiler (ts : list node) : node := fold_left extend ts empty_root.

(* casadi api._compile_model: tree = parse(first); tree.extend(parse(next)) ... *)
Definition merge_api (ts : list node) : node :=
  match ts with
  | [] => empty_root
  | t :: r => fold_left extend r t
  end.

Definition merge_in_order (compiler_style : bool) (fs : list file) (order : list nat) : node :=
  let ts := map (fun i => file_to_tree (nth_file fs i)) order in
  if compiler_style then merge_compiler ts else merge_api ts.

(* ---- lookup: the observation of the theorems ---- *)
Fixpoint get (t : node) (p : list name) : option hdr :=
  match t with
  | Node h cs =>
      match p with
      | [] => Some h
      | n :: p' => match find n cs with Some c => get c p' | None => None end
      end
  end.

(* ---- decidable equality (correspondence) ---- *)
Fixpoint list_eqb {A} (e : A -> A -> bool) (a b : list A) : bool :=
  match a, b with
  | [], [] => true
  | x :: a', y :: b' => e x y && list_eqb e a' b'
  | _, _ => false
  end.

Definition hdr_eqb (a b : hdr) : bool :=
  Pos.eqb (h_ty a) (h_ty b) && list_eqb (list_eqb Pos.eqb) (h_attrs a) (h_attrs b)
  && list_eqb Bool.eqb (h_flags a) (h_flags b).

Fixpoint node_eqb (a b : node) : bool :=
  match a, b with
  | Node ha ca, Node hb cb =>
      hdr_eqb ha hb &&
      (fix go (l1 l2 : list (name * node)) : bool :=
         match l1, l2 with
         | [], [] => true
         | (n1, x) :: l1', (n2, y) :: l2' => Pos.eqb n1 n2 && node_eqb x y && go l1' l2'
         | _, _ => false
         end) ca cb
  end.

(* ---- decidable versions of the theorems' hypotheses (evaluated on every generated case) ---- *)
Fixpoint nodupb (l : list name) : bool :=
  match l with
  | [] => true
  | x :: r => negb (existsb (Pos.eqb x) r) && nodupb r
  end.

(* a Python dict has no duplicate keys, at every level *)
Fixpoint wfb (t : node) : bool :=
  match t with
  | Node _ cs =>
      nodupb (map fst cs) &&
      (fix all (l : list (name * node)) : bool :=
         match l with [] => true | (_, c) :: l' => wfb c && all l' end) cs
  end.

Definition acompatb (a b : attr) : bool := is_empty a || is_empty b || list_eqb Pos.eqb a b.

Fixpoint lcompatb (s o : list attr) : bool :=
  match s, o with
  | a :: s', b :: o' => acompatb a b && lcompatb s' o'
  | _, _ => true
  end.

Definition hcompatb (a b : hdr) : bool := Pos.eqb (h_ty a) (h_ty b) && lcompatb (h_attrs a) (h_attrs b).

(* every class present in both trees has compatible headers *)
Fixpoint tcompatb (a b : node) : bool :=
  match a with
  | Node ha ca =>
      match b with
      | Node hb cb =>
          hcompatb ha hb &&
          (fix go (l : list (name * node)) : bool :=
             match l with
             | [] => true
             | (n, x) :: l' =>
                 (match find n cb with Some y => tcompatb x y | None => true end) && go l'
             end) ca
      end
  end.

Definition compat_filesb (ts : list node) : bool :=
  forallb (fun f => forallb (fun g => tcompatb f g) ts) ts.

(* ---- correspondence case ----
   style        : true = compiler.parse_all style, false = api._compile_model style
   expect_compat: the generator claims this is a compatible split (then the hypotheses of the
                  permutation theorem must hold on the parsed files)
   files        : per file (within, classes as delivered by the real ASTListener, tree returned by the real parse)
   obs          : (order, merged tree dumped from the real Tree.extend run) *)
Definition case := (bool * bool * list (file * node) * list (list nat * node))%type.

Definition check_case (c : case) : bool :=
  match c with
  | (style, expect_compat, files, obs) =>
      let fs := map fst files in
      let ts := map file_to_tree fs in
      forallb (fun fo => node_eqb (file_to_tree (fst fo)) (snd fo)) files
      && forallb wfb ts
      && (if expect_compat then compat_filesb ts else true)
      && forallb (fun ot => node_eqb (merge_in_order style fs (fst ot)) (snd ot)) obs
  end.
