(* C11 — DAE residual equals the Modelica meaning of the flat equations.
   Executable model, NO proofs in this file.

   Mirrors /repo/src/pymoca/backends/casadi/generator.py:
     OP_MAP (27-44), ForLoop.__init__ (49-61), exitExpression (233-404),
     exitIfExpression (406-418), exitEquation (420-452), exitForEquation (459-524),
     exitIfEquation (526-544), get_indexed_symbol (858-906, 1-based -> 0-based),
   on the scalar / 1-D-array fragment (no matrices, no nested loops, no user functions).

   Two languages:
     expr/eqn  + m_eval/m_res   : Modelica flat expressions/equations and their meaning
                                  (Booleans are Booleans, subscripts are 1-based);
     caexpr    + ca_eval/ca_res : the CasADi graph the generator builds and CasADi's
                                  evaluation of it (numbers only, relations yield 0/1,
                                  if_else c a b = if c <> 0 then a else b with
                                  short-circuit, subscripts 0-based);
     tr / tr_eqn                : the generator.
   The operator -> MX-method table is a PARAMETER of tr (regenerated from the source on
   every run, see vlib/c11.py); `table_ok` is the decidable side condition under which
   the theorems of Proofs/C11_residual.v hold.  Elementary functions are a Section
   variable applied identically on both sides. *)
From Coq Require Import ZArith QArith Qcanon List Bool.
Import ListNotations.
Open Scope Qc_scope.

Inductive res (A : Type) : Type := Ok (a : A) | Err (why : nat).
Arguments Ok {A} a.
Arguments Err {A} why.
(* error kinds *)
Definition E_nomethod := 1%nat.   (* getattr(lhs, OP_MAP[op]) raises AttributeError *)
Definition E_arity := 2%nat.      (* method called with the wrong number of operands *)
Definition E_shape := 3%nat.      (* if-equation branches of different length (line 530) *)
Definition E_notable := 4%nat.    (* operator missing from OP_MAP *)

(* ---------- exact numeric primitives shared by both semantics ---------- *)
Definition qltb (a b : Qc) : bool := match a ?= b with Lt => true | _ => false end.
Definition qleb (a b : Qc) : bool := match a ?= b with Gt => false | _ => true end.
Definition qeqb (a b : Qc) : bool := match a ?= b with Eq => true | _ => false end.
Definition qabs (a : Qc) : Qc := if qltb a 0 then - a else a.
Definition qmin (a b : Qc) : Qc := if qleb a b then a else b.
Definition qmax (a b : Qc) : Qc := if qleb a b then b else a.
Definition qdiv (a b : Qc) : option Qc := if qeqb b 0 then None else Some (a / b).
(* power with an integer-valued exponent (the exact fragment); 0 ^ negative undefined *)
Definition qpow (a b : Qc) : option Qc :=
  match this b with
  | Qmake n 1%positive =>
      match n with
      | Z0 => Some 1
      | Zpos p => Some (Qcpower a (Pos.to_nat p))
      | Zneg p => if qeqb a 0 then None else Some (/ (Qcpower a (Pos.to_nat p)))
      end
  | _ => None
  end.
Definition b2q (b : bool) : Qc := if b then 1 else 0.
Definition z2q (z : Z) : Qc := Q2Qc (inject_Z z).

(* ---------- Modelica side ---------- *)
Inductive ty := TReal | TBool.
Inductive value := VNum (q : Qc) | VBool (b : bool).

Inductive unop := UNeg | UPos | UNot | UAbs.
(* BMul is `*` (generator: mtimes, line 239/256); BEMul is `.*` (OP_MAP "*") *)
Inductive binop := BAdd | BSub | BMul | BEMul | BDiv | BPow
                 | BGt | BLt | BLe | BGe | BNe | BEq | BMin | BMax | BAnd | BOr.

(* references: scalar variable, derivative of a scalar (an independent input), array element
   with a constant subscript x[k], array element inside a for-loop x[i+k], the loop index *)
Inductive ref := RVar (x : positive) | RDer (x : positive)
               | RIdx (x : positive) (k : Z) | RLoopIdx (x : positive) (k : Z) | RLoopVar
               | RAff (x : positive) (a b : Z).      (* x[a*i + b] inside a for-loop, a may be negative or zero *)

Inductive expr :=
| ENum (q : Qc)
| EBool (b : bool)
| ERef (r : ref)
| EUn (o : unop) (a : expr)
| EBin (o : binop) (a b : expr)
| EIf (brs : list (expr * expr)) (els : expr)      (* if c1 then e1 elseif c2 then e2 ... else els *)
| EFun (f : positive) (a : expr).                   (* sin, cos, exp, ... *)

(* Modelica environment: arrays are 1-based *)
Record menv := { m_sc : positive -> value; m_der : positive -> Qc;
                 m_arr : positive -> Z -> Qc; m_i : Z }.

Section WithFun.
Variable F : positive -> Qc -> Qc.   (* elementary functions, uninterpreted *)

Definition m_ref (r : ref) (rho : menv) : value :=
  match r with
  | RVar x => m_sc rho x
  | RDer x => VNum (m_der rho x)
  | RIdx x k => VNum (m_arr rho x k)
  | RLoopIdx x k => VNum (m_arr rho x (m_i rho + k))
  | RLoopVar => VNum (z2q (m_i rho))
  | RAff x a b => VNum (m_arr rho x (a * m_i rho + b))
  end.

Definition m_un (o : unop) (v : value) : option value :=
  match o, v with
  | UNeg, VNum a => Some (VNum (- a))
  | UPos, VNum a => Some (VNum a)
  | UAbs, VNum a => Some (VNum (qabs a))
  | UNot, VBool b => Some (VBool (negb b))
  | _, _ => None
  end.

Definition onum (o : option Qc) : option value :=
  match o with Some q => Some (VNum q) | None => None end.

Definition m_bin (o : binop) (v w : value) : option value :=
  match o, v, w with
  | BAdd, VNum a, VNum b => Some (VNum (a + b))
  | BSub, VNum a, VNum b => Some (VNum (a - b))
  | BMul, VNum a, VNum b => Some (VNum (a * b))
  | BEMul, VNum a, VNum b => Some (VNum (a * b))
  | BDiv, VNum a, VNum b => onum (qdiv a b)
  | BPow, VNum a, VNum b => onum (qpow a b)
  | BGt, VNum a, VNum b => Some (VBool (qltb b a))
  | BLt, VNum a, VNum b => Some (VBool (qltb a b))
  | BLe, VNum a, VNum b => Some (VBool (qleb a b))
  | BGe, VNum a, VNum b => Some (VBool (qleb b a))
  | BNe, VNum a, VNum b => Some (VBool (negb (qeqb a b)))
  | BEq, VNum a, VNum b => Some (VBool (qeqb a b))
  | BMin, VNum a, VNum b => Some (VNum (qmin a b))
  | BMax, VNum a, VNum b => Some (VNum (qmax a b))
  | BAnd, VBool a, VBool b => Some (VBool (a && b))
  | BOr, VBool a, VBool b => Some (VBool (a || b))
  | _, _, _ => None
  end.

Fixpoint m_eval (e : expr) (rho : menv) : option value :=
  match e with
  | ENum q => Some (VNum q)
  | EBool b => Some (VBool b)
  | ERef r => Some (m_ref r rho)
  | EUn o a => match m_eval a rho with Some v => m_un o v | None => None end
  | EBin o a b =>
      match m_eval a rho, m_eval b rho with
      | Some v, Some w => m_bin o v w
      | _, _ => None
      end
  | EIf brs els =>
      (fix go (l : list (expr * expr)) : option value :=
         match l with
         | [] => m_eval els rho
         | (c, a) :: r =>
             match m_eval c rho with
             | Some (VBool true) => m_eval a rho
             | Some (VBool false) => go r
             | _ => None
             end
         end) brs
  | EFun f a => match m_eval a rho with Some (VNum q) => Some (VNum (F f q)) | _ => None end
  end.

(* no `<>` anywhere *)
Fixpoint ne_free (e : expr) : bool :=
  match e with
  | ENum _ | EBool _ | ERef _ => true
  | EUn _ a => ne_free a
  | EBin o a b => match o with BNe => false | _ => ne_free a && ne_free b end
  | EIf brs els =>
      (fix go (l : list (expr * expr)) : bool :=
         match l with
         | [] => ne_free els
         | (c, a) :: r => ne_free c && ne_free a && go r
         end) brs
  | EFun _ a => ne_free a
  end.

(* typing: which expressions are in the supported grammar *)
Definition ty_ref (G : positive -> ty) (r : ref) : ty :=
  match r with RVar x => G x | _ => TReal end.
Definition ty_eqb (a b : ty) : bool :=
  match a, b with TReal, TReal => true | TBool, TBool => true | _, _ => false end.
Definition ty_un (o : unop) (t : ty) : option ty :=
  match o, t with
  | UNeg, TReal | UPos, TReal | UAbs, TReal => Some TReal
  | UNot, TBool => Some TBool
  | _, _ => None
  end.
Definition ty_bin (o : binop) (t u : ty) : option ty :=
  match o, t, u with
  | (BAdd | BSub | BMul | BEMul | BDiv | BPow | BMin | BMax), TReal, TReal => Some TReal
  | (BGt | BLt | BLe | BGe | BNe | BEq), TReal, TReal => Some TBool
  | (BAnd | BOr), TBool, TBool => Some TBool
  | _, _, _ => None
  end.
Fixpoint typeof (G : positive -> ty) (e : expr) : option ty :=
  match e with
  | ENum _ => Some TReal
  | EBool _ => Some TBool
  | ERef r => Some (ty_ref G r)
  | EUn o a => match typeof G a with Some t => ty_un o t | None => None end
  | EBin o a b =>
      match typeof G a, typeof G b with Some t, Some u => ty_bin o t u | _, _ => None end
  | EIf brs els =>
      match typeof G els with
      | Some t =>
          (fix go (l : list (expr * expr)) : option ty :=
             match l with
             | [] => Some t
             | (c, a) :: r =>
                 match typeof G c, typeof G a, go r with
                 | Some TBool, Some u, Some _ => if ty_eqb u t then Some t else None
                 | _, _, _ => None
                 end
             end) brs
      | None => None
      end
  | EFun _ a => match typeof G a with Some TReal => Some TReal | _ => None end
  end.

(* ---------- CasADi side ---------- *)
Inductive canode := CAdd | CSub | CMul | CDiv | CPow | CLt | CLe | CGt | CGe | CEq | CNe
                  | CFmin | CFmax.
(* symbols; arrays are 0-based.  CGather x k = orig_symbol[indices-1] mapped over the loop
   (ForLoop.register_indexed_symbol line 72, exitForEquation line 512) at the current
   iteration, where indices = values + k *)
Inductive casym := SVar (x : positive) | SDer (x : positive)
                 | SElem (x : positive) (k0 : Z) | SGather (x : positive) (k : Z) | SLoopVar
                 | SGatherA (x : positive) (a b : Z).   (* indices = index_expr mapped over the loop values (ForLoop.register_indexed_symbol) *)
Inductive caexpr :=
| CConst (q : Qc)
| CSym (s : casym)
| CNeg (a : caexpr)
| CFabs (a : caexpr)
| CBin (n : canode) (a b : caexpr)
| CIfElse (c a b : caexpr)        (* ca.if_else(c, a, b, True) *)
| CFun (f : positive) (a : caexpr).

Record cenv := { c_sc : positive -> Qc; c_der : positive -> Qc;
                 c_arr : positive -> Z -> Qc; c_i : Z }.

Definition c_sym (s : casym) (rho : cenv) : Qc :=
  match s with
  | SVar x => c_sc rho x
  | SDer x => c_der rho x
  | SElem x k0 => c_arr rho x k0
  | SGather x k => c_arr rho x ((c_i rho + k) - 1)
  | SLoopVar => z2q (c_i rho)
  | SGatherA x a b => c_arr rho x ((a * c_i rho + b) - 1)
  end.

Definition ca_bin (n : canode) (a b : Qc) : option Qc :=
  match n with
  | CAdd => Some (a + b) | CSub => Some (a - b) | CMul => Some (a * b)
  | CDiv => qdiv a b | CPow => qpow a b
  | CLt => Some (b2q (qltb a b)) | CLe => Some (b2q (qleb a b))
  | CGt => Some (b2q (qltb b a)) | CGe => Some (b2q (qleb b a))
  | CEq => Some (b2q (qeqb a b)) | CNe => Some (b2q (negb (qeqb a b)))
  | CFmin => Some (qmin a b) | CFmax => Some (qmax a b)
  end.

Fixpoint ca_eval (c : caexpr) (rho : cenv) : option Qc :=
  match c with
  | CConst q => Some q
  | CSym s => Some (c_sym s rho)
  | CNeg a => match ca_eval a rho with Some x => Some (- x) | None => None end
  | CFabs a => match ca_eval a rho with Some x => Some (qabs x) | None => None end
  | CBin n a b =>
      match ca_eval a rho, ca_eval b rho with
      | Some x, Some y => ca_bin n x y
      | _, _ => None
      end
  | CIfElse c a b =>
      match ca_eval c rho with
      | Some x => if qeqb x 0 then ca_eval b rho else ca_eval a rho
      | None => None
      end
  | CFun f a => match ca_eval a rho with Some x => Some (F f x) | None => None end
  end.

(* ---------- the operator table (T3) ---------- *)
(* keys of OP_MAP *)
Inductive opkey := K_mul | K_add | K_sub | K_div | K_pow | K_gt | K_lt | K_le | K_ge | K_ne | K_eq
                 | K_min | K_max | K_abs | K_and | K_or.
(* method names that occur as values (anything else is M_other) *)
Inductive meth := M_mul | M_add | M_sub | M_truediv | M_div | M_pow | M_gt | M_lt | M_le | M_ge
                | M_ne | M_eq | M_fmin | M_fmax | M_fabs | M_other.
(* one row: key, method, hasattr(casadi.MX, method) *)
Definition table := list (opkey * (meth * bool)).

Definition opkey_eqb (a b : opkey) : bool :=
  match a, b with
  | K_mul, K_mul | K_add, K_add | K_sub, K_sub | K_div, K_div | K_pow, K_pow | K_gt, K_gt
  | K_lt, K_lt | K_le, K_le | K_ge, K_ge | K_ne, K_ne | K_eq, K_eq | K_min, K_min
  | K_max, K_max | K_abs, K_abs | K_and, K_and | K_or, K_or => true
  | _, _ => false
  end.
Definition meth_eqb (a b : meth) : bool :=
  match a, b with
  | M_mul, M_mul | M_add, M_add | M_sub, M_sub | M_truediv, M_truediv | M_div, M_div
  | M_pow, M_pow | M_gt, M_gt | M_lt, M_lt | M_le, M_le | M_ge, M_ge | M_ne, M_ne | M_eq, M_eq
  | M_fmin, M_fmin | M_fmax, M_fmax | M_fabs, M_fabs | M_other, M_other => true
  | _, _ => false
  end.
(* Python dict: the LAST binding of a duplicated key wins; the generated table lists the
   dict's items, so keys are unique and first-match is the same *)
Fixpoint lookup (t : table) (k : opkey) : option (meth * bool) :=
  match t with
  | [] => None
  | (k', v) :: r => if opkey_eqb k k' then Some v else lookup r k
  end.

(* what calling MX.<method>(rhs) builds (CasADi 3.x operator overloads) *)
Definition meth_node (m : meth) : option canode :=
  match m with
  | M_mul => Some CMul | M_add => Some CAdd | M_sub => Some CSub | M_truediv => Some CDiv
  | M_div => Some CDiv | M_pow => Some CPow | M_gt => Some CGt | M_lt => Some CLt
  | M_le => Some CLe | M_ge => Some CGe | M_ne => Some CNe | M_eq => Some CEq
  | M_fmin => Some CFmin | M_fmax => Some CFmax
  | M_fabs | M_other => None
  end.

Definition key_of (o : binop) : opkey :=
  match o with
  | BAdd => K_add | BSub => K_sub | BMul => K_mul | BEMul => K_mul | BDiv => K_div
  | BPow => K_pow | BGt => K_gt | BLt => K_lt | BLe => K_le | BGe => K_ge | BNe => K_ne
  | BEq => K_eq | BMin => K_min | BMax => K_max | BAnd => K_and | BOr => K_or
  end.

(* the table the theorems need: OP_MAP of the repaired tree *)
Definition expected (k : opkey) : meth :=
  match k with
  | K_mul => M_mul | K_add => M_add | K_sub => M_sub | K_div => M_truediv | K_pow => M_pow
  | K_gt => M_gt | K_lt => M_lt | K_le => M_le | K_ge => M_ge | K_ne => M_ne | K_eq => M_eq
  | K_min => M_fmin | K_max => M_fmax | K_abs => M_fabs | K_and => M_mul | K_or => M_add
  end.
Definition all_keys : list opkey :=
  [K_mul; K_add; K_sub; K_div; K_pow; K_gt; K_lt; K_le; K_ge; K_ne; K_eq; K_min; K_max; K_abs; K_and; K_or].

Definition row_ok (t : table) (k : opkey) : bool :=
  match lookup t k with
  | Some (m, ex) => meth_eqb m (expected k) && ex
  | None => false
  end.
(* Repaired in e57542a; before it: the parser delivers Modelica's inequality as "<>", and OP_MAP has no such
   key (its "!=" key is not a Modelica token), so `a <> b` ends in get_function("<>") ->
   "Unknown function".  K_ne is the row for "<>": absent before the repair.  The core side
   condition therefore covers every key but K_ne and asks of K_ne only that, IF it is present
   and usable, it is the right method; totality additionally needs ne_ok or a `<>`-free input. *)
Definition core_keys : list opkey :=
  [K_mul; K_add; K_sub; K_div; K_pow; K_gt; K_lt; K_le; K_ge; K_eq; K_min; K_max; K_abs; K_and; K_or].
Definition ne_row_sound (t : table) : bool :=
  match lookup t K_ne with
  | None => true
  | Some (m, ex) => negb ex || meth_eqb m M_ne
  end.
Definition table_ok (t : table) : bool := forallb (row_ok t) core_keys && ne_row_sound t.
Definition ne_ok (t : table) : bool := row_ok t K_ne.
(* every operator of the grammar has a method that exists (C11_total's side condition) *)
Definition table_total (t : table) : bool :=
  forallb (fun k => match lookup t k with Some (_, true) => true | _ => false end) all_keys.

(* F: opcode of the node the REAL generator builds for a one-operator model, as probed in the
   child; `swapped` = CasADi normalises a > b to b < a.  op_expected is what CasADi builds for
   the expected method. *)
Inductive opcode := OP_ADD | OP_SUB | OP_MUL | OP_DIV | OP_POW | OP_SQ | OP_LT | OP_LE | OP_EQ | OP_NE
                  | OP_FMIN | OP_FMAX | OP_FABS | OP_NEG | OP_CALL | OP_UNKNOWN.
Definition opcode_eqb (a b : opcode) : bool :=
  match a, b with
  | OP_ADD, OP_ADD | OP_SUB, OP_SUB | OP_MUL, OP_MUL | OP_DIV, OP_DIV | OP_POW, OP_POW | OP_SQ, OP_SQ
  | OP_LT, OP_LT | OP_LE, OP_LE | OP_EQ, OP_EQ | OP_NE, OP_NE | OP_FMIN, OP_FMIN | OP_FMAX, OP_FMAX
  | OP_FABS, OP_FABS | OP_NEG, OP_NEG | OP_CALL, OP_CALL | OP_UNKNOWN, OP_UNKNOWN => true
  | _, _ => false
  end.
(* probe rows: Modelica operator probed (as the binop/unop it parses to), opcode, swapped *)
Inductive probe_op := PB (o : binop) | PU (o : unop).
Definition node_opcode (n : canode) : opcode * bool :=
  match n with
  | CAdd => (OP_ADD, false) | CSub => (OP_SUB, false) | CMul => (OP_MUL, false)
  | CDiv => (OP_DIV, false) | CPow => (OP_POW, false)
  | CLt => (OP_LT, false) | CLe => (OP_LE, false) | CGt => (OP_LT, true) | CGe => (OP_LE, true)
  | CEq => (OP_EQ, false) | CNe => (OP_NE, false) | CFmin => (OP_FMIN, false) | CFmax => (OP_FMAX, false)
  end.

(* ---------- the generator ---------- *)
Definition tr_ref (r : ref) : casym :=
  match r with
  | RVar x => SVar x
  | RDer x => SDer x                              (* get_derivative: fresh symbol der(x) *)
  | RIdx x k => SElem x (k - 1)                   (* line 899: sl = sl - 1 *)
  | RLoopIdx x k => SGather x k                   (* lines 909-930, 72 *)
  | RLoopVar => SLoopVar                          (* get_component line 953-955 *)
  | RAff x a b => SGatherA x a b                  (* register_indexed_symbol: F(index_expr) mapped over the values, minus 1 *)
  end.

Section WithTable.
Variable T : table.

Definition tr_bin (o : binop) (a b : caexpr) : res caexpr :=
  match o with
  | BMul => Ok (CBin CMul a b)                    (* line 239, 256-260: ca.mtimes on scalars *)
  | _ =>
      match lookup T (key_of o) with              (* line 374-378 *)
      | None => Err E_notable
      | Some (_, false) => Err E_nomethod
      | Some (m, true) =>
          match meth_node m with
          | Some n => Ok (CBin n a b)
          | None => Err E_arity
          end
      end
  end.

Definition tr_un (o : unop) (a : caexpr) : res caexpr :=
  match o with
  | UNeg => Ok (CNeg a)                           (* line 250 *)
  | UPos => Ok a                                  (* line 252 *)
  | UNot => Ok (CIfElse a (CConst 0) (CConst 1))  (* line 254-255 *)
  | UAbs =>
      match lookup T K_abs with                   (* line 379-382 *)
      | None => Err E_notable
      | Some (_, false) => Err E_nomethod
      | Some (M_fabs, true) => Ok (CFabs a)
      | Some (_, true) => Err E_arity
      end
  end.

Fixpoint tr (e : expr) : res caexpr :=
  match e with
  | ENum q => Ok (CConst q)
  | EBool b => Ok (CConst (b2q b))                (* Primary True/False -> MX(1)/MX(0) *)
  | ERef r => Ok (CSym (tr_ref r))
  | EUn o a => match tr a with Ok ca => tr_un o ca | Err w => Err w end
  | EBin o a b =>
      match tr a, tr b with
      | Ok ca, Ok cb => tr_bin o ca cb
      | Err w, _ => Err w
      | _, Err w => Err w
      end
  | EIf brs els =>
      (* exitIfExpression 411-416: src = last; for the conditions from the last to the first:
         src = if_else(cond, expr1, src, True) *)
      match tr els with
      | Ok cels =>
          (fix go (l : list (expr * expr)) : res caexpr :=
             match l with
             | [] => Ok cels
             | (c, a) :: r =>
                 match tr c, tr a, go r with
                 | Ok cc, Ok ca, Ok rest => Ok (CIfElse cc ca rest)
                 | Err w, _, _ => Err w
                 | _, Err w, _ => Err w
                 | _, _, Err w => Err w
                 end
             end) brs
      | Err w => Err w
      end
  | EFun f a => match tr a with Ok ca => Ok (CFun f ca) | Err w => Err w end   (* line 387-390 *)
  end.

(* F cross-check: the node the model builds for an operator has the opcode the real generator
   was observed to build for a one-operator model *)
Definition probe_row_ok (r : probe_op * (opcode * bool)) : bool :=
  match r with
  | (PB o, (oc, sw)) =>
      match tr_bin o (CConst 0) (CConst 0) with
      | Ok (CBin n _ _) => opcode_eqb oc (fst (node_opcode n)) && Bool.eqb sw (snd (node_opcode n))
      | _ => false
      end
  | (PU UNeg, (oc, _)) => opcode_eqb oc OP_NEG
  | (PU UAbs, (oc, _)) => match tr_un UAbs (CConst 0) with Ok (CFabs _) => opcode_eqb oc OP_FABS | _ => false end
  | (PU UNot, (oc, _)) => opcode_eqb oc OP_CALL        (* short-circuit if_else = a Switch call *)
  | (PU UPos, _) => true
  end.

(* ---------- equations ---------- *)
Definition seqn := (expr * expr)%type.               (* lhs = rhs *)
Inductive eqn :=
| QSimple (s : seqn)
| QIf (brs : list (expr * list seqn)) (els : list seqn)
| QFor (lo st hi : Z) (body : list seqn).          (* for i in lo:st:hi loop body end for; lo:hi is st = 1 *)

(* CasADi residual blocks *)
Inductive cares :=
| RVec (l : list caexpr)                              (* vertcat of scalar residuals *)
| RIfElse (c : caexpr) (a : list caexpr) (b : cares)  (* if_else(c, vertcat a, b, True) *)
| RMap (vals : list Z) (body : list caexpr).          (* Fmap over values, then .T, then veccat *)

Definition tr_seqn (s : seqn) : res caexpr :=
  match tr (fst s), tr (snd s) with
  | Ok l, Ok r => Ok (CBin CSub l r)                  (* line 452: src_left - src_right *)
  | Err w, _ => Err w
  | _, Err w => Err w
  end.
Fixpoint tr_seqns (l : list seqn) : res (list caexpr) :=
  match l with
  | [] => Ok []
  | s :: r => match tr_seqn s, tr_seqns r with
              | Ok c, Ok cs => Ok (c :: cs)
              | Err w, _ => Err w
              | _, Err w => Err w
              end
  end.

(* np.arange(start, stop + step, step) with step = 1 (ForLoop.__init__ line 58) *)
Fixpoint zrange (lo : Z) (n : nat) : list Z :=
  match n with O => [] | S n' => lo :: zrange (lo + 1) n' end.
Definition loop_values (lo hi : Z) : list Z := zrange lo (Z.to_nat (hi + 1 - lo)).

(* np.arange(start, stop, step) on integers: ceil((stop - start) / step) values when that is
   positive, none otherwise (step = 0 raises; tr_eqn turns that into Err) *)
Definition arange (start stop step : Z) : list Z :=
  let n := if (0 <? step)%Z then ((stop - start + step - 1) / step)%Z
           else if (step <? 0)%Z then ((start - stop + (- step) - 1) / (- step))%Z
           else 0%Z in
  map (fun k => (start + Z.of_nat k * step)%Z) (seq 0 (Z.to_nat n)).
(* `a:s:b` as the code reads it since 3facb7b: parser.py exitSimple_expression builds
   Slice(start=a, step=s, stop=b); ForLoop.__init__ takes arange(start, stop + 1, step) for a
   positive and arange(start, stop - 1, step) for a negative step *)
Definition range_values (lo st hi : Z) : list Z :=
  arange lo (hi + (if (0 <? st)%Z then 1 else -1))%Z st.
(* `a:s:b` in Modelica (spec 10.4.3): a, a+s, ..., a+n*s with n = floor((b-a)/s); empty when
   s > 0 and a > b, or s < 0 and a < b *)
Definition modelica_range (lo st hi : Z) : list Z :=
  if ((0 <? st)%Z && (hi <? lo)%Z) || ((st <? 0)%Z && (lo <? hi)%Z) then []
  else map (fun k => (lo + Z.of_nat k * st)%Z) (seq 0 (Z.to_nat ((hi - lo) / st + 1))).
(* the reading before 3facb7b (second expression = stop, third = step; arange(start, stop + step,
   step)) — kept only for the refutation witness of the pre-fix tree *)
Definition old_range3 (a b c : Z) : list Z := arange a (b + c) c.
Definition E_step := 5%nat.       (* zero step: np.arange raises ZeroDivisionError *)

Definition tr_eqn (q : eqn) : res cares :=
  match q with
  | QSimple s => match tr_seqn s with Ok c => Ok (RVec [c]) | Err w => Err w end
  | QIf brs els =>
      (* line 530: all blocks the same length *)
      if forallb (fun b => Nat.eqb (length (snd b)) (length els)) brs then
        match tr_seqns els with
        | Ok cels =>
            (fix go (l : list (expr * list seqn)) : res cares :=
               match l with
               | [] => Ok (RVec cels)
               | (c, blk) :: r =>
                   match tr c, tr_seqns blk, go r with
                   | Ok cc, Ok cb, Ok rest => Ok (RIfElse cc cb rest)
                   | Err w, _, _ => Err w
                   | _, Err w, _ => Err w
                   | _, _, Err w => Err w
                   end
               end) brs
        | Err w => Err w
        end
      else Err E_shape
  | QFor lo st hi body =>
      if (st =? 0)%Z then Err E_step else
      match tr_seqns body with
      | Ok cb => Ok (RMap (range_values lo st hi) cb)
      | Err w => Err w
      end
  end.

End WithTable.

(* evaluation of residual blocks *)
Fixpoint ca_evals (l : list caexpr) (rho : cenv) : list (option Qc) :=
  match l with [] => [] | c :: r => ca_eval c rho :: ca_evals r rho end.
Definition with_ci (rho : cenv) (i : Z) : cenv :=
  {| c_sc := c_sc rho; c_der := c_der rho; c_arr := c_arr rho; c_i := i |}.
Definition with_mi (rho : menv) (i : Z) : menv :=
  {| m_sc := m_sc rho; m_der := m_der rho; m_arr := m_arr rho; m_i := i |}.

(* None = the condition itself is undefined *)
Fixpoint ca_res (r : cares) (rho : cenv) : option (list (option Qc)) :=
  match r with
  | RVec l => Some (ca_evals l rho)
  | RIfElse c a b =>
      match ca_eval c rho with
      | Some x => if qeqb x 0 then ca_res b rho else Some (ca_evals a rho)
      | None => None
      end
  | RMap vals body =>
      (* res[0] is (len body) x (len vals); .T and veccat (column-major) give: for each body
         equation, all iterations *)
      Some (flat_map (fun c => map (fun i => ca_eval c (with_ci rho i)) vals) body)
  end.

(* Modelica meaning of the residual of one simple equation (Real equations) *)
Definition m_res1 (s : seqn) (rho : menv) : option Qc :=
  match m_eval (fst s) rho, m_eval (snd s) rho with
  | Some (VNum a), Some (VNum b) => Some (a - b)
  | _, _ => None
  end.
Definition m_res (q : eqn) (rho : menv) : option (list (option Qc)) :=
  match q with
  | QSimple s => Some [m_res1 s rho]
  | QIf brs els =>
      (fix go (l : list (expr * list seqn)) : option (list (option Qc)) :=
         match l with
         | [] => Some (map (fun s => m_res1 s rho) els)
         | (c, blk) :: r =>
             match m_eval c rho with
             | Some (VBool true) => Some (map (fun s => m_res1 s rho) blk)
             | Some (VBool false) => go r
             | _ => None
             end
         end) brs
  | QFor lo st hi body =>
      (* the flat equations body[i := v] for v in the Modelica range lo:st:hi, listed
         equation-major (the order in which the generator emits them) *)
      Some (flat_map (fun s => map (fun i => m_res1 s (with_mi rho i)) (modelica_range lo st hi)) body)
  end.

End WithFun.

(* ---------- correspondence (vlib/c11.py) ---------- *)
(* A case: table, typing of scalars is implicit (the env gives values), list of equations,
   evaluation point, elementary-function samples, and per equation the observed residual
   entries with the tolerance computed by the harness (rigorous forward error bound). *)
Definition ftable := list (positive * Qc * Qc).      (* (f, exact argument, float value) *)
Fixpoint flookup (t : ftable) (f : positive) (x : Qc) : Qc :=
  match t with
  | [] => 0
  | (g, a, v) :: r => if Pos.eqb f g && qeqb a x then v else flookup r f x
  end.

Fixpoint alookup {A} (d : A) (l : list (positive * A)) (x : positive) : A :=
  match l with [] => d | (y, v) :: r => if Pos.eqb x y then v else alookup d r x end.
Definition arr_of (l : list (positive * list Qc)) (x : positive) (k0 : Z) : Qc :=
  match k0 with
  | Zneg _ => 0
  | _ => nth (Z.to_nat k0) (alookup [] l x) 0
  end.

Record point := { p_sc : list (positive * Qc); p_der : list (positive * Qc);
                  p_arr : list (positive * list Qc) }.
Definition cenv_of (p : point) : cenv :=
  {| c_sc := alookup 0 (p_sc p); c_der := alookup 0 (p_der p); c_arr := arr_of (p_arr p); c_i := 0 |}.

(* observed entry: Some (value, tol) or None when the implementation returned nan/inf *)
Definition obs := option (Qc * Qc).
Definition close (m : option Qc) (o : obs) : bool :=
  match m, o with
  | Some x, Some (y, tol) => qleb (qabs (x - y)) tol
  | None, _ => true                    (* exact evaluation undefined (division by zero): skipped *)
  | Some _, None => false
  end.
Fixpoint close_all (m : list (option Qc)) (o : list obs) : bool :=
  match m, o with
  | [], [] => true
  | x :: m', y :: o' => close x y && close_all m' o'
  | _, _ => false
  end.

(* one equation of a model on which generate() succeeded *)
Definition check_eqn (F : positive -> Qc -> Qc) (T : table) (rho : cenv) (q : eqn) (l : list obs) : bool :=
  match tr_eqn T q with
  | Ok r =>
      match ca_res F r rho with
      | Some m => close_all m l
      | None => true
      end
  | Err _ => false
  end.
Definition tr_fails (T : table) (q : eqn) : bool :=
  match tr_eqn T q with Ok _ => false | Err _ => true end.

(* impl_ok = generate() succeeded; otherwise the model must fail on some equation too *)
Definition case := (table * ftable * point * bool * list (eqn * list obs))%type.
Definition check_case (c : case) : bool :=
  match c with
  | (T, ft, p, impl_ok, qs) =>
      if impl_ok then
        forallb (fun qo => check_eqn (flookup ft) T (cenv_of p) (fst qo) (snd qo)) qs
      else existsb (fun qo => tr_fails T (fst qo)) qs
  end.
