(* C21 — executable model of the model-cache write / load / fallback logic of
   src/pymoca/backends/casadi/api.py (save_model 188-291, load_model 294-491, transfer_model 494-525).
   Part 1: a pickle-shaped mini format written as a concrete online `step` function
           (PROTO, FRAME len, BININT1, SHORT_BINBYTES len payload, MEMOIZE, BINGET, EMPTY_LIST,
            MARK, APPENDS, TUPLE2, NONE, STOP) and its encoder.
   Part 2: the world (sources, clock, cache file as bytes+mtime), exception routing driven by the
           tables extracted from api.py (run/C21/Gen_C21.v), save as a list of write steps, crash =
           prefix of the steps, transfer_model.
   No proofs here: the model must keep running when a proof breaks. *)
From Coq Require Import List Arith Bool.
From PV Require Import Lib.Prefix.
Import ListNotations.

(* ------------------------------------------------------------------ *)
(* Part 1: the format                                                  *)
(* ------------------------------------------------------------------ *)
Definition byte := nat.

Inductive pv := PNone | PInt (n : nat) | PBytes (l : list byte) | PList (l : list pv) | PTuple2 (a b : pv).

Inductive item := IV (v : pv) | IMark.
(* MFrame k / MBytes k acc: k+1 more argument bytes are expected *)
Inductive mode := MOp | MProto | MFrame (k : nat) | MInt | MBytesLen | MBytes (k : nat) (acc : list byte) | MGet.
Record st := St { md : mode; stk : list item; memo : list pv }.
Definition init : st := St MOp [] [].

Fixpoint pop_mark (s : list item) (acc : list pv) : option (list pv * list item) :=
  match s with
  | [] => None
  | IMark :: r => Some (acc, r)
  | IV v :: r => pop_mark r (v :: acc)
  end.

Definition push (s : st) (v : pv) : res st pv := More (St MOp (IV v :: stk s) (memo s)).
Definition goto (s : st) (m : mode) : res st pv := More (St m (stk s) (memo s)).

Definition op_step (s : st) (b : byte) : res st pv :=
  if b =? 128 then goto s MProto                                   (* PROTO v *)
  else if b =? 149 then goto s (MFrame 7)                          (* FRAME len8 *)
  else if b =? 46 then match stk s with [IV v] => Done v | _ => Fail end   (* STOP *)
  else if b =? 78 then push s PNone                                (* NONE *)
  else if b =? 75 then goto s MInt                                 (* BININT1 n *)
  else if b =? 67 then goto s MBytesLen                            (* SHORT_BINBYTES len payload *)
  else if b =? 148 then match stk s with                           (* MEMOIZE *)
                        | IV v :: _ => More (St MOp (stk s) (memo s ++ [v]))
                        | _ => Fail end
  else if b =? 104 then goto s MGet                                (* BINGET i *)
  else if b =? 93 then push s (PList [])                           (* EMPTY_LIST *)
  else if b =? 40 then More (St MOp (IMark :: stk s) (memo s))     (* MARK *)
  else if b =? 101 then match pop_mark (stk s) [] with             (* APPENDS *)
                        | Some (vs, IV (PList l) :: r) => More (St MOp (IV (PList (l ++ vs)) :: r) (memo s))
                        | _ => Fail end
  else if b =? 134 then match stk s with                           (* TUPLE2 *)
                        | IV y :: IV x :: r => More (St MOp (IV (PTuple2 x y) :: r) (memo s))
                        | _ => Fail end
  else Fail.

Definition step (s : st) (b : byte) : res st pv :=
  match md s with
  | MOp => op_step s b
  | MProto => goto s MOp
  | MFrame k => match k with 0 => goto s MOp | S k' => goto s (MFrame k') end
  | MInt => push s (PInt b)
  | MBytesLen => match b with 0 => push s (PBytes []) | S k => goto s (MBytes k []) end
  | MBytes k acc => match k with 0 => push s (PBytes (acc ++ [b])) | S k' => goto s (MBytes k' (acc ++ [b])) end
  | MGet => match nth_error (memo s) b with Some v => push s v | None => Fail end
  end.

Definition decode (bs : list byte) : out byte pv := run step init bs.

(* the encoder (what pickle.dump(db, f, protocol=-1) is to the real format) *)
Fixpoint enc (v : pv) : list byte :=
  match v with
  | PNone => [78]
  | PInt n => [75; n]
  | PBytes l => 67 :: length l :: l ++ [148]
  | PList l => 93 :: 148 :: 40 ::
               (fix encs (l : list pv) : list byte :=
                  match l with [] => [] | x :: r => enc x ++ encs r end) l ++ [101]
  | PTuple2 a b => enc a ++ enc b ++ [134; 148]
  end.

Fixpoint le_bytes (k n : nat) : list byte :=
  match k with 0 => [] | S k' => (n mod 256) :: le_bytes k' (n / 256) end.

Definition dump (v : pv) : list byte :=
  let body := enc v ++ [46] in
  128 :: 4 :: 149 :: le_bytes 8 (length body) ++ body.

(* ------------------------------------------------------------------ *)
(* Part 2: cache file, routing tables, save / load / transfer          *)
(* ------------------------------------------------------------------ *)

(* exception classes the model distinguishes *)
Inductive exc := EOFError | UnpicklingError | RuntimeDeser | RuntimeOther
               | FileNotFoundError | InvalidCacheError | OtherError.
Definition exc_eqb (a b : exc) : bool :=
  match a, b with
  | EOFError, EOFError | UnpicklingError, UnpicklingError | RuntimeDeser, RuntimeDeser
  | RuntimeOther, RuntimeOther | FileNotFoundError, FileNotFoundError
  | InvalidCacheError, InvalidCacheError | OtherError, OtherError => true
  | _, _ => false
  end.
Definition mem_exc (e : exc) (l : list exc) : bool := existsb (exc_eqb e) l.

(* what an `except` body around pickle.load does (api.py:326-333), as classified by the ast probe;
   anything the probe does not recognise is AOther and is modelled as "raises something else" *)
Inductive haction := ARaiseInvalid | ACondDeser | AOther.
(* what the `except` body around `return load_model(...)` does (api.py:518-523) *)
Inductive taction := TRecompile | TOther.

Record tables := Tables {
  load_handlers : list (list exc * haction);      (* in source order; the classes each clause catches *)
  transfer_handlers : list (list exc * taction) }.

Fixpoint first_handler {A} (hs : list (list exc * A)) (e : exc) : option A :=
  match hs with
  | [] => None
  | (cs, a) :: r => if mem_exc e cs then Some a else first_handler r e
  end.

(* the exception that leaves load_model when pickle.load raised e *)
Definition load_route (t : tables) (e : exc) : exc :=
  match first_handler (load_handlers t) e with
  | None => e
  | Some ARaiseInvalid => InvalidCacheError
  | Some ACondDeser => match e with RuntimeDeser => InvalidCacheError | _ => e end
  | Some AOther => OtherError
  end.

(* does transfer_model answer exception e of load_model by compile + save + return? *)
Definition transfer_recompiles (t : tables) (e : exc) : bool :=
  match first_handler (transfer_handlers t) e with Some TRecompile => true | _ => false end.

(* the side condition of the theorems, discharged by vm_compute on the extracted tables *)
Definition routes_ok (t : tables) : bool :=
  transfer_recompiles t (load_route t EOFError) &&
  transfer_recompiles t (load_route t UnpicklingError) &&
  transfer_recompiles t InvalidCacheError &&
  transfer_recompiles t FileNotFoundError.

(* the world: current source snapshot id and its mtime, a clock, the pymoca version, the cache file *)
Record world := W { src : nat; smt : nat; clock : nat; ver : nat; cfile : option (list byte * nat) }.
Definition w0 : world := W 0 0 0 0 None.

(* the pickled db: version, options id, the compiled model (identified by the source snapshot it was
   compiled from) and a payload standing for the serialized CasADi functions *)
Definition db_of (vr o s : nat) : pv := PList [PInt vr; PInt o; PInt s; PBytes [s; o; 7]].
(* a compiled model is identified by (source snapshot, options) *)
Definition modelid : Type := nat * nat.
(* header fields (version, options) are what load_model checks; the model it returns is made of the
   pickled functions = the payload bytes *)
Definition decode_db (v : pv) : option (nat * nat * modelid) :=
  match v with
  | PList [PInt vr; PInt o; PInt _; PBytes [sp; op; _]] => Some (vr, o, (sp, op))
  | _ => None
  end.

(* load_model; eofx = which class pickle.load raises when it runs out of input: true = EOFError
   (offset 0 / a frame boundary), false = UnpicklingError "pickle data was truncated" (inside a
   frame); observed per case by the harness *)
Definition eof_exc (b : bool) : exc := if b then EOFError else UnpicklingError.
(* badx = the class pickle.load raises on a stream that is not a prefix of a valid one (a zero byte
   where an opcode is expected gives UnpicklingError "invalid load key"; a splice of two different
   streams can give any class) *)
Definition load_gen (t : tables) (w : world) (o : nat) (eofx : bool) (badx : exc) : exc + modelid :=
  match cfile w with
  | None => inl FileNotFoundError                                  (* api.py:311 getmtime *)
  | Some (bs, mt) =>
      if mt <? smt w then inl InvalidCacheError                    (* api.py:316-317 *)
      else match decode bs with                                    (* api.py:325 *)
           | EOF => inl (load_route t (eof_exc eofx))
           | Bad => inl (load_route t badx)
           | Value v _ =>
               match decode_db v with
               | None => inl OtherError
               | Some (vr, o', m) =>
                   if negb (vr =? ver w) then inl InvalidCacheError      (* api.py:335 *)
                   else if negb (o' =? o) then inl InvalidCacheError     (* api.py:345 *)
                   else inr m
               end
           end
  end.
Definition load_model (t : tables) (w : world) (o : nat) (eofx : bool) : exc + modelid :=
  load_gen t w o eofx UnpicklingError.

(* save_model in cache mode = [create/truncate] ++ one step per byte (api.py:218, 291).
   State after the first j steps: *)
Definition partial_write (w : world) (o : nat) (j : nat) : world :=
  match j with
  | 0 => w
  | S k => W (src w) (smt w) (clock w) (ver w)
             (Some (firstn k (dump (db_of (ver w) o (src w))), clock w))
  end.
Definition nsteps (w : world) (o : nat) : nat := S (length (dump (db_of (ver w) o (src w)))).
Definition full_write (w : world) (o : nat) : world := partial_write w o (nsteps w o).

Inductive outcome := Loaded (m : modelid) | Recompiled (m : modelid) | Raised (e : exc) | Died.

(* transfer_model(folder, name, {cache: True, options o}) (api.py:516-523) whose write is cut after
   j steps (j >= nsteps: not cut) *)
Definition transfer_cut (t : tables) (w : world) (o : nat) (eofx : bool) (j : nat) : world * outcome :=
  match load_model t w o eofx with
  | inr m => (w, Loaded m)
  | inl e =>
      if transfer_recompiles t e then
        if j <? nsteps w o then (partial_write w o j, Died)
        else (full_write w o, Recompiled (src w, o))
      else (w, Raised e)
  end.
Definition transfer (t : tables) (w : world) (o : nat) (eofx : bool) : world * outcome :=
  match load_model t w o eofx with
  | inr m => (w, Loaded m)
  | inl e => if transfer_recompiles t e then (full_write w o, Recompiled (src w, o)) else (w, Raised e)
  end.

Inductive op :=
| Edit                                        (* a .mo file is rewritten (new mtime) *)
| Bump                                        (* pymoca version changes *)
| Transfer (o : nat) (eofx : bool)
| CrashT (o : nat) (eofx : bool) (j : nat)     (* transfer killed after j write steps *)
| Cut (j : nat)                               (* cache file cut to j bytes, mtime kept (the offset sweep) *)
| Reader (o : nat) (eofx eofx' : bool) (j : nat)
| Two (oa ob : nat) (ea eb : bool) (lastb : bool)
       (* two transfers A, B that BOTH finish load_model on the same state before either goes on
          (handler, compile, save in any interleaving of whole steps); lastb: B's save is the later one.
          Outputs: A, B. *)
| Reader2 (o : nat) (eofx ea eb : bool) (j : nat)
| Gap (o : nat) (e : bool) (late savedfirst : bool).
       (* a caller A (options o) overlaps a codegen-mode writer B with other options that rejects the cache
          file, removes it first thing in save_model (api.py, since ee3ded2) and is then killed while it builds
          its libraries.  late = false: the removal falls before A opens the file (before A starts, or in the
          gap between A's existence/mtime test and its open: the same FileNotFoundError class either way);
          late = true: A had finished load_model before the removal (savedfirst: even its save, if any).
          Outputs: A, B (= Died). *)
       (* Reader with two such readers (same options) at write step j.  Outputs: A, B, writer. *)
       (* a writer transfer has done j write steps when a second transfer (same options) runs to
          completion in the same folder; then the writer finishes.  Outputs: reader, writer. *)

Definition set_cfile (w : world) (c : option (list byte * nat)) : world :=
  W (src w) (smt w) (clock w) (ver w) c.

(* what one caller decides from the state it loaded: its outcome, and whether it saves *)
Definition decide (t : tables) (w : world) (o : nat) (e : bool) : outcome * bool :=
  match load_model t w o e with
  | inr m => (Loaded m, false)
  | inl x => if transfer_recompiles t x then (Recompiled (src w, o), true) else (Raised x, false)
  end.
Definition two (t : tables) (w : world) (oa ob : nat) (ea eb lastb : bool) : world * list outcome :=
  let (ra, wa) := decide t w oa ea in
  let (rb, wb) := decide t w ob eb in
  (match wa, wb with
   | true, true => if lastb then full_write w ob else full_write w oa
   | true, false => full_write w oa
   | false, true => full_write w ob
   | false, false => w
   end, [ra; rb]).

Definition gap (t : tables) (w : world) (o : nat) (e : bool) (late sf : bool) : world * list outcome :=
  if late then
    let (r, wr) := decide t w o e in
    ((if wr && negb sf then full_write w o else set_cfile w None), [r; Died])
  else
    let (w', r) := transfer t (set_cfile w None) o e in (w', [r; Died]).

Definition step_op (t : tables) (w : world) (p : op) : world * list outcome :=
  match p with
  | Edit => (W (S (src w)) (S (clock w)) (S (clock w)) (ver w) (cfile w), [])
  | Bump => (W (src w) (smt w) (clock w) (S (ver w)) (cfile w), [])
  | Transfer o e => let (w', r) := transfer t w o e in (w', [r])
  | CrashT o e j => let (w', r) := transfer_cut t w o e j in (w', [r])
  | Cut j => (match cfile w with
              | Some (bs, mt) => set_cfile w (Some (firstn j bs, mt))
              | None => w end, [])
  | Reader o e e' j =>
      match load_model t w o e with
      | inr m => let (w', r) := transfer t w o e' in (w', [r; Loaded m])
      | inl x =>
          if transfer_recompiles t x then
            let (_, r) := transfer t (partial_write w o j) o e' in
            (full_write w o, [r; Recompiled (src w, o)])
          else let (w', r) := transfer t w o e' in (w', [r; Raised x])
      end
  | Two oa ob ea eb lastb => two t w oa ob ea eb lastb
  | Reader2 o e ea eb j =>
      match load_model t w o e with
      | inr m => let (w', rs) := two t w o o ea eb true in (w', rs ++ [Loaded m])
      | inl x =>
          if transfer_recompiles t x then
            let (_, rs) := two t (partial_write w o j) o o ea eb true in
            (full_write w o, rs ++ [Recompiled (src w, o)])
          else let (w', rs) := two t w o o ea eb true in (w', rs ++ [Raised x])
      end
  | Gap o e late sf => gap t w o e late sf
  end.

Fixpoint run_ops (t : tables) (w : world) (h : list op) : list (list outcome) :=
  match h with
  | [] => []
  | p :: h' => let (w', r) := step_op t w p in r :: run_ops t w' h'
  end.

(* ------------------------------------------------------------------ *)
(* Part 3: two writers on one file, byte level (POSIX: open "wb" truncates; every writer has   *)
(* its own offset; a write beyond the end zero-fills the gap)                                  *)
(* ------------------------------------------------------------------ *)
Definition write_at (f : list byte) (off : nat) (c : list byte) : list byte :=
  match c with
  | [] => f                                            (* a zero-length write does nothing *)
  | _ => firstn off f ++ repeat 0 (off - length f) ++ c ++ skipn (off + length c) f
  end.

Inductive ev := OpenA | OpenB | WriteA (n : nat) | WriteB (n : nat).   (* Write n: the next n bytes *)
Record ov := Ov { ofile : option (list byte); offA : nat; offB : nat; opA : bool; opB : bool }.
Definition ov0 (f : option (list byte)) : ov := Ov f 0 0 false false.

Definition chunk (s : list byte) (off n : nat) : list byte := firstn n (skipn off s).

Definition ov_step (sA sB : list byte) (x : ov) (e : ev) : ov :=
  match e with
  | OpenA => Ov (Some []) 0 (offB x) true (opB x)
  | OpenB => Ov (Some []) (offA x) 0 (opA x) true
  | WriteA n =>
      if opA x then let c := chunk sA (offA x) n in
        Ov (option_map (fun f => write_at f (offA x) c) (ofile x)) (offA x + length c) (offB x) (opA x) (opB x)
      else x
  | WriteB n =>
      if opB x then let c := chunk sB (offB x) n in
        Ov (option_map (fun f => write_at f (offB x) c) (ofile x)) (offA x) (offB x + length c) (opA x) (opB x)
      else x
  end.
Definition ov_run (sA sB : list byte) (x : ov) (evs : list ev) : ov := fold_left (ov_step sA sB) evs x.

(* the world a third caller sees while the two writers (options oa, ob; both compiled the current
   sources) are at the point reached by evs *)
Definition stream (w : world) (o : nat) : list byte := dump (db_of (ver w) o (src w)).
Definition ov_world (w : world) (oa ob : nat) (evs : list ev) : world :=
  let x := ov_run (stream w oa) (stream w ob) (ov0 (option_map fst (cfile w))) evs in
  if opA x || opB x then set_cfile w (option_map (fun f => (f, clock w)) (ofile x)) else w.

(* every write call delivers the writer's whole stream (true of pickle.dump into a buffered file while
   the pickle fits one frame, < 64 KiB; checked on the real code by tie W) *)
Definition whole (sA sB : list byte) (e : ev) : bool :=
  match e with WriteA n => length sA <=? n | WriteB n => length sB <=? n | _ => true end.

(* the state of the decoder after a whole prefix (None: it stopped or failed earlier) *)
Fixpoint feed (s : st) (inp : list byte) : option st :=
  match inp with
  | [] => Some s
  | b :: r => match step s b with More s' => feed s' r | _ => None end
  end.
Definition boundary (s : list byte) (p : nat) : bool :=
  match feed init (firstn p s) with Some s' => match md s' with MOp => true | _ => false end | None => false end.

(* ------------------------------------------------------------------ *)
(* Part 4: codegen mode.  save_model = [remove cache file (since ee3ded2)] ++ four shared libraries   *)
(* (overwritten in place, api.py:211-212) ++ [create/truncate] ++ bytes.  The cache file only holds   *)
(* the library paths: the model that load_model returns is whatever the four libraries are.           *)
(* ------------------------------------------------------------------ *)
Record cworld := CW { base : world; libs : list (option modelid) }.
Definition cw0 : cworld := CW w0 [None; None; None; None].

Fixpoint set_nth {A} (l : list A) (i : nat) (x : A) : list A :=
  match l, i with
  | [], _ => []
  | _ :: r, 0 => x :: r
  | y :: r, S k => y :: set_nth r k x
  end.

(* state after the first j steps of save_model(options o); remove_first = the order since ee3ded2 *)
Definition cg_partial (remove_first : bool) (c : cworld) (o : nat) (j : nat) : cworld :=
  let w := base c in
  let m := (src w, o) in
  let j' := if remove_first then j else S j in        (* old order: as if step 0 had been skipped *)
  match j' with
  | 0 => c
  | S k =>
      let w1 := if remove_first then set_cfile w None else w in
      let nl := Nat.min k 4 in
      let ls := fold_left (fun l i => set_nth l i (Some m)) (seq 0 nl) (libs c) in
      if k <=? 4 then CW w1 ls
      else CW (partial_write w1 o (k - 4)) ls
  end.
Definition cg_nsteps (remove_first : bool) (w : world) (o : nat) : nat :=
  (if remove_first then 1 else 0) + 4 + nsteps w o.

Inductive cmodel := CModel (ls : list (option modelid)).
Inductive coutcome := CLoaded (ls : list (option modelid)) | CRecompiled (m : modelid) | CRaised (e : exc) | CDied.

Definition cg_transfer_cut (rf : bool) (t : tables) (c : cworld) (o : nat) (e : bool) (j : nat) : cworld * coutcome :=
  match load_model t (base c) o e with
  | inr _ => (c, CLoaded (libs c))                      (* ca.external(path) for each function, api.py:354-357 *)
  | inl x =>
      if transfer_recompiles t x then
        if j <? cg_nsteps rf (base c) o then (cg_partial rf c o j, CDied)
        else (cg_partial rf c o (cg_nsteps rf (base c) o), CRecompiled (src (base c), o))
      else (c, CRaised x)
  end.

Inductive cop := CEdit | CBump | CTransfer (o : nat) (e : bool) | CCrashT (o : nat) (e : bool) (j : nat).
Definition cg_step (rf : bool) (t : tables) (c : cworld) (p : cop) : cworld * list coutcome :=
  match p with
  | CEdit => (CW (fst (step_op t (base c) Edit)) (libs c), [])
  | CBump => (CW (fst (step_op t (base c) Bump)) (libs c), [])
  | CTransfer o e => let (c', r) := cg_transfer_cut rf t c o e (cg_nsteps rf (base c) o) in (c', [r])
  | CCrashT o e j => let (c', r) := cg_transfer_cut rf t c o e j in (c', [r])
  end.
Fixpoint cg_run (rf : bool) (t : tables) (c : cworld) (h : list cop) : list (list coutcome) :=
  match h with
  | [] => []
  | p :: h' => let (c', r) := cg_step rf t c p in r :: cg_run rf t c' h'
  end.
(* ------------------------------------------------------------------ *)
(* correspondence: observed outcome classes of the real transfer_model *)
(* ------------------------------------------------------------------ *)
Inductive obs := OLoaded | ORecompiled | ORaised | ODied.
Definition obs_of (r : outcome) : obs :=
  match r with Loaded _ => OLoaded | Recompiled _ => ORecompiled | Raised _ => ORaised | Died => ODied end.
Definition obs_eqb (a b : obs) : bool :=
  match a, b with
  | OLoaded, OLoaded | ORecompiled, ORecompiled | ORaised, ORaised | ODied, ODied => true
  | _, _ => false
  end.
Fixpoint list_eqb {A} (f : A -> A -> bool) (a b : list A) : bool :=
  match a, b with
  | [], [] => true
  | x :: a', y :: b' => f x y && list_eqb f a' b'
  | _, _ => false
  end.

(* a case: history + for every op the observed outcome classes, in the model's output order *)
Definition check_case (t : tables) (c : list op * list (list obs)) : bool :=
  let '(h, o) := c in
  list_eqb (list_eqb obs_eqb) (map (map obs_of) (run_ops t w0 h)) o.

Definition cobs_of (r : coutcome) : obs :=
  match r with CLoaded _ => OLoaded | CRecompiled _ => ORecompiled | CRaised _ => ORaised | CDied => ODied end.
(* codegen correspondence: history + observed classes + whether every Loaded model was right *)
Definition check_cg_case (rf : bool) (t : tables) (c : list cop * list (list obs)) : bool :=
  let '(h, o) := c in
  list_eqb (list_eqb obs_eqb) (map (map cobs_of) (cg_run rf t cw0 h)) o.

(* the routing tables of the repaired code and of the code before cb129b2 (used by Props examples) *)
Definition tbl_fixed : tables :=
  Tables [([RuntimeDeser; RuntimeOther], ACondDeser); ([EOFError; UnpicklingError], ARaiseInvalid)]
         [([FileNotFoundError; InvalidCacheError], TRecompile)].
Definition tbl_prefix : tables :=
  Tables [([RuntimeDeser; RuntimeOther], ACondDeser)]
         [([FileNotFoundError; InvalidCacheError], TRecompile)].
