(* C12 — representation-only options do not change the model's meaning.
   Executable model, NO proofs in this file.

   Mirrors the places where /repo/src/pymoca/backends/casadi reads the three options
     unroll_loops / inline_functions / expand_mx:
     generator.py:118-119  Generator.__init__: map_mode, function_mode
     generator.py:71       ForLoop.register_indexed_symbol: index expression mapped over the loop values
     generator.py:413      exitExpression: user function call  func.call(args, *function_mode)
     generator.py:509      exitForEquation: delay argument mapped over the loop values
     generator.py:531      exitForEquation: loop body mapped over the loop values
     generator.py:634      exitForStatement (function bodies): statement mapped over the loop values
     generator.py:689      get_integer: F.call(vals, *function_mode) (array dimensions, loop bounds)
     model.py:475,916,1078 position of vector expansion (only under expand_vectors)
     model.py:731          eliminable_variable_expression requires expand_mx
     model.py:1274-1276    _expand_mx_func, applied to the four output functions (1283-1453)
     api.py:526-527        cache implies expand_mx
   The generator is modelled as `gen`, producing a graph whose map / call nodes carry the MODE
   TAG the real generator passes to CasADi; the meaning of a tagged node is given by the
   evaluation-strategy Section variables mapS / callS / icallS / expandS (CasADi, trusted).
   Operators are copied one to one (their translation is C11's subject); scalars and 1-D arrays;
   user functions have two inputs; Booleans are the numbers 0/1 (the CasADi encoding).
   Variable lists are those of Model/C10_classify.v (reused read-only), with the generated delay
   inputs in front of the declared inputs (generator.py:217, 341-342). *)
From Coq Require Import ZArith QArith Qcanon List Bool Arith.
Import ListNotations.
From PV Require Import Model.C11_residual.
From PV Require Model.C10_classify.
Module C10 := PV.Model.C10_classify.
Open Scope Qc_scope.

(* ---------- options ---------- *)
Record flags := mkFlags { unroll_loops : bool; inline_functions : bool; expand_mx : bool }.
(* the other options, as far as the three flags interact with them *)
Record other := mkOther {
  o_expand_vectors : bool;      (* expand_vectors *)
  o_eliminable : bool;          (* eliminable_variable_expression is not None *)
  o_detect_aliases : bool;
  o_scalar_passes : bool;       (* any of resolve_/replace_/eliminate_/factor_/reduce_ options *)
  o_cache : bool }.

Inductive mapmode := MInline | MSerial.
Definition callmode := (bool * bool)%type.          (* (always_inline, never_inline) *)
(* generator.py:118 *)
Definition map_mode (fl : flags) : mapmode := if unroll_loops fl then MInline else MSerial.
(* generator.py:119 *)
Definition function_mode (fl : flags) : callmode :=
  if inline_functions fl then (true, false) else (false, true).
(* api.py:526-527: `if cache and not compiler_options["expand_mx"]: compiler_options["expand_mx"] = True` *)
Definition api_flags (o : other) (fl : flags) : flags :=
  if o_cache o && negb (expand_mx fl)
  then mkFlags (unroll_loops fl) (inline_functions fl) true else fl.

(* ---------- source: flat Modelica (after flattening), variables are numbered ---------- *)
(* subscripts of the loop index i inside a for-loop: i+k, c-i (reversal), a*i+c, i*i *)
Inductive iexpr := IOff (k : Z) | IRev (c : Z) | ILin (a c : Z) | ISq.
Definition ieval (ix : iexpr) (i : Z) : Z :=
  match ix with
  | IOff k => i + k
  | IRev c => c - i
  | ILin a c => a * i + c
  | ISq => i * i
  end%Z.
(* a bare `x[i]`: the ComponentRef case of get_indexed_symbol, no index expression *)
Definition is_bare (ix : iexpr) : bool := match ix with IOff 0%Z => true | _ => false end.
(* one subscript of an array argument: the loop index, a constant (1-based), the whole slice *)
Inductive midx := XI | XK (k : Z) | XAll.
Inductive sref :=
| SV (x : nat)                 (* scalar variable *)
| SD (x : nat)                 (* der(x) *)
| SI (x : nat) (k : Z)         (* x[k], constant 1-based subscript *)
| SL (x : nat) (ix : iexpr)    (* x[<ix>(i)] inside a for-loop over i *)
| SLoop                        (* the loop index as a number *)
| SArg (j : nat)               (* formal input / output / local of a function *)
| SL2 (x : nat) (ix : iexpr) (k : Z)   (* X[<ix>(i), k] of a 2-D array inside a for-equation *)
| SDL (x : nat) (ix : iexpr)           (* der(x[<ix>(i)]) inside a for-equation *)
| SM (x : nat) (ri ci : midx) (nr nc : nat).
   (* inside a function with array arguments: argument x (declared [nr, nc]; a vector is [nr, 1])
      subscripted by the loop index, a constant or a whole slice `:`; a slice is summed:
      A[i, k], b[i], sum(A[i, :]), sum(A[:, j]), A[k, j] *)
Inductive sx :=
| SNum (q : Qc)
| SRef (r : sref)
| SNeg (a : sx)
| SBin (n : canode) (a b : sx)
| SIf (c a b : sx)
| SCall (f : nat) (a b : sx) (k : nat)      (* k-th output of the user function f *)
| SCallM (f : nat) (A b : nat) (x : sx) (k : nat).
   (* k-th output of the user function f with ARRAY arguments: the 2-D array variable A, the
      1-D array variable b (whole arrays) and one scalar argument x *)

(* integer expressions evaluated at generation time by get_integer: literal, or an Integer
   parameter plus a literal (n, n+1, n-1) *)
Inductive ib := ILit (z : Z) | IPar (p : nat) (k : Z).

Inductive sstmt :=
| TAssign (v : nat) (e : sx)                        (* v := e *)
| TFor (lo : Z) (hi : ib) (v : nat) (e : sx).       (* for i in lo:hi loop v := e; end for *)
Record sfun := mkSfun { f_body : list sstmt; f_outs : list nat }.

Inductive meq :=
| MEq (l r : sx)
| MFor (lo : Z) (hi : ib) (body : list (sx * sx))
| MDelay (l e d : sx)                               (* l = delay(e, d) *)
| MForDelay (lo : Z) (hi : ib) (l e d : sx).        (* for i in lo:hi loop l = delay(e, d); end for *)

(* declaration: the C10 symbol (name, order, prefixes, type; its s_empty field is ignored and
   recomputed from the dimension), dimension, attribute expressions (value,min,max,start,fixed,nominal) *)
Record sdecl := mkDecl { d_sym : C10.sym; d_dim : option ib; d_dim2 : option Z; d_attrs : list sx }.
Record smodel := mkSmodel {
  s_decls : list sdecl;
  s_ipar : nat -> Z;                                (* values of the Integer parameters *)
  s_funs : list (nat * sfun);
  s_mfuns : list (nat * sfun);                      (* functions with array arguments (A, b, x) *)
  s_eqs : list meq;
  s_ieqs : list meq }.

(* ---------- generated graph (tags = the mode handed to CasADi) ---------- *)
Inductive gref :=
| RV (x : nat) | RD (x : nat)
| RE (x : nat) (k0 : Z)                 (* element, 0-based *)
| RG (x : nat) (idx : list Z)           (* orig_symbol[indices - 1]: at iteration position p the p-th entry *)
| RLoop | RArg (j : nat)
| RG2 (x : nat) (idx : list Z) (k0 : Z) (* X[indices - 1, k0] of a 2-D array, p-th entry at position p *)
| RGD (x : nat) (idx : list Z)          (* der(x)[indices - 1] *)
| RCells (x : nat) (cells : list (list (Z * Z))).
   (* exitForStatement: orig_symbol[s.indices] handed to the mapped loop body COLUMN BY COLUMN:
      at iteration position p the body sees the p-th column s[:, p], here the list of (row, col)
      cells of the argument it consists of (0-based); a slice is summed *)
Inductive gx :=
| GNum (q : Qc)
| GRef (r : gref)
| GNeg (a : gx)
| GBin (n : canode) (a b : gx)
| GIf (c a b : gx)                      (* ca.if_else(c, a, b, True) *)
| GCall (cm : callmode) (f : nat) (a b : gx) (k : nat)
| GCallM (cm : callmode) (f : nat) (A b : nat) (x : gx) (k : nat).
Inductive gstmt :=
| GAssign (v : nat) (e : gx)
| GFor (mm : mapmode) (vals : list Z) (v : nat) (e : gx).
Record gfun := mkGfun { g_body : list gstmt; g_outs : list nat }.
Inductive geqn :=
| GEq (e : gx)
| GMap (mm : mapmode) (vals : list Z) (body : list gx).
Inductive gdelay :=
| GDel (e d : gx)
| GDelMap (mm : mapmode) (vals : list Z) (e d : gx).

Record gmodel := mkGmodel {
  g_lists : C10.obs;                    (* states, der_states, alg_states, inputs, parameters, constants, ... outputs *)
  g_delay_states : list nat;            (* _pymoca_delay_<k>, in front of the declared inputs *)
  g_types : list (nat * C10.ty * list C10.kw);    (* python type / prefixes of every variable *)
  g_attrs : list (nat * list gx);       (* attribute expressions per declared variable *)
  g_funs : list (nat * gfun);
  g_mfuns : list (nat * gfun);
  g_eqs : list geqn;
  g_ieqs : list geqn;
  g_delays : list gdelay;
  g_expand : bool }.                    (* _expand_mx_func is `lambda x: x.expand()` *)

(* ---------- evaluation environment ---------- *)
Record env := mkEnv { e_sc : nat -> Qc; e_der : nat -> Qc; e_arr : nat -> Z -> Qc;
                      e_darr : nat -> Z -> Qc;          (* derivatives of 1-D arrays *)
                      e_mat : nat -> Z -> Z -> Qc;      (* 2-D arrays (0-based row, column) *)
                      e_i : Z; e_pos : nat; e_arg : nat -> Qc }.
Definition with_ip (r : env) (i : Z) (p : nat) : env :=
  mkEnv (e_sc r) (e_der r) (e_arr r) (e_darr r) (e_mat r) i p (e_arg r).
Definition upd_arg (r : env) (v : nat) (q : Qc) : env :=
  mkEnv (e_sc r) (e_der r) (e_arr r) (e_darr r) (e_mat r) (e_i r) (e_pos r)
        (fun j => if Nat.eqb j v then q else e_arg r j).
Definition args_env (a b : Qc) : env :=
  mkEnv (fun _ => 0) (fun _ => 0) (fun _ _ => 0) (fun _ _ => 0) (fun _ _ _ => 0) 0%Z 0%nat
        (fun j => match j with O => a | S O => b | _ => 0 end).
(* the local environment of a function with array arguments: argument 0 is the matrix, argument 1
   the vector (a one-column matrix), slot 0 the scalar argument *)
Definition args_envM (M : Z -> Z -> Qc) (v : Z -> Qc) (x : Qc) : env :=
  mkEnv (fun _ => 0) (fun _ => 0) (fun _ _ => 0) (fun _ _ => 0)
        (fun a r c => match a with O => M r c | _ => v r end) 0%Z 0%nat
        (fun j => match j with O => x | _ => 0 end).
Definition zero_env : env :=
  mkEnv (fun _ => 0) (fun _ => 0) (fun _ _ => 0) (fun _ _ => 0) (fun _ _ _ => 0) 0%Z 0%nat (fun _ => 0).
Definition qsum (l : list Qc) : Qc := fold_right Qcplus 0 l.

Fixpoint zip_pos {A} (p : nat) (l : list A) : list (nat * A) :=
  match l with [] => [] | x :: r => (p, x) :: zip_pos (S p) r end.
(* the reference meaning of a mapped function: applied iteration by iteration *)
Definition map_ref {R} (body : Z -> nat -> env -> R) (vals : list Z) (rho : env) : list R :=
  map (fun pi => body (snd pi) (fst pi) rho) (zip_pos 0 vals).

Section Strategies.
(* CasADi's evaluation strategies (TRUSTED, see Proofs/C12_options.v for the hypotheses):
   mapS mode body vals    F.map("map", mode, n, ...).call(vals ...): per iteration results
   imapS                  the same on the integer index expression (register_indexed_symbol)
   callS cm F a b k       F.call([a, b], always_inline, never_inline)[k]
   icallS cm F n          get_integer: F.call(vals, *function_mode) converted to int
   expandS F              Function.expand() *)
Variable mapS : mapmode -> (Z -> nat -> env -> list (option Qc)) -> list Z -> env -> list (list (option Qc)).
Variable imapS : mapmode -> (Z -> Z) -> list Z -> list Z.
Variable callS : callmode -> (Qc -> Qc -> nat -> option Qc) -> Qc -> Qc -> nat -> option Qc.
Variable icallS : callmode -> (Z -> Z) -> Z -> Z.
Variable expandS : (env -> list (option Qc)) -> env -> list (option Qc).
(* callMS cm F A b x k    F.call([A, b, x], always_inline, never_inline)[k] with whole ARRAYS as arguments *)
Variable callMS : callmode -> ((Z -> Z -> Qc) -> (Z -> Qc) -> Qc -> nat -> option Qc) ->
                  (Z -> Z -> Qc) -> (Z -> Qc) -> Qc -> nat -> option Qc.

(* ---------- meaning of the graph ---------- *)
Definition g_ref (r : gref) (rho : env) : Qc :=
  match r with
  | RV x => e_sc rho x
  | RD x => e_der rho x
  | RE x k0 => e_arr rho x k0
  | RG x idx => e_arr rho x (nth (e_pos rho) idx 0%Z)
  | RLoop => z2q (e_i rho)
  | RArg j => e_arg rho j
  | RG2 x idx k0 => e_mat rho x (nth (e_pos rho) idx 0%Z) k0
  | RGD x idx => e_darr rho x (nth (e_pos rho) idx 0%Z)
  | RCells x cells => qsum (map (fun rc => e_mat rho x (fst rc) (snd rc)) (nth (e_pos rho) cells []))
  end.

Section Eval.
Variable callf : callmode -> nat -> Qc -> Qc -> nat -> option Qc.
Variable callfm : callmode -> nat -> (Z -> Z -> Qc) -> (Z -> Qc) -> Qc -> nat -> option Qc.
Fixpoint geval (e : gx) (rho : env) : option Qc :=
  match e with
  | GNum q => Some q
  | GRef r => Some (g_ref r rho)
  | GNeg a => match geval a rho with Some x => Some (- x) | None => None end
  | GBin n a b =>
      match geval a rho, geval b rho with Some x, Some y => ca_bin n x y | _, _ => None end
  | GIf c a b =>
      match geval c rho with
      | Some x => if qeqb x 0 then geval b rho else geval a rho
      | None => None
      end
  | GCall cm f a b k =>
      match geval a rho, geval b rho with Some x, Some y => callf cm f x y k | _, _ => None end
  | GCallM cm f A b x k =>
      match geval x rho with Some q => callfm cm f (e_mat rho A) (e_arr rho b) q k | None => None end
  end.

(* exitForStatement + get_function: the right-hand side is mapped over the loop values with the
   assigned variable free; the assignments are then applied in order by substitution *)
Definition for_step (mm : mapmode) (vals : list Z) (v : nat) (e : gx) (acc : option env) (p : nat)
  : option env :=
  match acc with
  | None => None
  | Some rho =>
      match nth p (mapS mm (fun i p' r => [geval e (with_ip r i p')]) vals rho) [] with
      | [Some q] => Some (upd_arg rho v q)
      | _ => None
      end
  end.
Definition gexec1 (s : gstmt) (rho : env) : option env :=
  match s with
  | GAssign v e => match geval e rho with Some q => Some (upd_arg rho v q) | None => None end
  | GFor mm vals v e => fold_left (for_step mm vals v e) (seq 0 (length vals)) (Some rho)
  end.
Fixpoint gexec (l : list gstmt) (rho : env) : option env :=
  match l with
  | [] => Some rho
  | s :: r => match gexec1 s rho with Some rho' => gexec r rho' | None => None end
  end.
Definition gfun_den (g : gfun) (a b : Qc) (k : nat) : option Qc :=
  match gexec (g_body g) (args_env a b) with
  | Some rho => match nth_error (g_outs g) k with Some v => Some (e_arg rho v) | None => None end
  | None => None
  end.
Definition gfun_denM (g : gfun) (M : Z -> Z -> Qc) (v : Z -> Qc) (x : Qc) (k : nat) : option Qc :=
  match gexec (g_body g) (args_envM M v x) with
  | Some rho => match nth_error (g_outs g) k with Some s => Some (e_arg rho s) | None => None end
  | None => None
  end.
End Eval.

Fixpoint fun_lookup {A} (l : list (nat * A)) (f : nat) : option A :=
  match l with [] => None | (g, v) :: r => if Nat.eqb f g then Some v else fun_lookup r f end.

(* functions do not call functions (depth 1): inside a body a call is undefined *)
Definition no_calls : callmode -> nat -> Qc -> Qc -> nat -> option Qc := fun _ _ _ _ _ => None.
Definition no_callsM : callmode -> nat -> (Z -> Z -> Qc) -> (Z -> Qc) -> Qc -> nat -> option Qc :=
  fun _ _ _ _ _ _ => None.
Definition top_callf (ft : list (nat * gfun)) : callmode -> nat -> Qc -> Qc -> nat -> option Qc :=
  fun cm f x y k =>
    match fun_lookup ft f with
    | Some g => callS cm (gfun_den no_calls no_callsM g) x y k
    | None => None
    end.
Definition top_callfm (mft : list (nat * gfun))
  : callmode -> nat -> (Z -> Z -> Qc) -> (Z -> Qc) -> Qc -> nat -> option Qc :=
  fun cm f M v x k =>
    match fun_lookup mft f with
    | Some g => callMS cm (gfun_denM no_calls no_callsM g) M v x k
    | None => None
    end.
(* evaluation at model level: both function tables *)
Definition gev (ft mft : list (nat * gfun)) : gx -> env -> option Qc :=
  geval (top_callf ft) (top_callfm mft).

(* transposition of the map result: "for each body equation, all iterations" (res[0].T, veccat) *)
Definition transpose_flat (n : nat) (cols : list (list (option Qc))) : list (option Qc) :=
  flat_map (fun j => map (fun col => nth j col None) cols) (seq 0 n).

Definition geqn_eval (ft mft : list (nat * gfun)) (q : geqn) (rho : env) : list (option Qc) :=
  match q with
  | GEq e => [gev ft mft e rho]
  | GMap mm vals body =>
      transpose_flat (length body)
        (mapS mm (fun i p r => map (fun c => gev ft mft c (with_ip r i p)) body) vals rho)
  end.
Definition gdelay_eval (ft mft : list (nat * gfun)) (d : gdelay) (rho : env) : list (option Qc) :=
  match d with
  | GDel e du => [gev ft mft e rho; gev ft mft du rho]
  | GDelMap mm vals e du =>
      concat (mapS mm (fun i p r => [gev ft mft e (with_ip r i p)]) vals rho)
      ++ [gev ft mft du rho]
  end.

(* model.py:1274-1276 and 1283-1453 *)
Definition expand_mx_func (g : gmodel) (F : env -> list (option Qc)) : env -> list (option Qc) :=
  if g_expand g then expandS F else F.

Definition dae_residual_function (g : gmodel) : env -> list (option Qc) :=
  expand_mx_func g (fun rho => flat_map (fun q => geqn_eval (g_funs g) (g_mfuns g) q rho) (g_eqs g)).
Definition initial_residual_function (g : gmodel) : env -> list (option Qc) :=
  expand_mx_func g (fun rho => flat_map (fun q => geqn_eval (g_funs g) (g_mfuns g) q rho) (g_ieqs g)).
Definition variable_metadata_function (g : gmodel) : env -> list (option Qc) :=
  expand_mx_func g (fun rho =>
    flat_map (fun va => map (fun e => gev (g_funs g) (g_mfuns g) e rho) (snd va)) (g_attrs g)).
Definition delay_arguments_function (g : gmodel) : env -> list (option Qc) :=
  expand_mx_func g (fun rho => flat_map (fun d => gdelay_eval (g_funs g) (g_mfuns g) d rho) (g_delays g)).

(* ---------- the generator ---------- *)
Section Gen.
Variable fl : flags.
Variable ipar : nat -> Z.

(* generator.py:653-695 get_integer; the Expression case goes through F.call(vals, *function_mode) *)
Definition get_integer (b : ib) : Z :=
  match b with
  | ILit z => z
  | IPar p k => if (k =? 0)%Z then ipar p                     (* ComponentRef: the parameter's value *)
                else icallS (function_mode fl) (fun n => (n + k)%Z) (ipar p)   (* line 689 *)
  end.
(* ForLoop.__init__ line 59: np.arange(start, stop + 1, 1) *)
Definition loop_vals (lo : Z) (hi : ib) : list Z := loop_values lo (get_integer hi).

(* vals = Some values inside a for-loop *)
Definition gen_ref (vals : option (list Z)) (r : sref) : gref :=
  match r with
  | SV x => RV x
  | SD x => RD x
  | SI x k => RE x (k - 1)
  | SL x ix =>
      match vals with
      | Some vs =>
          (* register_indexed_symbol: a bare index uses the values, an index expression is mapped
             with map_mode (line 68-73); then `indices - 1` (line 85) *)
          let idx := if is_bare ix then vs else imapS (map_mode fl) (ieval ix) vs in
          RG x (map (fun j => (j - 1)%Z) idx)
      | None => RE x (ieval ix 0 - 1)
      end
  | SLoop => RLoop
  | SArg j => RArg j
  | SL2 x ix k =>
      match vals with
      | Some vs =>
          let idx := if is_bare ix then vs else imapS (map_mode fl) (ieval ix) vs in
          RG2 x (map (fun j => (j - 1)%Z) idx) (k - 1)
      | None => RG2 x [(ieval ix 0 - 1)%Z] (k - 1)
      end
  | SDL x ix =>
      match vals with
      | Some vs =>
          let idx := if is_bare ix then vs else imapS (map_mode fl) (ieval ix) vs in
          RGD x (map (fun j => (j - 1)%Z) idx)
      | None => RGD x [(ieval ix 0 - 1)%Z]
      end
  | SM x ri ci nr nc =>
      (* exitForStatement 625-631: indexed_symbol = orig_symbol[s.indices] (transposed so that the
         iterations are the columns); the loop index is a bare ComponentRef, so indices = values.
         Outside a loop there is one "iteration" (position 0) *)
      let sel (m : midx) (n : nat) (i : Z) : list Z :=
        match m with
        | XI => [(i - 1)%Z]
        | XK k => [(k - 1)%Z]
        | XAll => map Z.of_nat (seq 0 n)
        end in
      RCells x (map (fun i => list_prod (sel ri nr i) (sel ci nc i))
                    (match vals with Some vs => vs | None => [0%Z] end))
  end.
Fixpoint gen_x (vals : option (list Z)) (e : sx) : gx :=
  match e with
  | SNum q => GNum q
  | SRef r => GRef (gen_ref vals r)
  | SNeg a => GNeg (gen_x vals a)
  | SBin n a b => GBin n (gen_x vals a) (gen_x vals b)
  | SIf c a b => GIf (gen_x vals c) (gen_x vals a) (gen_x vals b)
  | SCall f a b k => GCall (function_mode fl) f (gen_x vals a) (gen_x vals b) k   (* line 413 *)
  | SCallM f A b x k => GCallM (function_mode fl) f A b (gen_x vals x) k         (* line 413, array operands *)
  end.
Definition gen_stmt (s : sstmt) : gstmt :=
  match s with
  | TAssign v e => GAssign v (gen_x None e)
  | TFor lo hi v e => let vs := loop_vals lo hi in GFor (map_mode fl) vs v (gen_x (Some vs) e)   (* line 633-636 *)
  end.
Definition gen_fun (f : sfun) : gfun := mkGfun (map gen_stmt (f_body f)) (f_outs f).

Definition sub (l r : gx) : gx := GBin CSub l r.              (* exitEquation line 465 *)
(* equations that are not delay equations *)
Definition gen_eqn (q : meq) : geqn :=
  match q with
  | MEq l r => GEq (sub (gen_x None l) (gen_x None r))
  | MFor lo hi body =>
      let vs := loop_vals lo hi in
      GMap (map_mode fl) vs (map (fun lr => sub (gen_x (Some vs) (fst lr)) (gen_x (Some vs) (snd lr))) body)  (* 530-533 *)
  | MDelay l e d => GEq (sub (gen_x None l) (GNum 0))         (* replaced by gen_eqns *)
  | MForDelay lo hi l e d => GEq (GNum 0)
  end.
(* delay(e, d) becomes the fresh input _pymoca_delay_<k> (array variable number dbase + k):
   lines 327-345; in a for-loop the delay symbol is an indexed symbol of the loop and the delay
   argument is mapped over the loop values (lines 496-523) *)
Variable dbase : nat.
Fixpoint gen_eqns (k : nat) (qs : list meq) : list geqn * list gdelay :=
  match qs with
  | [] => ([], [])
  | q :: r =>
      match q with
      | MDelay l e d =>
          let (es, ds) := gen_eqns (S k) r in
          (GEq (sub (gen_x None l) (GRef (RV (dbase + k)))) :: es, GDel (gen_x None e) (gen_x None d) :: ds)
      | MForDelay lo hi l e d =>
          let vs := loop_vals lo hi in
          let (es, ds) := gen_eqns (S k) r in
          (GMap (map_mode fl) vs
             [sub (gen_x (Some vs) l) (GRef (RG (dbase + k) (map (fun p => Z.of_nat p) (seq 0 (length vs)))))] :: es,
           GDelMap (map_mode fl) vs (gen_x (Some vs) e) (gen_x None d) :: ds)     (* line 508-511 *)
      | _ => let (es, ds) := gen_eqns k r in (gen_eqn q :: es, ds)
      end
  end.
End Gen.

Definition is_delay (q : meq) : bool :=
  match q with MDelay _ _ _ | MForDelay _ _ _ _ _ => true | _ => false end.
Definition n_delays (qs : list meq) : nat := length (filter is_delay qs).

(* what annotate_states (C10) sees of an expression *)
Fixpoint c10_x (e : sx) : C10.expr :=
  match e with
  | SNum _ => C10.ELit
  | SRef (SD x) => C10.EOp true [C10.ERef x]
  | SRef (SDL x _) => C10.EOp true [C10.ERef x]
  | SRef (SV x) | SRef (SI x _) | SRef (SL x _) | SRef (SL2 x _ _) => C10.ERef x
  | SRef _ => C10.ELit
  | SNeg a => C10.EOp false [c10_x a]
  | SBin _ a b => C10.EOp false [c10_x a; c10_x b]
  | SIf c a b => C10.EOp false [c10_x c; c10_x a; c10_x b]
  | SCall _ a b _ => C10.EOp false [c10_x a; c10_x b]
  | SCallM _ A b x _ => C10.EOp false [C10.ERef A; C10.ERef b; c10_x x]
  end.
Definition c10_q (q : meq) : list C10.expr :=
  match q with
  | MEq l r => [c10_x l; c10_x r]
  | MFor _ _ body => flat_map (fun lr => [c10_x (fst lr); c10_x (snd lr)]) body
  | MDelay l e d => [c10_x l; c10_x e; c10_x d]
  | MForDelay _ _ l e d => [c10_x l; c10_x e; c10_x d]
  end.

(* the C10 flat class of the model: a symbol is empty iff its dimension is 0
   (mx_symbol.is_empty(), generator.py:134), the dimension coming from get_integer *)
Definition decl_sym (fl : flags) (ipar : nat -> Z) (d : sdecl) : C10.sym :=
  let s := d_sym d in
  C10.mkSym (C10.s_name s) (C10.s_order s) (C10.s_pref s) (C10.s_ty s)
    (match d_dim d with None => false | Some b => (get_integer fl ipar b <=? 0)%Z end
     || match d_dim2 d with None => false | Some z => (z <=? 0)%Z end).
Definition c10_flat (fl : flags) (m : smodel) : C10.flat :=
  C10.mkFlat (map (decl_sym fl (s_ipar m)) (s_decls m))
             (flat_map c10_q (s_eqs m ++ s_ieqs m) ++ flat_map (fun d => map c10_x (d_attrs d)) (s_decls m)).

Definition dbase_of (m : smodel) : nat := S (fold_right Nat.max 0%nat (map (fun d => C10.s_name (d_sym d)) (s_decls m))).

(* generator.generate: Generator(flat_tree, model_name, options) walks the flat class *)
Definition gen (fl : flags) (m : smodel) : gmodel :=
  let eqs := gen_eqns fl (s_ipar m) (dbase_of m) 0 (s_eqs m) in
  let ieqs := gen_eqns fl (s_ipar m) (dbase_of m) (n_delays (s_eqs m)) (s_ieqs m) in
  let fc := c10_flat fl m in
  mkGmodel (C10.lists fc)
           (seq 0 (n_delays (s_eqs m) + n_delays (s_ieqs m)))
           (map (fun s => (C10.s_name s, C10.s_ty s, C10.s_pref s)) (C10.sorted_syms fc))
           (map (fun d => (C10.s_name (d_sym d), map (gen_x fl None) (d_attrs d))) (s_decls m))
           (map (fun nf => (fst nf, gen_fun fl (s_ipar m) (snd nf))) (s_funs m))
           (map (fun nf => (fst nf, gen_fun fl (s_ipar m) (snd nf))) (s_mfuns m))
           (fst eqs) (fst ieqs) (snd eqs ++ snd ieqs)
           false.                                   (* model.py:122 `_expand_mx_func = lambda x: x` *)

(* ---------- Model.simplify ---------- *)
(* the passes themselves are opaque here: C12 is about the runs where none of them is enabled *)
Variable P_expand_vectors : gmodel -> gmodel.          (* _expand_vectors *)
Variable P_expand_simplify : gmodel -> gmodel.         (* _expand_simplify_mx on both equation lists *)
Variable P_scalar : gmodel -> gmodel.                  (* model.py:487-718 *)
Variable P_eliminable : gmodel -> gmodel.              (* model.py:736-914 *)
Variable P_aliases : bool -> gmodel -> gmodel.         (* model.py:957-1207; the bool is the test of line 1078 *)

Definition set_expand (g : gmodel) : gmodel :=
  mkGmodel (g_lists g) (g_delay_states g) (g_types g) (g_attrs g) (g_funs g) (g_mfuns g) (g_eqs g) (g_ieqs g)
           (g_delays g) true.

Definition simplify_once (fl : flags) (o : other) (g : gmodel) : res gmodel :=
  let g1 := if o_expand_vectors o && expand_mx fl                        (* 475 *)
            then P_expand_simplify (P_expand_vectors g) else g in
  let g2 := if o_scalar_passes o then P_scalar g1 else g1 in
  match (if o_eliminable o                                              (* 720 *)
         then if negb (expand_mx fl) then Err 1%nat                     (* 731-734: raise *)
              else Ok (P_eliminable g2)
         else Ok g2) with
  | Err w => Err w
  | Ok g3 =>
      let g4 := if o_expand_vectors o && negb (expand_mx fl)            (* 916 *)
                then P_expand_vectors g3 else g3 in
      let g5 := if o_detect_aliases o                                   (* 957 *)
                then P_aliases (o_expand_vectors o && negb (expand_mx fl)) g4   (* 1078 *)
                else g4 in
      Ok (if expand_mx fl then set_expand g5 else g5)                   (* 1274-1276 *)
  end.

(* api.transfer_model -> _compile_model: generate, then model.simplify(options) *)
Definition compile (fl0 : flags) (o : other) (m : smodel) : res gmodel :=
  let fl := api_flags o fl0 in
  simplify_once fl o (gen fl m).

End Strategies.

(* no simplification option set, no cache: the quantifier of the property *)
Definition no_simpl (o : other) : bool :=
  negb (o_expand_vectors o) && negb (o_eliminable o) && negb (o_detect_aliases o) &&
  negb (o_scalar_passes o) && negb (o_cache o).
Definition plain : other := mkOther false false false false false.

(* ---------- reference strategies (used to RUN the model) ---------- *)
Definition mapR : mapmode -> (Z -> nat -> env -> list (option Qc)) -> list Z -> env -> list (list (option Qc)) :=
  fun _ body vals rho => map_ref body vals rho.
Definition imapR : mapmode -> (Z -> Z) -> list Z -> list Z := fun _ f vals => map f vals.
Definition callR : callmode -> (Qc -> Qc -> nat -> option Qc) -> Qc -> Qc -> nat -> option Qc :=
  fun _ F a b k => F a b k.
Definition icallR : callmode -> (Z -> Z) -> Z -> Z := fun _ F n => F n.
Definition callMR : callmode -> ((Z -> Z -> Qc) -> (Z -> Qc) -> Qc -> nat -> option Qc) ->
                    (Z -> Z -> Qc) -> (Z -> Qc) -> Qc -> nat -> option Qc :=
  fun _ F M v x k => F M v x k.
Definition expandR : (env -> list (option Qc)) -> env -> list (option Qc) := fun F => F.
Definition idP : gmodel -> gmodel := fun g => g.
Definition compileR (fl : flags) (o : other) (m : smodel) : res gmodel :=
  compile imapR icallR idP idP idP idP (fun _ => idP) fl o m.

(* ---------- data-flow table (vlib/c12.py, regenerated on every run into run/C12/Gen.v) ---------- *)
(* one row per occurrence, in the source, of one of the three option names or of an attribute /
   local they are stored in: (file, enclosing function, tracked name, shape of the occurrence) *)
Inductive srcfile := F_generator | F_model | F_api | F_options | F_otherfile.
Inductive tracked := T_unroll_loops | T_inline_functions | T_expand_mx
                   | T_map_mode | T_function_mode | T_expand_mx_func.
Inductive shape :=
| Sh_init_map_mode          (* self.map_mode = "inline" if options["unroll_loops"] else "serial" *)
| Sh_init_function_mode     (* self.function_mode = (True, False) if options["inline_functions"] else (False, True) *)
| Sh_map_arg                (* second argument of  <F>.map("map", <mode>, n, [...], []) *)
| Sh_call_star              (* <F>.call(<args>, *self.function_mode) *)
| Sh_expand_func_init       (* self._expand_mx_func = lambda x: x   (Model.__init__) *)
| Sh_expand_func_set        (* if options["expand_mx"]: ...; self._expand_mx_func = lambda x: x.expand() *)
| Sh_expand_func_return     (* return self._expand_mx_func(ca.Function(...)) of an output-function property *)
| Sh_vectors_and            (* options["expand_vectors"] and [not] options["expand_mx"]  as an if-test *)
| Sh_eliminable_raise       (* if not options["expand_mx"]: raise ...   under eliminable_variable_expression *)
| Sh_cache_implies          (* if cache and not compiler_options["expand_mx"]: compiler_options["expand_mx"] = True *)
| Sh_default                (* key of the defaults dictionary in _options.py *)
| Sh_unrecognised.
(* enclosing function / property *)
Inductive site := At_Generator_init | At_register_indexed_symbol | At_exitExpression
                | At_exitForEquation | At_exitForStatement | At_get_integer
                | At_Model_init | At_simplify_once | At_dae_residual_function
                | At_initial_residual_function | At_variable_metadata_function
                | At_delay_arguments_function | At_transfer_model | At_get_default_options
                | At_elsewhere.
Definition row := (srcfile * site * tracked * shape)%type.

Definition code_file (f : srcfile) : nat :=
  match f with F_generator => 0 | F_model => 1 | F_api => 2 | F_options => 3 | F_otherfile => 4 end.
Definition code_site (s : site) : nat :=
  match s with
  | At_Generator_init => 0 | At_register_indexed_symbol => 1 | At_exitExpression => 2
  | At_exitForEquation => 3 | At_exitForStatement => 4 | At_get_integer => 5 | At_Model_init => 6
  | At_simplify_once => 7 | At_dae_residual_function => 8 | At_initial_residual_function => 9
  | At_variable_metadata_function => 10 | At_delay_arguments_function => 11 | At_transfer_model => 12
  | At_get_default_options => 13 | At_elsewhere => 14
  end.
Definition code_tracked (t : tracked) : nat :=
  match t with T_unroll_loops => 0 | T_inline_functions => 1 | T_expand_mx => 2
             | T_map_mode => 3 | T_function_mode => 4 | T_expand_mx_func => 5 end.
Definition code_shape (s : shape) : nat :=
  match s with
  | Sh_init_map_mode => 0 | Sh_init_function_mode => 1 | Sh_map_arg => 2 | Sh_call_star => 3
  | Sh_expand_func_init => 4 | Sh_expand_func_set => 5 | Sh_expand_func_return => 6
  | Sh_vectors_and => 7 | Sh_eliminable_raise => 8 | Sh_cache_implies => 9 | Sh_default => 10
  | Sh_unrecognised => 11
  end.
Definition row_eqb (a b : row) : bool :=
  match a, b with
  | (f1, s1, t1, h1), (f2, s2, t2, h2) =>
      Nat.eqb (code_file f1) (code_file f2) && Nat.eqb (code_site s1) (code_site s2) &&
      Nat.eqb (code_tracked t1) (code_tracked t2) && Nat.eqb (code_shape h1) (code_shape h2)
  end.

(* the sites the model threads the flags through — exactly the places `gen`, `simplify_once`,
   `api_flags` and the four *_function definitions above read them *)
Definition allowed : list row :=
  [ (F_generator, At_Generator_init, T_unroll_loops, Sh_init_map_mode);          (* map_mode *)
    (F_generator, At_Generator_init, T_map_mode, Sh_init_map_mode);
    (F_generator, At_Generator_init, T_inline_functions, Sh_init_function_mode);  (* function_mode *)
    (F_generator, At_Generator_init, T_function_mode, Sh_init_function_mode);
    (F_generator, At_register_indexed_symbol, T_map_mode, Sh_map_arg);            (* gen_ref / imapS *)
    (F_generator, At_exitExpression, T_function_mode, Sh_call_star);              (* gen_x SCall *)
    (F_generator, At_exitForEquation, T_map_mode, Sh_map_arg);                    (* gen_eqn MFor, gen_eqns MForDelay *)
    (F_generator, At_exitForStatement, T_map_mode, Sh_map_arg);                   (* gen_stmt TFor *)
    (F_generator, At_get_integer, T_function_mode, Sh_call_star);                 (* get_integer *)
    (F_model, At_Model_init, T_expand_mx_func, Sh_expand_func_init);              (* gen: g_expand = false *)
    (F_model, At_simplify_once, T_expand_mx, Sh_vectors_and);                     (* simplify_once 475/916/1078 *)
    (F_model, At_simplify_once, T_expand_mx, Sh_eliminable_raise);                (* simplify_once 731 *)
    (F_model, At_simplify_once, T_expand_mx, Sh_expand_func_set);                 (* simplify_once 1274 *)
    (F_model, At_simplify_once, T_expand_mx_func, Sh_expand_func_set);
    (F_model, At_dae_residual_function, T_expand_mx_func, Sh_expand_func_return);
    (F_model, At_initial_residual_function, T_expand_mx_func, Sh_expand_func_return);
    (F_model, At_variable_metadata_function, T_expand_mx_func, Sh_expand_func_return);
    (F_model, At_delay_arguments_function, T_expand_mx_func, Sh_expand_func_return);
    (F_api, At_transfer_model, T_expand_mx, Sh_cache_implies);                    (* api_flags *)
    (F_options, At_get_default_options, T_unroll_loops, Sh_default);
    (F_options, At_get_default_options, T_inline_functions, Sh_default);
    (F_options, At_get_default_options, T_expand_mx, Sh_default) ].

Definition row_allowed (r : row) : bool := existsb (row_eqb r) allowed.
(* side condition of the tie: every occurrence found in the source is an allowed one, and every
   mechanism of the model is actually present in the source (so the model does not describe
   reads that no longer exist) *)
Definition sites_ok (found : list row) : bool :=
  forallb row_allowed found && forallb (fun a => existsb (row_eqb a) found) allowed.

(* ---------- correspondence (vlib/c12.py) ---------- *)
(* case: the model and, per flag triple, what the real transfer_model produced under these flags:
   Some (lists, number of delay states, lengths of the dae / initial residuals and of the delay
   argument list) or None when it raised *)
Definition len_fn (F : env -> list (option Qc)) : nat :=
  length (F zero_env).
Definition observation := option (C10.obs * nat * (nat * nat * nat)).
Definition check_obs (m : smodel) (fo : flags * observation) : bool :=
  match compileR (fst fo) plain m, snd fo with
  | Ok g, Some (lists, nd, (n_dae, n_init, n_del)) =>
      C10.obs_eqb (g_lists g) lists && Nat.eqb (length (g_delay_states g)) nd &&
      Nat.eqb (len_fn (dae_residual_function mapR callR expandR callMR g)) n_dae &&
      Nat.eqb (len_fn (initial_residual_function mapR callR expandR callMR g)) n_init &&
      Nat.eqb (len_fn (delay_arguments_function mapR callR expandR callMR g)) n_del
  | Err _, None => true
  | _, _ => false
  end.
Definition case := (smodel * list (flags * observation))%type.
Definition check_case (c : case) : bool := forallb (check_obs (fst c)) (snd c).

(* ---------- value-level correspondence for the array-function stream (vlib/c12.py) ---------- *)
(* The models of that stream use +, -, *, comparisons and dyadic constants only, so the binary64
   residuals of the real code are EXACT at dyadic points and are compared with the model's
   rational residuals by equality, under each of the 8 flag triples. *)
Record vpoint := mkVpoint {
  vp_sc : list (nat * Qc);                      (* scalars (time is variable 999) *)
  vp_arr : list (nat * list Qc);                (* 1-D arrays *)
  vp_darr : list (nat * list Qc);               (* their derivatives *)
  vp_mat : list (nat * (nat * list Qc)) }.      (* 2-D arrays: number of rows, entries column-major *)
Fixpoint nlookup {A} (d : A) (l : list (nat * A)) (x : nat) : A :=
  match l with [] => d | (y, v) :: r => if Nat.eqb x y then v else nlookup d r x end.
Definition znth (l : list Qc) (k : Z) : Qc :=
  match k with Zneg _ => 0 | _ => nth (Z.to_nat k) l 0 end.
Definition env_of (p : vpoint) : env :=
  mkEnv (nlookup 0 (vp_sc p)) (fun _ => 0)
        (fun x k => znth (nlookup [] (vp_arr p) x) k)
        (fun x k => znth (nlookup [] (vp_darr p) x) k)
        (fun x r c => let m := nlookup (0%nat, []) (vp_mat p) x in
                      match r, c with
                      | Zneg _, _ | _, Zneg _ => 0
                      | _, _ => znth (snd m) (c * Z.of_nat (fst m) + r)
                      end)
        0%Z 0%nat (fun _ => 0).
Fixpoint qlist_eqb (a : list (option Qc)) (b : list Qc) : bool :=
  match a, b with
  | [], [] => true
  | Some x :: a', y :: b' => qeqb x y && qlist_eqb a' b'
  | _, _ => false
  end.
Definition vcase := (smodel * vpoint * list (flags * (list Qc * list Qc)))%type.
Definition check_vobs (m : smodel) (p : vpoint) (fo : flags * (list Qc * list Qc)) : bool :=
  match compileR (fst fo) plain m with
  | Ok g =>
      qlist_eqb (dae_residual_function mapR callR expandR callMR g (env_of p)) (fst (snd fo)) &&
      qlist_eqb (initial_residual_function mapR callR expandR callMR g (env_of p)) (snd (snd fo))
  | Err _ => false
  end.
Definition check_case_val (c : vcase) : bool :=
  match c with (m, p, obs) => forallb (check_vobs m p) obs end.
