(* C09 — executable value-level model of connect-clause expansion in src/pymoca/tree.py
   (expand_connectors, lines 1003-1163; inside/outside flag, lines 674-679; equation order of
   flatten_symbols, lines 566-641/667-673).
   Value level: flow_connections maps a key to its SET of keys (the shared OrderedDict objects of
   the Python code are the values of this map; that all keys pointing at one object are exactly its
   members is the invariant proved in Proofs/C09_connect.v, the sharing itself is exercised by the
   correspondence check).  Scalar connectors only: the index tuple of a key is always () and omitted.
   No proofs here: the model must keep running when a proof breaks. *)
From stdpp Require Import gmap.
From PV Require Import Lib.Closure.

Inductive kind := KPot | KFlow | KPar.   (* no prefix / input / output ; flow ; constant / parameter *)
Global Instance kind_eq_dec : EqDecision kind.
Proof. solve_decision. Defined.

Notation var := (list positive).               (* flattened name "a.p.i" = [a; p; i] *)
Notation key := (list positive * bool)%type.   (* (flattened flow variable name, inside?)  tree.py:1082-1101 *)
Notation cmapT := (gmap key (gset key)).
Notation row := (list (var * Z)).              (* linear equation  sum c*v = 0 *)
Notation cvars := (list (positive * kind)).    (* connector class: variable names with kind, in order *)
Notation fclause := ((var * bool) * (var * bool) * cvars)%type.   (* flattened connect clause *)

(* ---- hierarchical input: what the parser hands to flatten ---- *)
Inductive cref := CRef (comp : option positive) (conn : positive).   (* x  |  c.x *)
Record clause := Clause { c_l : cref; c_r : cref; c_vars : cvars }.
Inductive inst :=
  Inst (decl : list (positive * cvars))     (* connectors declared directly in this class *)
       (subs : list (positive * inst))      (* components of model type *)
       (cl : list clause).                  (* connect clauses of this class, in order *)

(* tree.py:672-679: names are prefixed with the instance path; a reference with a child part
   (c.x) is an inside connector, a plain name an outside connector *)
Definition flat_ref (pre : list positive) (r : cref) : var * bool :=
  match r with
  | CRef None x => (pre ++ [x], false)
  | CRef (Some c) x => (pre ++ [c; x], true)
  end.

Definition flat_clause (pre : list positive) (c : clause) : fclause :=
  (flat_ref pre (c_l c), flat_ref pre (c_r c), c_vars c).

(* tree.py:629-641 then 667-673: equations of the sub-components first (symbol order), then own *)
Fixpoint flat_clauses (pre : list positive) (i : inst) : list fclause :=
  match i with
  | Inst _ subs cl =>
      (fix go (l : list (positive * inst)) : list fclause :=
         match l with
         | [] => []
         | (n, s) :: l' => flat_clauses (pre ++ [n]) s ++ go l'
         end) subs ++ map (flat_clause pre) cl
  end.

Definition flows_of (pre : list positive) (d : positive * cvars) : list var :=
  omap (fun v : positive * kind => if decide (v.2 = KFlow) then Some (pre ++ [d.1; v.1]) else None) d.2.

(* tree.py:1005-1008: every symbol of the flat class with a flow prefix *)
Fixpoint flat_flows (pre : list positive) (i : inst) : list var :=
  match i with
  | Inst decl subs _ =>
      flat_map (flows_of pre) decl ++
      (fix go (l : list (positive * inst)) : list var :=
         match l with
         | [] => []
         | (n, s) :: l' => flat_flows (pre ++ [n]) s ++ go l'
         end) subs
  end.

(* ---- expand_connectors on the flat class ---- *)
Record st := St { fc : cmapT; disc : list var; eqs : list row }.

(* flow_connections.get(key, OrderedDict())  tree.py:1103-1104 *)
Definition getset (m : cmapT) (k : key) : gset key := default ∅ (m !! k).

(* tree.py:1103-1112: left.update(right); add both keys; repoint every member *)
Definition connect_flow (m : cmapT) (l r : key) : cmapT :=
  relabel (getset m l ∪ getset m r ∪ {[l]} ∪ {[r]}) m.

Definition pot_row (a b : var) : row := [(a, 1%Z); (b, (-1)%Z)].

(* tree.py:1063-1128, one connector variable of one clause *)
Definition step_var (L R : var * bool) (s : st) (v : positive * kind) : st :=
  let ln := L.1 ++ [v.1] in
  let rn := R.1 ++ [v.1] in
  match v.2 with
  | KPot => St (fc s) (disc s) (eqs s ++ [pot_row ln rn])                     (* 1074-1079 *)
  | KFlow => St (connect_flow (fc s) (ln, L.2) (rn, R.2))                     (* 1080-1112 *)
                (filter (fun n => n ≠ ln ∧ n ≠ rn) (disc s))                  (* 1118-1119 *)
                (eqs s)
  | KPar => s                                                                 (* 1120-1122 *)
  end.

Definition step_clause (s : st) (c : fclause) : st :=
  let '(L, R, vars) := c in fold_left (step_var L R) vars s.

(* tree.py:1132-1134,1153: each distinct set object once *)
Definition sets_of (m : cmapT) : list (gset key) := remove_dups (map snd (map_to_list m)).

(* tree.py:1135-1151 *)
Definition sum_row (S : gset key) : row :=
  let ops := elements S in
  if forallb (fun k : key => negb k.2) ops
  then map (fun k : key => (k.1, 1%Z)) ops                                    (* 1136-1138 all outside *)
  else map (fun k : key => (k.1, if k.2 then 1%Z else (-1)%Z)) ops.           (* 1140-1147 *)

Definition zero_row (n : var) : row := [(n, 1%Z)].                            (* 1156-1158 *)

Definition run_clauses (flows : list var) (cs : list fclause) : st :=
  fold_left step_clause cs (St ∅ flows []).

Definition pot_eqs (cs : list fclause) : list row := eqs (run_clauses [] cs).
Definition flow_eqs (flows : list var) (cs : list fclause) : list row :=
  let s := run_clauses flows cs in
  map sum_row (sets_of (fc s)) ++ map zero_row (disc s).

Definition expand (flows : list var) (cs : list fclause) : list row :=
  let s := run_clauses flows cs in
  eqs s ++ map sum_row (sets_of (fc s)) ++ map zero_row (disc s).

Definition model_rows (i : inst) : list row := expand (flat_flows [] i) (flat_clauses [] i).

(* ---- observation used by the correspondence check ----
   rows are compared as multisets of canonical linear forms (like terms collected, zero
   coefficients dropped): the order of equations and of operands is not part of the property *)
Definition canon_row (r : row) : gmap var Z :=
  filter (fun p : var * Z => p.2 ≠ 0%Z)
         (foldr (fun (t : var * Z) (m : gmap var Z) => <[t.1 := (t.2 + default 0 (m !! t.1))%Z]> m) ∅ r).

Definition cnt (x : gmap var Z) (l : list (gmap var Z)) : nat :=
  length (filter (fun y => y = x) l).

Definition same_multiset (l1 l2 : list (gmap var Z)) : bool :=
  bool_decide (length l1 = length l2) && forallb (fun x => bool_decide (cnt x l1 = cnt x l2)) l1.

Definition check_case (c : inst * list row) : bool :=
  same_multiset (map canon_row (model_rows c.1)) (map canon_row c.2).

(* the classes and signs themselves, for diagnostics *)
Definition model_sets (i : inst) : list (list key) :=
  map elements (sets_of (fc (run_clauses (flat_flows [] i) (flat_clauses [] i)))).
