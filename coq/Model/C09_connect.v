(* C09 — executable value-level model of connect-clause expansion in src/pymoca/tree.py
   (expand_connectors, lines 1003-1163; inside/outside flag, lines 674-679; equation order of
   flatten_symbols, lines 566-641/667-673).
   Value level: flow_connections maps a key to its SET of keys (the shared OrderedDict objects of
   the Python code are the values of this map; that all keys pointing at one object are exactly its
   members is the invariant proved in Proofs/C09_connect.v, the sharing itself is exercised by the
   correspondence check).  Scalar connectors only: the index tuple of a key is always () and omitted.
   No proofs here: the model must keep running when a proof breaks. *)
From stdpp Require Import gmap.
From PV Require Import Lib.Closure.

Inductive kind := KPot | KFlow | KPar.   (* no prefix / input / output ; flow ; constant / parameter *)
Global Instance kind_eq_dec : EqDecision kind.
Proof. solve_decision. Defined.

(* How flattened names are built is a parameter: Sg = name segment (identifier), N = flattened
   name.  Two instances: structured paths (N = list Sg, below) and dot-joined strings
   (Proofs/C09_names.v).  nm = name of an instance path (tree.py:576-581 instance_prefix + name,
   735-746), ext = name + CLASS_SEPARATOR + variable (tree.py:1064-1065). *)
Class Naming (Sg N : Type) := { nm : list Sg → N; ext : N → Sg → N }.
Global Instance path_naming {Sg : Type} : Naming Sg (list Sg) :=
  {| nm := fun p => p; ext := fun p x => p ++ [x] |}.   (* "a.p.i" = [a; p; i] *)

(* ---- hierarchical input: what the parser hands to flatten ---- *)
Inductive cref (Sg : Type) := CRef (comp : option Sg) (conn : Sg).   (* x  |  c.x *)
Arguments CRef {Sg} comp conn.
Record clause (Sg : Type) := Clause { c_l : cref Sg; c_r : cref Sg; c_vars : list (Sg * kind) }.
Arguments Clause {Sg} c_l c_r c_vars.
Arguments c_l {Sg} c. Arguments c_r {Sg} c. Arguments c_vars {Sg} c.
Inductive inst (Sg : Type) :=
  Inst (decl : list (Sg * list (Sg * kind)))   (* connectors declared directly in this class *)
       (subs : list (Sg * inst Sg))            (* components of model type *)
       (cl : list (clause Sg)).                (* connect clauses of this class, in order *)
Arguments Inst {Sg} decl subs cl.

Section Model.
Context {Sg N : Type} `{Countable N} `{!Naming Sg N}.
Local Notation var := N.                       (* flattened name *)
Local Notation key := (N * bool)%type.         (* (flattened flow variable name, inside?)  tree.py:1082-1101 *)
Local Notation cmapT := (gmap key (gset key)).
Local Notation row := (list (var * Z)).        (* linear equation  sum c*v = 0 *)
Local Notation cvars := (list (Sg * kind)).    (* connector class: variable names with kind, in order *)
Local Notation fclause := ((var * bool) * (var * bool) * cvars)%type.   (* flattened connect clause *)

(* tree.py:672-679: names are prefixed with the instance path; a reference with a child part
   (c.x) is an inside connector, a plain name an outside connector *)
Definition flat_ref (pre : list Sg) (r : cref Sg) : var * bool :=
  match r with
  | CRef None x => (nm (pre ++ [x]), false)
  | CRef (Some c) x => (nm (pre ++ [c; x]), true)
  end.

Definition flat_clause (pre : list Sg) (c : clause Sg) : fclause :=
  (flat_ref pre (c_l c), flat_ref pre (c_r c), c_vars c).

(* tree.py:629-641 then 667-673: equations of the sub-components first (symbol order), then own *)
Fixpoint flat_clauses (pre : list Sg) (i : inst Sg) : list fclause :=
  match i with
  | Inst _ subs cl =>
      (fix go (l : list (Sg * inst Sg)) : list fclause :=
         match l with
         | [] => []
         | (n, s) :: l' => flat_clauses (pre ++ [n]) s ++ go l'
         end) subs ++ map (flat_clause pre) cl
  end.

Definition flows_of (pre : list Sg) (d : Sg * cvars) : list var :=
  omap (fun v : Sg * kind => if decide (v.2 = KFlow) then Some (ext (nm (pre ++ [d.1])) v.1) else None) d.2.

(* tree.py:1005-1008: every symbol of the flat class with a flow prefix *)
Fixpoint flat_flows (pre : list Sg) (i : inst Sg) : list var :=
  match i with
  | Inst decl subs _ =>
      flat_map (flows_of pre) decl ++
      (fix go (l : list (Sg * inst Sg)) : list var :=
         match l with
         | [] => []
         | (n, s) :: l' => flat_flows (pre ++ [n]) s ++ go l'
         end) subs
  end.

(* ---- expand_connectors on the flat class ---- *)
Record st := St { fc : cmapT; disc : list var; eqs : list row }.

(* flow_connections.get(key, OrderedDict())  tree.py:1103-1104 *)
Definition getset (m : cmapT) (k : key) : gset key := default ∅ (m !! k).

(* tree.py:1103-1112: left.update(right); add both keys; repoint every member *)
Definition connect_flow (m : cmapT) (l r : key) : cmapT :=
  relabel (getset m l ∪ getset m r ∪ {[l]} ∪ {[r]}) m.

Definition pot_row (a b : var) : row := [(a, 1%Z); (b, (-1)%Z)].

(* tree.py:1063-1128, one connector variable of one clause *)
Definition step_var (L R : var * bool) (s : st) (v : Sg * kind) : st :=
  let ln := ext L.1 v.1 in
  let rn := ext R.1 v.1 in
  match v.2 with
  | KPot => St (fc s) (disc s) (eqs s ++ [pot_row ln rn])                     (* 1074-1079 *)
  | KFlow => St (connect_flow (fc s) (ln, L.2) (rn, R.2))                     (* 1080-1112 *)
                (filter (fun n => n ≠ ln ∧ n ≠ rn) (disc s))                  (* 1118-1119 *)
                (eqs s)
  | KPar => s                                                                 (* 1120-1122 *)
  end.

Definition step_clause (s : st) (c : fclause) : st :=
  let '(L, R, vars) := c in fold_left (step_var L R) vars s.

(* tree.py:1132-1134,1153: each distinct set object once *)
Definition sets_of (m : cmapT) : list (gset key) := remove_dups (map snd (map_to_list m)).

(* tree.py:1135-1151 *)
Definition sum_row (S : gset key) : row :=
  let ops := elements S in
  if forallb (fun k : key => negb k.2) ops
  then map (fun k : key => (k.1, 1%Z)) ops                                    (* 1136-1138 all outside *)
  else map (fun k : key => (k.1, if k.2 then 1%Z else (-1)%Z)) ops.           (* 1140-1147 *)

Definition zero_row (n : var) : row := [(n, 1%Z)].                            (* 1156-1158 *)

Definition run_clauses (flows : list var) (cs : list fclause) : st :=
  fold_left step_clause cs (St ∅ flows []).

Definition pot_eqs (cs : list fclause) : list row := eqs (run_clauses [] cs).
Definition flow_eqs (flows : list var) (cs : list fclause) : list row :=
  let s := run_clauses flows cs in
  map sum_row (sets_of (fc s)) ++ map zero_row (disc s).

Definition expand (flows : list var) (cs : list fclause) : list row :=
  let s := run_clauses flows cs in
  eqs s ++ map sum_row (sets_of (fc s)) ++ map zero_row (disc s).

Definition model_rows (i : inst Sg) : list row := expand (flat_flows [] i) (flat_clauses [] i).

(* ---- observation used by the correspondence check ----
   rows are compared as multisets of canonical linear forms (like terms collected, zero
   coefficients dropped): the order of equations and of operands is not part of the property *)
Definition canon_row (r : row) : gmap var Z :=
  filter (fun p : var * Z => p.2 ≠ 0%Z)
         (foldr (fun (t : var * Z) (m : gmap var Z) => <[t.1 := (t.2 + default 0 (m !! t.1))%Z]> m) ∅ r).

Definition cnt (x : gmap var Z) (l : list (gmap var Z)) : nat :=
  length (filter (fun y => y = x) l).

Definition same_multiset (l1 l2 : list (gmap var Z)) : bool :=
  bool_decide (length l1 = length l2) && forallb (fun x => bool_decide (cnt x l1 = cnt x l2)) l1.

Definition check_case (c : inst Sg * list row) : bool :=
  same_multiset (map canon_row (model_rows c.1)) (map canon_row c.2).

(* the classes and signs themselves, for diagnostics *)
Definition model_sets (i : inst Sg) : list (list key) :=
  map elements (sets_of (fc (run_clauses (flat_flows [] i) (flat_clauses [] i)))).
End Model.
