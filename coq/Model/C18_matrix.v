(* C18 — matrix-level model of the residual rewrite done by Model._expand_vectors (model.py l.378-438):
   CasADi matrices as (rows, cols, column-major element list), the expression operations that the
   residuals of the supported Modelica subset use, the value substituted for an array symbol
   (`reshape(vertcat(scalars), reversed shape).T`, l.384-389) and the splitting of every equation into
   scalar equations (`vertsplit(vec(eq))`, l.429-431).  Values are integers (a commutative ring; IEEE
   rounding is not modelled).  No proofs in this file. *)
From Coq Require Import String List Arith ZArith Bool.
From PV Require Import Model.C18_expand.
Import ListNotations.
Open Scope nat_scope.
Open Scope list_scope.

Record zmat := mk_zmat { zr : nat; zc : nat; zd : list Z }.      (* column-major *)

Definition zget (m : zmat) (i j : nat) : Z := nth (i + j * zr m) (zd m) 0%Z.

(* the r x c matrix with entries f i j *)
Definition build (r c : nat) (f : nat -> nat -> Z) : zmat :=
  mk_zmat r c (flat_map (fun j => map (fun i => f i j) (seq 0 r)) (seq 0 c)).

Definition zwf (m : zmat) : Prop := length (zd m) = zr m * zc m.

Fixpoint zsum (n : nat) (f : nat -> Z) : Z :=
  match n with O => 0%Z | S k => (zsum k f + f k)%Z end.

Inductive mexpr :=
  | MVar (v : string)                      (* array symbol of the unexpanded model (also der(..), delay state) *)
  | MSym (s : string)                      (* scalar symbol *)
  | MConst (m : zmat)                      (* DM constant, e.g. an array literal *)
  | MSyms (names : list string)            (* vertcat of scalar symbols: a column *)
  | MReshape (a : mexpr) (r c : nat)       (* column-major reshape: same storage *)
  | MTrans (a : mexpr)
  | MVec (a : mexpr)                       (* ca.vec: the storage as one column *)
  | MPick (a : mexpr) (k : nat)            (* vertsplit(a)[k] of a column: its k-th entry as 1x1 *)
  | MAdd (a b : mexpr) | MSub (a b : mexpr) | MEmul (a b : mexpr)      (* element-wise + - .* *)
  | MScale (s a : mexpr)                   (* scalar x array *)
  | MNeg (a : mexpr)
  | MMtimes (a b : mexpr)
  | MSlice (a : mexpr) (r0 nr c0 nc : nat).  (* a[r0:r0+nr, c0:c0+nc]; an element reference is 1 x 1 *)

Section Eval.
  Variable rm : string -> zmat.            (* values of the array symbols *)
  Variable rs : string -> Z.               (* values of the scalar symbols *)

  Definition pointwise (x y : zmat) (op : Z -> Z -> Z) : zmat :=
    build (zr x) (zc x) (fun i j => op (zget x i j) (zget y i j)).

  Fixpoint eval (e : mexpr) : zmat :=
    match e with
    | MVar v => rm v
    | MSym s => mk_zmat 1 1 [rs s]
    | MConst m => m
    | MSyms names => mk_zmat (length names) 1 (map rs names)
    | MReshape a r c => mk_zmat r c (zd (eval a))
    | MTrans a => let m := eval a in build (zc m) (zr m) (fun i j => zget m j i)
    | MVec a => let m := eval a in mk_zmat (zr m * zc m) 1 (zd m)
    | MPick a k => mk_zmat 1 1 [nth k (zd (eval a)) 0%Z]
    | MAdd a b => pointwise (eval a) (eval b) Z.add
    | MSub a b => pointwise (eval a) (eval b) Z.sub
    | MEmul a b => pointwise (eval a) (eval b) Z.mul
    | MScale s a => let m := eval a in let k := zget (eval s) 0 0 in
                    build (zr m) (zc m) (fun i j => (k * zget m i j)%Z)
    | MNeg a => let m := eval a in build (zr m) (zc m) (fun i j => (- zget m i j)%Z)
    | MMtimes a b => let x := eval a in let y := eval b in
                     build (zr x) (zc y) (fun i j => zsum (zc x) (fun k => (zget x i k * zget y k j)%Z))
    | MSlice a r0 nr c0 nc => let m := eval a in build nr nc (fun i j => zget m (r0 + i) (c0 + j))
    end.
End Eval.

Section Expand.
  Variable dims : string -> nat * nat.          (* MX shape (n1, n2) of every array symbol *)
  Variable names : string -> list string.       (* its scalars in np.ndindex (row-major) order *)

  (* ca.substitute(equations, symbols, values) with values[k] = reshape(vertcat(scalars), (n2, n1)).T *)
  Fixpoint expand (e : mexpr) : mexpr :=
    match e with
    | MVar v => MTrans (MReshape (MSyms (names v)) (snd (dims v)) (fst (dims v)))
    | MSym s => MSym s
    | MConst m => MConst m
    | MSyms l => MSyms l
    | MReshape a r c => MReshape (expand a) r c
    | MTrans a => MTrans (expand a)
    | MVec a => MVec (expand a)
    | MPick a k => MPick (expand a) k
    | MAdd a b => MAdd (expand a) (expand b)
    | MSub a b => MSub (expand a) (expand b)
    | MEmul a b => MEmul (expand a) (expand b)
    | MScale s a => MScale (expand s) (expand a)
    | MNeg a => MNeg (expand a)
    | MMtimes a b => MMtimes (expand a) (expand b)
    | MSlice a r0 nr c0 nc => MSlice (expand a) r0 nr c0 nc
    end.

  (* itertools.chain.from_iterable(ca.vertsplit(ca.vec(eq)) for eq in equations); the number of entries
     of an equation is the number of entries of its (matrix-valued) residual *)
  Definition split_equation (numel : nat) (e : mexpr) : list mexpr :=
    map (fun k => MPick (MVec (expand e)) k) (seq 0 numel).
End Expand.

(* array symbols occurring in an expression *)
Fixpoint mvars (e : mexpr) : list string :=
  match e with
  | MVar v => [v]
  | MSym _ | MConst _ | MSyms _ => []
  | MReshape a _ _ | MTrans a | MVec a | MPick a _ | MNeg a | MSlice a _ _ _ _ => mvars a
  | MAdd a b | MSub a b | MEmul a b | MScale a b | MMtimes a b => mvars a ++ mvars b
  end.

(* scalar symbols occurring in an expression *)
Fixpoint msyms (e : mexpr) : list string :=
  match e with
  | MSym s => [s]
  | MSyms l => l
  | MVar _ | MConst _ => []
  | MReshape a _ _ | MTrans a | MVec a | MPick a _ | MNeg a | MSlice a _ _ _ _ => msyms a
  | MAdd a b | MSub a b | MEmul a b | MScale a b | MMtimes a b => msyms a ++ msyms b
  end.

(* the value table of the renaming: scalar name |-> element, row-major over each array symbol *)
Definition rowmajor (m : zmat) : list Z :=
  flat_map (fun i => map (fun j => zget m i j) (seq 0 (zc m))) (seq 0 (zr m)).

Fixpoint assoc (s : string) (t : list (string * Z)) : option Z :=
  match t with
  | [] => None
  | (k, z) :: r => if String.eqb s k then Some z else assoc s r
  end.

Definition rename_table (names : string -> list string) (rm : string -> zmat) (vars : list string)
  : list (string * Z) :=
  flat_map (fun v => combine (names v) (rowmajor (rm v))) vars.

(* rho' : every expanded scalar gets the corresponding element; other scalars keep their value *)
Definition rho' (names : string -> list string) (rm : string -> zmat) (vars : list string)
           (rs : string -> Z) (s : string) : Z :=
  match assoc s (rename_table names rm vars) with Some z => z | None => rs s end.

(* ---------------------------------------------------------------------------------------- *)
(* correspondence check of the matrix model: from the values of the unexpanded symbols and the
   equations (as mexpr) reproduce (a) the real dae residual of the unexpanded model and (b) the real
   dae residual of the EXPANDED model, the latter through the modelled pipeline: names generated by
   Model.C18_expand.expand_var, substituted matrices, vertsplit(vec(.)), evaluated at rho'. *)
Definition zlist_eqb (a b : list Z) : bool :=
  (fix go (a b : list Z) : bool :=
     match a, b with
     | [], [] => true
     | x :: r, y :: s => Z.eqb x y && go r s
     | _, _ => false
     end) a b.

Fixpoint lookup_var (v : string) (t : list (string * vshape * (nat * nat) * list Z))
  : option (vshape * (nat * nat) * list Z) :=
  match t with
  | [] => None
  | (k, sh, sz, d) :: r => if String.eqb v k then Some (sh, sz, d) else lookup_var v r
  end.

Definition check_residual
  (c : list (string * vshape * (nat * nat) * list Z) * list (string * Z) * list mexpr * list Z * list Z) : bool :=
  let '(vars, scalars, eqs, obsU, obsE) := c in
  let dims v := match lookup_var v vars with Some (_, sz, _) => sz | None => (0, 0) end in
  let rm v := match lookup_var v vars with
              | Some (_, (n1, n2), d) => mk_zmat n1 n2 d | None => mk_zmat 0 0 [] end in
  let names v := match lookup_var v vars with
                 | Some (sh, sz, _) =>
                     match expand_var (mk_uvar v sh sz []) with Some ex => map fst ex | None => [] end
                 | None => [] end in
  let rs s := match assoc s scalars with Some z => z | None => 0%Z end in
  let rs' := rho' names rm (map (fun x => fst (fst (fst x))) vars) rs in
  let resU := flat_map (fun e => zd (eval rm rs e)) eqs in
  let resE := map (fun s => zget (eval (fun _ => mk_zmat 0 0 []) rs' s) 0 0)
                  (flat_map (fun e => split_equation dims names (length (zd (eval rm rs e))) e) eqs) in
  zlist_eqb resU obsU && zlist_eqb resE obsE.
