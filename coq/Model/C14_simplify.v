(* C14 / C15 — executable model of pymoca's Model.simplify
   (src/pymoca/backends/casadi/model.py:451-1276) over CasADi-shaped scalar expression trees.
   No proofs here: the model must keep running when a proof breaks.

   Modelled passes (in the order of _simplify_once): replace_parameter_expressions,
   replace_constant_expressions, eliminate_constant_assignments, replace_parameter_values,
   replace_constant_values, eliminable_variable_expression (algebraic variables only),
   detect_aliases (+ allow_derivative_aliases), expand_mx (no effect on the model),
   iterative_simplification (outer loop).  NOT modelled (excluded from the claimed option set):
   expand_vectors, resolve_parameter_values, factor_and_simplify_equations,
   reduce_affine_expression, if_else_zero shapes, elimination of differentiated states, delays.

   CasADi rebuilds every expression it substitutes into through its "simplification on the fly"
   constructors (MXNode::get_unary / _get_binary); later passes pattern-match on the rebuilt
   shape, so the model contains those constructors (mk_un / mk_bin) for the operator subset
   Neg, Sq, Twice, Add, Sub, Mul. *)
From Coq Require Import ZArith QArith Qcanon List Bool PArith.
Import ListNotations.
Open Scope Qc_scope.

Definition name := positive.
Inductive uop := Neg | Sq | Twice.                 (* OP_NEG 5, OP_SQ 11, OP_TWICE 12 *)
Inductive bop := Add | Sub | Mul.                  (* OP_ADD 1, OP_SUB 2, OP_MUL 3 *)
Inductive expr :=
| Sym (x : name)
| Const (q : Qc)
| Un (o : uop) (a : expr)
| Bin (o : bop) (a b : expr).

(* ---------- semantics over exact rationals ---------- *)
Definition env := name -> Qc.
Definition ev_un (o : uop) (v : Qc) : Qc :=
  match o with Neg => - v | Sq => v * v | Twice => v + v end.
Definition ev_bin (o : bop) (a b : Qc) : Qc :=
  match o with Add => a + b | Sub => a - b | Mul => a * b end.
Fixpoint eval (r : env) (e : expr) : Qc :=
  match e with
  | Sym x => r x
  | Const q => q
  | Un o a => ev_un o (eval r a)
  | Bin o a b => ev_bin o (eval r a) (eval r b)
  end.

(* ---------- small utilities ---------- *)
Definition qeqb (a b : Qc) : bool := if Qc_eq_dec a b then true else false.
Definition uop_eqb (a b : uop) : bool :=
  match a, b with Neg, Neg | Sq, Sq | Twice, Twice => true | _, _ => false end.
Definition bop_eqb (a b : bop) : bool :=
  match a, b with Add, Add | Sub, Sub | Mul, Mul => true | _, _ => false end.
Fixpoint expr_eqb (a b : expr) : bool :=
  match a, b with
  | Sym x, Sym y => Pos.eqb x y
  | Const p, Const q => qeqb p q
  | Un o x, Un o' y => uop_eqb o o' && expr_eqb x y
  | Bin o x1 x2, Bin o' y1 y2 => bop_eqb o o' && expr_eqb x1 y1 && expr_eqb x2 y2
  | _, _ => false
  end.
Fixpoint list_eqb {A B} (f : A -> B -> bool) (l1 : list A) (l2 : list B) : bool :=
  match l1, l2 with
  | [], [] => true
  | a :: l1', b :: l2' => f a b && list_eqb f l1' l2'
  | _, _ => false
  end.
Definition mem (x : name) (l : list name) : bool := existsb (Pos.eqb x) l.
Definition remove1 (x : name) (l : list name) : list name := filter (fun y => negb (Pos.eqb x y)) l.
Fixpoint lookup {B} (x : name) (l : list (name * B)) : option B :=
  match l with
  | [] => None
  | (y, v) :: l' => if Pos.eqb x y then Some v else lookup x l'
  end.
Definition is_const (e : expr) : bool := match e with Const _ => true | _ => false end.
Definition is_zero (e : expr) : bool := match e with Const q => qeqb q 0 | _ => false end.
Definition is_val (e : expr) (v : Qc) : bool := match e with Const q => qeqb q v | _ => false end.

(* free symbols in order of first occurrence, left to right (ca.symvar) *)
Fixpoint fv_acc (e : expr) (acc : list name) : list name :=
  match e with
  | Sym x => if mem x acc then acc else acc ++ [x]
  | Const _ => acc
  | Un _ a => fv_acc a acc
  | Bin _ a b => fv_acc b (fv_acc a acc)
  end.
Definition symvar (e : expr) : list name := fv_acc e [].

(* ---------- CasADi simplification on the fly ---------- *)
(* node identity: the tree loses pointer identity; symbols are identified by name, distinct
   constant nodes are distinct objects *)
Definition same_node (a b : expr) : bool :=
  match a, b with Sym x, Sym y => Pos.eqb x y | _, _ => false end.
Definition comm (o : bop) : bool := match o with Add | Mul => true | Sub => false end.
(* MXNode::is_equal(x, y, depth = 1) *)
Definition is_equal1 (a b : expr) : bool :=
  same_node a b ||
  match a, b with
  | Const p, Const q => qeqb p q
  | Un o x, Un o' y => uop_eqb o o' && same_node x y
  | Bin o x1 x2, Bin o' y1 y2 =>
      bop_eqb o o' && ((same_node x1 y1 && same_node x2 y2)
                       || (comm o && same_node x2 y1 && same_node x1 y2))
  | _, _ => false
  end.

(* ConstantMX::get_unary (folding), UnaryMX::get_unary, MXNode::get_unary *)
Definition mk_un (o : uop) (x : expr) : expr :=
  match x with
  | Const q => Const (ev_un o q)
  | Un Neg d => match o with Neg => d | Sq => Un Sq d | Twice => Un Twice x end
  | _ => Un o x
  end.

(* MXNode::_get_binary and its overrides in ConstantMX / UnaryMX / BinaryMX.  The C++ rules call
   each other on structurally smaller arguments (a Neg is stripped or the constant moves to the
   left); `fuel` bounds that. *)
Definition bin_generic (rec : bop -> expr -> expr -> expr) (o : bop) (x y : expr) : expr :=
  (* MXNode::_get_binary *)
  if (match o with Mul => is_zero x || is_zero y | _ => false end) then Const 0
  else if is_equal1 y x then
    match o with Add => mk_un Twice x | Sub => Const 0 | Mul => mk_un Sq x end
  else match y with
  | Const q =>
      if negb (is_const x) && comm o then rec o y x
      else match o with
           | Add | Sub => if qeqb q 0 then x else Bin o x y
           | Mul => if qeqb q 1 then x else Bin o x y
           end
  | Un Neg d =>
      match o with
      | Add => rec Sub x d
      | Sub => rec Add x d
      | Mul => mk_un Neg (rec Mul x d)
      end
  | Bin Add d0 d1 =>
      (* x - (x + b) = -b, x - (b + x) = -b *)
      match o with
      | Sub => if is_equal1 x d0 then mk_un Neg d1
               else if is_equal1 x d1 then mk_un Neg d0 else Bin o x y
      | _ => Bin o x y
      end
  | Bin Sub d0 d1 =>
      (* x + (b - x) = b *)
      match o with
      | Add => if is_equal1 x d1 then d0 else Bin o x y
      | _ => Bin o x y
      end
  | _ => Bin o x y
  end.

Definition bin_const (rec : bop -> expr -> expr -> expr) (o : bop) (v : Qc) (y : expr) : expr :=
  (* ConstantMX::_get_binary *)
  match o with
  | Add => if qeqb v 0 then y else
           match y with Const w => Const (v + w) | _ => bin_generic rec o (Const v) y end
  | Sub => if qeqb v 0 then mk_un Neg y else
           match y with Const w => Const (v - w) | _ => bin_generic rec o (Const v) y end
  | Mul => if qeqb v 1 then y
           else if qeqb v (- (1)) then mk_un Neg y
           else if qeqb v (Q2Qc 2) then mk_un Twice y
           else match y with Const w => Const (v * w) | _ => bin_generic rec o (Const v) y end
  end.

Definition bin_top (rec : bop -> expr -> expr -> expr) (o : bop) (x y : expr) : expr :=
  match x with
  | Const v => bin_const rec o v y
  | Un Neg d =>
      (* UnaryMX::_get_binary, OP_NEG *)
      match o with
      | Add => rec Sub y d
      | Sub => mk_un Neg (rec Add d y)
      | Mul => mk_un Neg (rec Mul d y)
      end
  | Un Twice d =>
      match o with
      | Sub => if is_equal1 y d then d else bin_generic rec o x y
      | _ => bin_generic rec o x y
      end
  | Bin Add d0 d1 =>
      (* BinaryMX::_get_binary *)
      match o with
      | Sub => if is_equal1 y d0 then d1 else if is_equal1 y d1 then d0 else bin_generic rec o x y
      | _ => bin_generic rec o x y
      end
  | Bin Sub d0 d1 =>
      match o with
      | Sub => if is_equal1 y d0 then mk_un Neg d1 else bin_generic rec o x y
      | Add => if is_equal1 y d1 then d0 else bin_generic rec o x y
      | Mul => bin_generic rec o x y
      end
  | _ => bin_generic rec o x y
  end.

Fixpoint mk_bin_f (fuel : nat) (o : bop) (x y : expr) : expr :=
  match fuel with
  | O => Bin o x y
  | S f => bin_top (mk_bin_f f) o x y
  end.
Definition mk_bin := mk_bin_f 8.

(* ca.substitute: simultaneous, the whole graph is re-evaluated through the constructors *)
Definition sub := list (name * expr).
Fixpoint subst (s : sub) (e : expr) : expr :=
  match e with
  | Sym x => match lookup x s with Some v => v | None => Sym x end
  | Const q => Const q
  | Un o a => mk_un o (subst s a)
  | Bin o a b => mk_bin o (subst s a) (subst s b)
  end.

(* ---------- the model state ---------- *)
Definition pval := option expr.                  (* None = NaN (no value) *)
Definition acls := (name * list (name * bool))%type.   (* canonical, members (name, negated) *)

Record model := Model {
  states : list name; ders : list name; algs : list name; inputs : list name;
  consts : list (name * pval); params : list (name * pval);
  eqs : list expr; ieqs : list expr;
  arel : list acls;                 (* AliasRelation, as signed classes *)
  ghost : list (name * expr);       (* facts `x = e` the code drops with the variable: removed
                                       parameters / constants, eliminated variables (not stored by pymoca) *)
  warned : bool;                    (* "Substitution of expressions exceeded maximum iteration limit." *)
  failed : bool                     (* an exception escaped simplify() *)
}.

Record options := Options {
  o_rpe : bool; o_rce : bool; o_eca : bool; o_rpv : bool; o_rcv : bool;
  o_elim : option (list name);      (* names matched by eliminable_variable_expression *)
  o_expand_mx : bool; o_da : bool; o_allow_der : bool; o_iter : bool;
  o_dermap : list (name * name)     (* (x, the symbol named "der(x)"): names are opaque to the model *)
}.

Definition SUBSTITUTE_LOOP_LIMIT := 100%nat.
Definition SIMPLIFICATION_LOOP_LIMIT := 50%nat.

Definition set_eqs (m : model) (e i : list expr) : model :=
  Model (states m) (ders m) (algs m) (inputs m) (consts m) (params m) e i (arel m) (ghost m)
        (warned m) (failed m).
Definition set_warned (m : model) (w : bool) : model :=
  Model (states m) (ders m) (algs m) (inputs m) (consts m) (params m) (eqs m) (ieqs m) (arel m)
        (ghost m) (warned m || w) (failed m).
Definition set_failed (m : model) : model :=
  Model (states m) (ders m) (algs m) (inputs m) (consts m) (params m) (eqs m) (ieqs m) (arel m)
        (ghost m) (warned m) true.

(* _substitute_metadata restricted to the `value` attribute of parameters and constants *)
Definition subst_val (s : sub) (v : pval) : pval :=
  match v with
  | Some e => if is_const e then v else Some (subst s e)
  | None => None
  end.
Definition subst_vals (s : sub) (l : list (name * pval)) : list (name * pval) :=
  map (fun '(x, v) => (x, subst_val s v)) l.

(* value-into-value fixpoint, model.py:553-562 / 593-602 / 894-903 *)
Fixpoint subst_fix (fuel : nat) (vars : list name) (vals : list expr) : list expr * bool :=
  match fuel with
  | O => (vals, false)
  | S f => let nv := map (subst (combine vars vals)) vals in
           if list_eqb expr_eqb vals nv then (nv, true) else subst_fix f vars nv
  end.

(* ---- replace_parameter_expressions / replace_constant_expressions, model.py:526-614 ---- *)
Fixpoint split_simple (l : list (name * pval)) : list (name * pval) * list (name * expr) :=
  match l with
  | [] => ([], [])
  | (x, v) :: l' =>
      let '(s, d) := split_simple l' in
      match v with
      | Some e => if is_const e then ((x, v) :: s, d) else (s, (x, e) :: d)
      | None => ((x, v) :: s, d)
      end
  end.

Definition replace_exprs (on_params : bool) (m : model) : model :=
  let '(simple, defs) := split_simple (if on_params then params m else consts m) in
  match defs with
  | [] => if on_params
          then Model (states m) (ders m) (algs m) (inputs m) (consts m) simple (eqs m) (ieqs m)
                     (arel m) (ghost m) (warned m) (failed m)
          else Model (states m) (ders m) (algs m) (inputs m) simple (params m) (eqs m) (ieqs m)
                     (arel m) (ghost m) (warned m) (failed m)
  | _ =>
    let vars := map fst defs in
    let '(vals, conv) := subst_fix SUBSTITUTE_LOOP_LIMIT vars (map snd defs) in
    let s := combine vars vals in
    let cs := if on_params then consts m else simple in
    let ps := if on_params then simple else params m in
    Model (states m) (ders m) (algs m) (inputs m) (subst_vals s cs) (subst_vals s ps)
          (map (subst s) (eqs m)) (map (subst s) (ieqs m)) (arel m) (ghost m ++ s)
          (warned m || negb conv) (failed m)
  end.

(* ---- eliminate_constant_assignments, model.py:616-669 ---- *)
Definition eca_match (al : list name) (e : expr) : option (name * expr) :=
  match e with
  | Sym x => if mem x al then Some (x, Const 0) else None
  | Bin o d0 d1 =>
      match o with
      | Mul => None
      | _ =>
        match d0, d1 with
        | Sym x, Const q =>
            if mem x al then Some (x, match o with Sub => Const q | _ => Const (- q) end) else None
        | Const q, Sym x =>
            if mem x al then Some (x, match o with Sub => Const q | _ => Const (- q) end) else None
        | _, _ => None
        end
      end
  | _ => None
  end.

Fixpoint eca_loop (al : list name) (es : list expr)
  : list name * list (name * pval) * list expr :=
  match es with
  | [] => (al, [], [])
  | e :: es' =>
      match eca_match al e with
      | Some (x, v) =>
          let '(al', cs, kept) := eca_loop (remove1 x al) es' in (al', (x, Some v) :: cs, kept)
      | None =>
          let '(al', cs, kept) := eca_loop al es' in (al', cs, e :: kept)
      end
  end.

Definition elim_const_assignments (m : model) : model :=
  let '(al, cs, kept) := eca_loop (algs m) (eqs m) in
  Model (states m) (ders m) al (inputs m) (consts m ++ cs) (params m) kept (ieqs m) (arel m)
        (ghost m) (warned m) (failed m).

(* ---- replace_parameter_values, model.py:671-690 ---- *)
Fixpoint split_valued (l : list (name * pval)) : list (name * pval) * list (name * expr) :=
  match l with
  | [] => ([], [])
  | (x, v) :: l' =>
      let '(u, d) := split_valued l' in
      match v with
      | Some (Const q) => (u, (x, Const q) :: d)
      | _ => ((x, v) :: u, d)
      end
  end.

Definition replace_param_values (m : model) : model :=
  let '(unspec, s) := split_valued (params m) in
  Model (states m) (ders m) (algs m) (inputs m) (subst_vals s (consts m)) (subst_vals s unspec)
        (map (subst s) (eqs m)) (map (subst s) (ieqs m)) (arel m) (ghost m ++ s)
        (warned m) (failed m).

(* ---- replace_constant_values, model.py:692-718 ---- *)
(* AliasRelation.remove for a canonical name *)
Definition arel_remove (c : name) (r : list acls) : list acls :=
  filter (fun cl => negb (Pos.eqb (fst cl) c)) r.
Definition cls_of (c : name) (r : list acls) : list (name * bool) :=
  match lookup c r with Some ms => ms | None => [] end.
Definition sgn (neg : bool) (e : expr) : expr := if neg then mk_un Neg e else e.

(* values that are expressions in other constants are first resolved among themselves
   (fixes/C15_constant_values_resolve_expressions.diff) *)
Definition resolve_defs (d : list (name * expr)) : list (name * expr) * bool :=
  if existsb (fun '(_, e) => negb (is_const e)) d then
    let '(vals, conv) := subst_fix SUBSTITUTE_LOOP_LIMIT (map fst d) (map snd d) in
    (combine (map fst d) vals, conv)
  else (d, true).

Definition replace_const_values (m : model) : model :=
  let '(s, conv) :=
    resolve_defs (flat_map (fun '(x, v) => match v with Some e => [(x, e)] | None => [] end) (consts m)) in
  (* a constant without a value is substituted by NaN: outside the model *)
  if existsb (fun '(_, v) => match v with None => true | _ => false end) (consts m) then set_failed m
  else
  let cn := map fst (consts m) in
  let r' := filter (fun cl => negb (mem (fst cl) cn)) (arel m) in
  let dropped := flat_map (fun cl => match lookup (fst cl) s with
                                     | Some e => map (fun '(a, neg) => (a, sgn neg e)) (snd cl)
                                     | None => [] end)
                          (filter (fun cl => mem (fst cl) cn) (arel m)) in
  Model (states m) (ders m) (algs m) (inputs m) [] (subst_vals s (params m))
        (map (subst s) (eqs m)) (map (subst s) (ieqs m)) r' (ghost m ++ s ++ dropped)
        (warned m || negb conv) (failed m).

(* ---- eliminable_variable_expression, model.py:720-914 (algebraic variables only) ---- *)
Inductive ext := ExtNone | ExtAlg (x : name) (v : expr) | ExtState.
Definition extract_assignment (sts al0 al match_ : list name) (e : expr) : ext :=
  match e with
  | Sym x =>
      (* all_states is a snapshot (al0), alg_states shrinks (al) *)
      if (mem x sts || mem x al0) && mem x match_ then
        (if mem x sts then ExtState else ExtAlg x (Const 0))
      else ExtNone
  | Bin o d0 d1 =>
      match o with
      | Mul => ExtNone
      | _ =>
        let is o' := match o' with Sub => true | _ => false end in
        let hit (d : expr) (l : list name) :=
          match d with Sym x => if mem x l && mem x match_ then Some x else None | _ => None end in
        match hit d0 al with
        | Some x => ExtAlg x (if is o then d1 else mk_un Neg d1)
        | None =>
          match hit d1 al with
          | Some x => ExtAlg x (if is o then d0 else mk_un Neg d0)
          | None =>
            match hit d0 sts with
            | Some _ => ExtState
            | None => match hit d1 sts with Some _ => ExtState | None => ExtNone end
            end
          end
        end
      end
  | _ => ExtNone
  end.

(* returns remaining alg_states, (variable, value) in order, kept equations, unsupported flag *)
Fixpoint elim_loop (sts al0 al match_ : list name) (es : list expr)
  : list name * list (name * expr) * list expr * bool :=
  match es with
  | [] => (al, [], [], false)
  | e :: es' =>
      match extract_assignment sts al0 al match_ e with
      | ExtAlg x v =>
          let '(al', d, kept, u) := elim_loop sts al0 (remove1 x al) match_ es' in
          (al', (x, v) :: d, kept, u)
      | ExtNone =>
          let '(al', d, kept, u) := elim_loop sts al0 al match_ es' in (al', d, e :: kept, u)
      | ExtState => (al, [], es, true)
      end
  end.

Fixpoint has_dup (l : list name) : bool :=
  match l with [] => false | x :: l' => mem x l' || has_dup l' end.

(* ---- eliminable differentiated STATES: get_derivative, model.py:848-880 ---- *)
Definition est : Type := (list name * list (name * name) * list name)%type.  (* states, state -> der symbol, alg_states *)
Definition GD_FUEL := 40%nat.

(* the side effects of get_derivative(expr): every algebraic symbol the derivative needs becomes a
   differentiated state (appended to states / der_states) with the fresh symbol "der(x)"; a variable
   that has been eliminated already is looked through (ab3b403) *)
Fixpoint promote (fuel : nat) (dermap : list (name * name)) (defs : list (name * expr))
         (st : option est) (xs : list name) : option est :=
  match fuel with
  | O => st
  | S f =>
    fold_left (fun st x =>
      match st with
      | None => None
      | Some (sts, dmap, al) =>
          if mem x sts then st
          else if mem x al then
            match lookup x dermap with
            | Some dx => Some (sts ++ [x], dmap ++ [(x, dx)], remove1 x al)
            | None => None
            end
          else match lookup x defs with
               | Some v => promote f dermap defs st (symvar v)
               | None => st
               end
      end) xs st
  end.

(* the value of get_derivative(expr) by the chain rule (the real result is an opaque Jacobian call
   times the vector of derivatives: only its value is compared) *)
Fixpoint dexpr (fuel : nat) (dmap : list (name * name)) (defs : list (name * expr)) (e : expr) : expr :=
  match fuel with
  | O => Const 0
  | S f =>
    (fix go (e : expr) : expr :=
       match e with
       | Sym x => match lookup x dmap with
                  | Some dx => Sym dx
                  | None => match lookup x defs with Some v => dexpr f dmap defs v | None => Const 0 end
                  end
       | Const _ => Const 0
       | Un Neg a => mk_un Neg (go a)
       | Un Twice a => mk_un Twice (go a)
       | Un Sq a => mk_bin Mul (mk_un Twice a) (go a)
       | Bin Add a b => mk_bin Add (go a) (go b)
       | Bin Sub a b => mk_bin Sub (go a) (go b)
       | Bin Mul a b => mk_bin Add (mk_bin Mul (go a) b) (mk_bin Mul a (go b))
       end) e
  end.

Inductive ext2 := E2None | E2Alg (x : name) (v : expr) | E2State (x : name) (v : expr).
(* extract_assignment with the live dictionaries: `sts`, `al` change while the loop runs, `all0` is
   the snapshot all_states *)
Definition extract2 (sts all0 al match_ : list name) (e : expr) : ext2 :=
  match e with
  | Sym x =>
      if mem x all0 && mem x match_ then
        (if mem x sts then E2State x (Const 0) else E2Alg x (Const 0))
      else E2None
  | Bin o d0 d1 =>
      match o with
      | Mul => E2None
      | _ =>
        let is o' := match o' with Sub => true | _ => false end in
        let hit (d : expr) (l : list name) :=
          match d with Sym x => if mem x l && mem x match_ then Some x else None | _ => None end in
        match hit d0 al with
        | Some x => E2Alg x (if is o then d1 else mk_un Neg d1)
        | None =>
          match hit d1 al with
          | Some x => E2Alg x (if is o then d0 else mk_un Neg d0)
          | None =>
            match hit d0 sts with
            | Some x => E2State x (if is o then d1 else mk_un Neg d1)
            | None => match hit d1 sts with
                      | Some x => E2State x (if is o then d0 else mk_un Neg d0)
                      | None => E2None end
            end
          end
        end
      end
  | _ => E2None
  end.

(* the equation loop with states: returns the final dictionaries, all (variable, value) pairs in the
   order of `variables`/`values`, the derivative pairs among them, the kept equations *)
Fixpoint elim_loop2 (dermap : list (name * name)) (all0 match_ : list name) (st : est)
         (defs : list (name * expr)) (es : list expr)
  : option (est * list (name * expr) * list (name * expr) * list expr) :=
  match es with
  | [] => Some (st, defs, [], [])
  | e :: es' =>
      let '(sts, dmap, al) := st in
      match extract2 sts all0 al match_ e with
      | E2None =>
          match elim_loop2 dermap all0 match_ st defs es' with
          | Some (st', d, dd, kept) => Some (st', d, dd, e :: kept)
          | None => None
          end
      | E2Alg x v => elim_loop2 dermap all0 match_ (sts, dmap, remove1 x al) (defs ++ [(x, v)]) es'
      | E2State x v =>
          match promote GD_FUEL dermap defs (Some st) (symvar v) with
          | None => None
          | Some (sts1, dmap1, al1) =>
              match lookup x dmap1 with
              | None => None
              | Some dx =>
                  let dv := dexpr GD_FUEL dmap1 defs v in
                  match elim_loop2 dermap all0 match_
                          (remove1 x sts1, filter (fun p => negb (Pos.eqb (fst p) x)) dmap1, al1)
                          (defs ++ [(dx, dv); (x, v)]) es' with
                  | Some (st', d, dd, kept) => Some (st', d, (dx, dv) :: dd, kept)
                  | None => None
                  end
              end
          end
      end
  end.

Definition eliminate_vars2 (dermap : list (name * name)) (match_ : list name) (m : model) : model :=
  match elim_loop2 dermap (states m ++ algs m) match_
                   (states m, combine (states m) (ders m), algs m) [] (eqs m) with
  | None => set_failed m
  | Some ((sts, dmap, al), defs, ddefs, kept) =>
      if has_dup (map fst defs) then set_failed m else
      let vars := map fst defs in
      let '(vals, conv) := subst_fix SUBSTITUTE_LOOP_LIMIT vars (map snd defs) in
      let s := combine vars vals in
      Model sts (map snd dmap) al (inputs m) (consts m) (params m)
            (map (subst s) kept) (map (subst s) (ieqs m)) (arel m) (ghost m ++ s)
            (warned m || negb conv) (failed m)
  end.

(* no eliminable variable is a differentiated state: the algebraic-only pass below applies *)
Definition no_elim_state (match_ : list name) (m : model) : bool :=
  let '(_, _, _, u) := elim_loop (states m) (algs m) (algs m) match_ (eqs m) in negb u.

Definition eliminate_vars (match_ : list name) (m : model) : model :=
  let '(al, defs, kept, unsupported) := elim_loop (states m) (algs m) (algs m) match_ (eqs m) in
  (* the same variable extracted twice (a bare-symbol equation is looked up in the un-shrunk
     all_states): ca.substitute raises "The input expressions are not independent" *)
  if unsupported || has_dup (map fst defs) then set_failed m else
  match defs with
  | [] => Model (states m) (ders m) al (inputs m) (consts m) (params m) kept (ieqs m) (arel m)
                (ghost m) (warned m) (failed m)
  | _ =>
    let vars := map fst defs in
    let '(vals, conv) := subst_fix SUBSTITUTE_LOOP_LIMIT vars (map snd defs) in
    let s := combine vars vals in
    Model (states m) (ders m) al (inputs m) (consts m) (params m)
          (map (subst s) kept) (map (subst s) (ieqs m)) (arel m) (ghost m ++ s)
          (warned m || negb conv) (failed m)
  end.

(* ---- detect_aliases, model.py:957-1207 ---- *)
(* AliasRelation.canonical_signed for an unsigned name: (canonical, negated) *)
Fixpoint canon (r : list acls) (x : name) : name * bool :=
  match r with
  | [] => (x, false)
  | (c, ms) :: r' =>
      if Pos.eqb c x then (c, false)
      else match lookup x ms with Some n => (c, n) | None => canon r' x end
  end.

(* AliasRelation.add(a, [-]b): a positive, b carries the sign `nb`.  The relation is a list of
   entries (canonical, members); several entries may share a canonical (their union is the class).
   None: a and b are already aliases with the OPPOSITE sign (both are zero). *)
Definition members_of (c : name) (r : list acls) : list (name * bool) :=
  flat_map snd (filter (fun cl => Pos.eqb (fst cl) c) r).
Definition arel_add (r : list acls) (a b : name) (nb : bool) : option (list acls) :=
  let '(ca, na) := canon r a in
  let '(cb, nb0) := canon r b in
  if Pos.eqb ca cb then
    (if Bool.eqb na (xorb nb nb0) then Some r (* already aliases, nothing more to do *) else None)
  else
    (* cb = flip * ca *)
    let flip := xorb na (xorb nb nb0) in
    let moved := (cb, flip) :: map (fun '(v, n) => (v, xorb n flip)) (members_of cb r) in
    Some (arel_remove cb r ++ [(ca, moved)]).

(* _detect_alias: the two symbols and whether the alias is negative *)
Definition detect_alias (pc : list name) (e : expr) : option (name * name * bool) :=
  let deps := symvar e in
  let fast :=
    match deps, e with
    | [_; _], Bin o (Sym x) (Sym y) =>
        match o with
        | Mul => None
        | Add => Some (x, y, true)
        | Sub => Some (x, y, false)
        end
    | _, _ => None
    end in
  match fast with
  | Some (x, y, n) =>
      (* deps is symvar order = (x, y) *)
      Some (x, y, n)
  | None =>
      let try (d : list name) :=
        match d with
        | [d0; d1] =>
            if is_zero (subst [(d0, Sym d1)] e) then Some (d0, d1, false)
            else if is_zero (subst [(d0, mk_un Neg (Sym d1))] e) then Some (d0, d1, true)
            else None
        | _ => None
        end in
      match try deps with
      | Some r => Some r
      | None => try (filter (fun x => negb (mem x pc)) deps)
      end
  end.

(* _make_alias: Some r' when the alias was made (equation dropped) *)
Definition make_alias (allow_der : bool) (al dl dne : list name) (r : list acls)
           (d0 d1 : name) (neg : bool) : option (list acls) :=
  let pick :=
    if mem d0 al then Some (d0, d1) else if mem d1 al then Some (d1, d0) else None in
  match pick with
  | None => None
  | Some (a0, o0) =>
      let '(a, o) :=
        if mem d0 al && mem d1 al && mem (fst (canon r a0)) dne then (o0, a0) else (a0, o0) in
      if negb allow_der && (mem a dl || mem o dl) then None
      else if mem (fst (canon r a)) dne && mem (fst (canon r o)) dne then None
      else arel_add r o a neg
           (* None = contradictory pair: the equation is kept
              (fixes/C14_contradictory_alias_keeps_equation.diff) *)
  end.

Fixpoint da_loop (allow_der : bool) (al dl dne pc : list name) (r : list acls) (es : list expr)
  : list acls * list expr :=
  match es with
  | [] => (r, [])
  | e :: es' =>
      match detect_alias pc e with
      | Some (d0, d1, neg) =>
          match make_alias allow_der al dl dne r d0 d1 neg with
          | Some r' => da_loop allow_der al dl dne pc r' es'
          | None => let '(r', kept) := da_loop allow_der al dl dne pc r es' in (r', e :: kept)
          end
      | None => let '(r', kept) := da_loop allow_der al dl dne pc r es' in (r', e :: kept)
      end
  end.

(* alias already handled by a previous pass: a non-canonical member of an old class *)
Definition old_member (old : list acls) (x : name) : bool :=
  existsb (fun cl => match lookup x (snd cl) with Some _ => true | None => false end) old.

Definition detect_aliases (allow_der : bool) (m : model) : model :=
  let pn := map fst (params m) in
  let cn := map fst (consts m) in
  let all := states m ++ ders m ++ algs m ++ inputs m ++ pn ++ cn in
  let dne := ders m ++ states m ++ inputs m ++ pn ++ cn in
  let '(r, kept) := da_loop allow_der (algs m) (ders m) dne (pn ++ cn) (arel m) (eqs m) in
  (* all_states[canonical] / all_states[alias] raise KeyError for an undeclared symbol (time) *)
  let fresh (cl : acls) := filter (fun '(a, _) => negb (old_member (arel m) a)) (snd cl) in
  let bad := existsb (fun cl => negb (mem (fst cl) all)
                                || existsb (fun '(a, _) => negb (mem a all)) (fresh cl)) r in
  if bad then set_failed m else
  let s := flat_map (fun cl => map (fun '(a, n) => (a, sgn n (Sym (fst cl)))) (fresh cl)) r in
  let gone := map fst s in
  let keep (l : list name) := filter (fun x => negb (mem x gone)) l in
  Model (keep (states m)) (keep (ders m)) (keep (algs m)) (keep (inputs m)) (consts m)
        (filter (fun '(x, _) => negb (mem x gone)) (params m))
        (map (subst s) kept) (map (subst s) (ieqs m)) r (ghost m)
        (warned m) (failed m).

(* ---- _simplify_once, model.py:474-1278 ---- *)
Definition step (b : bool) (f : model -> model) (m : model) : model :=
  if b && negb (failed m) then f m else m.

Definition simplify_once (o : options) (m : model) : model :=
  let m := step (o_rpe o) (replace_exprs true) m in
  let m := step (o_rce o) (replace_exprs false) m in
  let m := step (o_eca o) elim_const_assignments m in
  let m := step (o_rpv o) replace_param_values m in
  let m := step (o_rcv o) replace_const_values m in
  let m := match o_elim o with
           | Some ns => step true (fun m => if o_expand_mx o
                                            then (if no_elim_state ns m then eliminate_vars ns m
                                                  else eliminate_vars2 (o_dermap o) ns m)
                                            else set_failed m) m
           | None => m end in
  let m := step (o_da o) (detect_aliases (o_allow_der o)) m in
  m.

(* simplify, model.py:451-472 *)
Fixpoint simplify_loop (fuel : nat) (o : options) (left : nat) (m : model) : model :=
  match fuel with
  | O => m      (* "Simplification exceeded maximum iteration limit." (a warning) *)
  | S f =>
      let m' := simplify_once o m in
      if failed m' then m'
      else if o_iter o && negb (Nat.eqb left (length (algs m')))
      then simplify_loop f o (length (algs m')) m'
      else m'
  end.
Definition simplify (o : options) (m : model) : model :=
  simplify_loop SIMPLIFICATION_LOOP_LIMIT o 0%nat m.

(* ---------- correspondence check ---------- *)
Record obs := Obs {
  ob_exc : bool; ob_warn : bool;
  ob_states : list name; ob_ders : list name; ob_algs : list name; ob_inputs : list name;
  ob_params : list name; ob_consts : list (name * option Qc);
  ob_classes : list acls;
  ob_points : list (list (name * Qc));
  ob_eqvals : list (list Qc);       (* per point: values of the remaining equations, in order *)
  ob_ieqvals : list (list Qc)
}.

Definition env_of (l : list (name * Qc)) : env :=
  fun x => match lookup x l with Some q => q | None => 0 end.
Definition names_eqb := list_eqb Pos.eqb.
Definition incl_b {A} (f : A -> A -> bool) (l1 l2 : list A) : bool :=
  forallb (fun a => existsb (f a) l2) l1.
Definition mem_eqb (a b : name * bool) : bool := Pos.eqb (fst a) (fst b) && Bool.eqb (snd a) (snd b).
Definition cls_eqb (a b : acls) : bool :=
  Pos.eqb (fst a) (fst b) && incl_b mem_eqb (snd a) (snd b) && incl_b mem_eqb (snd b) (snd a)
  && Nat.eqb (length (snd a)) (length (snd b)).
Fixpoint nodup_names (l : list name) : list name :=
  match l with [] => [] | x :: l' => if mem x l' then nodup_names l' else x :: nodup_names l' end.
Definition nonempty_classes (r : list acls) : list acls :=
  filter (fun cl => match snd cl with [] => false | _ => true end)
         (map (fun c => (c, members_of c r)) (nodup_names (map fst r))).
Definition const_eqb (a : name * pval) (b : name * option Qc) : bool :=
  Pos.eqb (fst a) (fst b) &&
  match snd a, snd b with
  | Some (Const p), Some q => qeqb p q
  | Some e, None => negb (is_const e)     (* expression-valued: not compared *)
  | _, _ => false
  end.

Definition check_case (c : model * options * obs) : bool :=
  let '(m0, o, ob) := c in
  let m := simplify o m0 in
  if ob_exc ob then failed m
  else
    negb (failed m) &&
    Bool.eqb (warned m) (ob_warn ob) &&
    names_eqb (states m) (ob_states ob) && names_eqb (ders m) (ob_ders ob) &&
    names_eqb (algs m) (ob_algs ob) && names_eqb (inputs m) (ob_inputs ob) &&
    names_eqb (map fst (params m)) (ob_params ob) &&
    list_eqb const_eqb (consts m) (ob_consts ob) &&
    incl_b cls_eqb (nonempty_classes (arel m)) (ob_classes ob) &&
    incl_b cls_eqb (ob_classes ob) (nonempty_classes (arel m)) &&
    list_eqb (list_eqb qeqb)
             (map (fun p => map (eval (env_of p)) (eqs m)) (ob_points ob)) (ob_eqvals ob) &&
    list_eqb (list_eqb qeqb)
             (map (fun p => map (eval (env_of p)) (ieqs m)) (ob_points ob)) (ob_ieqvals ob).

(* which component disagrees (diagnostics for the harness; 0 = all agree) *)
Definition diag_case (c : model * options * obs) : nat :=
  let '(m0, o, ob) := c in
  let m := simplify o m0 in
  if ob_exc ob then (if failed m then 0 else 1)%nat
  else if failed m then 2%nat
  else if negb (Bool.eqb (warned m) (ob_warn ob)) then 3%nat
  else if negb (names_eqb (states m) (ob_states ob) && names_eqb (ders m) (ob_ders ob)) then 4%nat
  else if negb (names_eqb (algs m) (ob_algs ob)) then 5%nat
  else if negb (names_eqb (inputs m) (ob_inputs ob) && names_eqb (map fst (params m)) (ob_params ob)) then 6%nat
  else if negb (list_eqb const_eqb (consts m) (ob_consts ob)) then 7%nat
  else if negb (incl_b cls_eqb (nonempty_classes (arel m)) (ob_classes ob)
                && incl_b cls_eqb (ob_classes ob) (nonempty_classes (arel m))) then 8%nat
  else if negb (list_eqb (list_eqb qeqb)
             (map (fun p => map (eval (env_of p)) (eqs m)) (ob_points ob)) (ob_eqvals ob)) then 9%nat
  else if negb (list_eqb (list_eqb qeqb)
             (map (fun p => map (eval (env_of p)) (ieqs m)) (ob_points ob)) (ob_ieqvals ob)) then 10%nat
  else 0%nat.
