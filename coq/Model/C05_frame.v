(* C05 — model of one flatten/generate request on a parsed tree (src/pymoca/tree.py:1233-1262):
   the lookup of the requested class with or without copy-on-lookup, and the footprint of
   the instance-tree construction.  No proofs in this file.
   World/addresses: Lib/ObjGraph.v; copy-on-lookup = C06's deepcopy with the flags of the code
   as it is (Model/C06_deepcopy.v; tied to ast.py by the C06 check and again by this one). *)
From Coq Require Import List Arith Bool.
From PV Require Import Lib.ObjGraph Model.C06_deepcopy.
Import ListNotations.

(* tree.py:1242  orig_class = root.find_class(class_name, copy=<cp>)   (ast.py:695-723):
   the class at path p of the parsed tree (tree 0), or a detached deep copy of it whose root
   keeps parent = the original parent (C06_iso) *)
Definition lookup (cp : bool) (w : world) (p : path) : option (world * addr) :=
  match get w (0, p) with
  | None => None                                   (* ClassNotFoundError: nothing is written *)
  | Some _ =>
      if cp then match deepcopy fixed_flags w (0, p) with
                 | Some w' => Some (w', (length w, []))
                 | None => None
                 end
      else Some (w, (0, p))
  end.

(* tree.py:262-653 build_instance_tree / flatten_symbols, over-approximated: arbitrary writes to
   objects owned by the looked-up class `a` (its symbols, its nested classes and theirs), and
   allocation of new objects (every find_class inside uses copy=True).  Nothing else. *)
Definition footprint (w1 : world) (a : addr) (w2 : world) : Prop :=
  length w1 <= length w2 /\
  forall ti t1, nth_error w1 ti = Some t1 ->
    exists t2, nth_error w2 ti = Some t2 /\
      (ti <> fst a -> t2 = t1) /\
      (forall q, strip (snd a) q = None -> assoc q t2 = assoc q t1).

(* ---- the executable part: classification of the writes that reach the parsed tree --------
   Observed by the check as (path of the class owning the changed object, kind). *)
Inductive wkind :=
| WImportMemo      (* ast.py:681 self.imports[name] = ... (unqualified-import memo in _find_class) *)
| WConstSym        (* a constant Symbol returned uncopied by _find_constant_symbol (ast.py:725-757):
                      name reset from the dict key (tree.py flatten_symbols), own modification applied
                      and cleared (tree.py:838-880 modify_symbol) *)
| WArgHook         (* ClassModificationArgument.__deepcopy__ leaves `self.__deepcopy__` bound to self
                      on the argument that was copied (ast.py:581-587) *)
| WOther.          (* any other field of a class/symbol/equation of the parsed tree *)

(* the exact writes are allowed anywhere — the constant-symbol write only while the code still renames the
   caller's Symbol object in place (ci = true, read from tree.py ConstantReferenceApplier on every run; false with
   fixes/C06_constant_symbol_copy.diff); any other write only without copy-on-lookup, and then only below the
   requested class *)
Definition allowed (cp ci : bool) (req : path) (x : path * wkind) : bool :=
  match snd x with
  | WOther => if cp then false else is_some (strip req (fst x))
  | WConstSym => ci
  | _ => true
  end.

(* a case: the copy= literal read from tree.py, the constants-in-place flag, the requested class, the observed writes *)
Definition check_case (c : bool * bool * path * list (path * wkind)) : bool :=
  let '(cp, ci, req, ws) := c in forallb (allowed cp ci req) ws.

(* ==== the fields of parsed-tree objects that a request writes even with copy-on-lookup ==========
   They are kept beside the tree (`xmap`: class path -> ext) so that Lib/ObjGraph's cdata stays
   what the AST edit API changes. *)
Record csym := CSym {
  c_name : nat;            (* Symbol.name: reset from the dict key before it is read (tree.py flatten_symbols) *)
  c_val : nat;             (* Symbol.value *)
  c_pend : option nat      (* the symbol's own pending value modification (class_modification) *)
}.
Record ext := Ext {
  stars : list path;               (* imports['*'].components: packages imported unqualified *)
  memo : list (key * path);        (* imports[name] written by _find_class (ast.py:681) *)
  consts : list (key * csym);      (* constant symbols of the class *)
  arghook : bool                   (* a ClassModificationArgument of the class carries `__deepcopy__`
                                      bound to itself (ast.py:581-587): never redirects a copy; no query reads it *)
}.
Definition xmap := list (path * ext).
Definition xget (xm : xmap) (p : path) : ext :=
  match assoc p xm with Some e => e | None => Ext [] [] [] false end.
Definition xset (xm : xmap) (p : path) (e : ext) : xmap := (p, e) :: xm.

Fixpoint kassoc {B} (k : key) (l : list (key * B)) : option B :=
  match l with
  | [] => None
  | (k', v) :: l' => if Nat.eqb k k' then Some v else kassoc k l'
  end.

Definition exists_cls (t : tree) (q : path) : bool := is_some (assoc q t).

(* ast.py:667-680: every unqualified-import package is tried, the last hit wins *)
Fixpoint star_search (t : tree) (pkgs : list path) (k : key) (acc : option path) : option path :=
  match pkgs with
  | [] => acc
  | pk :: pkgs' => star_search t pkgs' k (if exists_cls t (pk ++ [k]) then Some (pk ++ [k]) else acc)
  end.

(* ast.py:629-693 _find_class for the (possibly dotted) name k.ks, started at the class whose REVERSED
   path is rp (so the parent is the tail): own classes, then the import memo, then the unqualified
   imports, then the parent.  A stage whose candidate for k has no ks below it raises
   ClassNotFoundError, which the code catches and continues with the parent.  Import packages are
   named by their path from the root.
   sd ("star descends"): true = after the unqualified-import search found package.k the code looks
   ks up inside it (fixes/C05_import_dotted.diff); false = the code as it was before that repair: the
   class found for the FIRST name is returned whatever ks is (ast.py:667-685). *)
Fixpoint find (sd : bool) (t : tree) (xm : xmap) (rp : list key) (k : key) (ks : list key) : option path :=
  let p := rev rp in
  if exists_cls t (p ++ k :: ks) then Some (p ++ k :: ks)                  (* ast.py:643-648 *)
  else
    let up := match rp with [] => None | _ :: rp' => find sd t xm rp' k ks end in   (* ast.py:688-690 *)
    match kassoc k (memo (xget xm p)) with
    | Some q => if exists_cls t (q ++ ks) then Some (q ++ ks) else up      (* ast.py:650-663 *)
    | None => match star_search t (stars (xget xm p)) k None with         (* ast.py:665-685 *)
              | Some q => if sd then (if exists_cls t (q ++ ks) then Some (q ++ ks) else up)
                          else Some q
              | None => up
              end
    end.

(* effective value of a constant: pending modification if any, else the value (tree.py modify_symbol) *)
Definition eff (c : csym) : nat := match c_pend c with Some v => v | None => c_val c end.
Definition const_eff (xm : xmap) (p : path) (s : key) : option nat :=
  match kassoc s (consts (xget xm p)) with Some c => Some (eff c) | None => None end.

(* a request = a program that reads the parsed tree ONLY through these queries (class lookup, effective
   value of a constant, content of a class) — the modelling assumption that replaces the premise
   "neutral writes do not change results" *)
Inductive prog (R : Type) : Type :=
| Ret (r : R)
| AskFind (rp : list key) (k : key) (ks : list key) (cont : option path -> prog R)
| AskConst (p : path) (s : key) (cont : option nat -> prog R)
| AskData (p : path) (cont : option cdata -> prog R).
Arguments Ret {R}. Arguments AskFind {R}. Arguments AskConst {R}. Arguments AskData {R}.

Fixpoint exec {R} (sd : bool) (pr : prog R) (t : tree) (xm : xmap) : R :=
  match pr with
  | Ret r => r
  | AskFind rp k ks c => exec sd (c (find sd t xm rp k ks)) t xm
  | AskConst p s c => exec sd (c (const_eff xm p s)) t xm
  | AskData p c => exec sd (c (option_map dat (assoc p t))) t xm
  end.

(* the three exact writes *)
Inductive nstep (t : tree) : xmap -> xmap -> Prop :=
| NS_memo xm p k q :                      (* found through the unqualified imports: cached (after 01ccba4: the reference FOUND) *)
    star_search t (stars (xget xm p)) k None = Some q ->
    nstep t xm (xset xm p (Ext (stars (xget xm p)) ((k, q) :: memo (xget xm p)) (consts (xget xm p)) (arghook (xget xm p))))
| NS_const xm p s c nm :                  (* a referenced constant: renamed, modification applied and cleared *)
    kassoc s (consts (xget xm p)) = Some c ->
    nstep t xm (xset xm p (Ext (stars (xget xm p)) (memo (xget xm p)) ((s, CSym nm (eff c) None) :: consts (xget xm p)) (arghook (xget xm p))))
| NS_arg xm p :                           (* an argument copied by deepcopy keeps a self-bound hook *)
    nstep t xm (xset xm p (Ext (stars (xget xm p)) (memo (xget xm p)) (consts (xget xm p)) true)).

Inductive nstar (t : tree) : xmap -> xmap -> Prop :=
| nstar_refl xm : nstar t xm xm
| nstar_step xm1 xm2 xm3 : nstep t xm1 xm2 -> nstar t xm2 xm3 -> nstar t xm1 xm3.

(* ---- executable check of the lookup model against the real _find_class ---- *)
Definition opath_eqb (a b : option path) : bool :=
  match a, b with
  | Some x, Some y => if path_dec x y then true else false
  | None, None => true
  | _, _ => false
  end.
Definition memo_soundb (t : tree) (xm : xmap) : bool :=
  forallb (fun pe => forallb (fun kq => opath_eqb (star_search t (stars (snd pe)) (fst kq) None) (Some (snd kq)))
                             (memo (snd pe))) xm.
(* case: the star-descends flag read from ast.py, class paths of the tree, the imports (stars + memo) as
   they are before the queries, queries (reversed start path, first name, further names, class the real
   _find_class returned) *)
Definition check_find (c : bool * list path * xmap * list (list key * key * list key * option path)) : bool :=
  let '(sd, ps, xm, qs) := c in
  let t := map (fun p => (p, Info (CD [] 0) None None)) ps in
  memo_soundb t xm &&
  forallb (fun q => let '(rp, k, ks, r) := q in opath_eqb (find sd t xm rp k ks) r) qs.
