(* C05 — model of one flatten/generate request on a parsed tree (src/pymoca/tree.py:1233-1262):
   the lookup of the requested class with or without copy-on-lookup, and the footprint of
   the instance-tree construction.  No proofs in this file.
   World/addresses: Lib/ObjGraph.v; copy-on-lookup = C06's deepcopy with the flags of the code
   as it is (Model/C06_deepcopy.v; tied to ast.py by the C06 check and again by this one). *)
From Coq Require Import List Arith Bool.
From PV Require Import Lib.ObjGraph Model.C06_deepcopy.
Import ListNotations.

(* tree.py:1242  orig_class = root.find_class(class_name, copy=<cp>)   (ast.py:695-723):
   the class at path p of the parsed tree (tree 0), or a detached deep copy of it whose root
   keeps parent = the original parent (C06_iso) *)
Definition lookup (cp : bool) (w : world) (p : path) : option (world * addr) :=
  match get w (0, p) with
  | None => None                                   (* ClassNotFoundError: nothing is written *)
  | Some _ =>
      if cp then match deepcopy fixed_flags w (0, p) with
                 | Some w' => Some (w', (length w, []))
                 | None => None
                 end
      else Some (w, (0, p))
  end.

(* tree.py:262-653 build_instance_tree / flatten_symbols, over-approximated: arbitrary writes to
   objects owned by the looked-up class `a` (its symbols, its nested classes and theirs), and
   allocation of new objects (every find_class inside uses copy=True).  Nothing else. *)
Definition footprint (w1 : world) (a : addr) (w2 : world) : Prop :=
  length w1 <= length w2 /\
  forall ti t1, nth_error w1 ti = Some t1 ->
    exists t2, nth_error w2 ti = Some t2 /\
      (ti <> fst a -> t2 = t1) /\
      (forall q, strip (snd a) q = None -> assoc q t2 = assoc q t1).

(* ---- the executable part: classification of the writes that reach the parsed tree --------
   Observed by the check as (path of the class owning the changed object, kind). *)
Inductive wkind :=
| WImportMemo      (* ast.py:681 self.imports[name] = ... (unqualified-import memo in _find_class) *)
| WConstSym        (* a constant Symbol returned uncopied by _find_constant_symbol (ast.py:725-757):
                      name reset from the dict key (tree.py flatten_symbols), own modification applied
                      and cleared (tree.py:838-880 modify_symbol) *)
| WArgHook         (* ClassModificationArgument.__deepcopy__ leaves `self.__deepcopy__` bound to self
                      on the argument that was copied (ast.py:581-587) *)
| WOther.          (* any other field of a class/symbol/equation of the parsed tree *)

(* the three exact writes are allowed anywhere; any other write only without copy-on-lookup, and
   then only below the requested class *)
Definition allowed (cp : bool) (req : path) (x : path * wkind) : bool :=
  match snd x with
  | WOther => if cp then false else is_some (strip req (fst x))
  | _ => true
  end.

(* a case: the copy= literal read from tree.py, the requested class, the observed writes *)
Definition check_case (c : bool * path * list (path * wkind)) : bool :=
  let '(cp, req, ws) := c in forallb (allowed cp req) ws.
