(* C11 — 1-D / 2-D arrays: whole-array equations, element-free slices, matrix product, transpose,
   and the implicit-transpose rule of exitEquation.  Executable model, NO proofs.

   Mirrors /repo/src/pymoca/backends/casadi/generator.py:
     get_symbol (a declared vector v[n] is the MX column (n,1); a matrix A[n,m] is (n,m)),
     get_indexed_symbol 858-946 (int subscript k -> k-1; slice lo:hi -> slice(lo-1, hi); missing
     -> slice(None,None,1); one index list -> s[i0]; two -> s[i0, i1], so A[k,:] is the ROW (1,m)),
     exitExpression (`*` -> ca.mtimes, `.*` `+` `-` elementwise MX methods, unary minus,
     transpose -> .T), exitEquation 447-452 (if shapes differ and lhs.shape == rhs.shape[::-1]:
     transpose the rhs; residual lhs - rhs), Model.dae_residual_function (veccat = column-major).

   Modelica side: arrays are values with a Modelica shape (vector n | matrix n m) and 0-based
   accessor functions; a scalar subscript removes its dimension. *)
From Coq Require Import ZArith QArith Qcanon List Bool Arith.
From PV Require Import Model.C11_residual.
Import ListNotations.
Open Scope Qc_scope.

Inductive mshape := ShV (n : nat) | ShM (n m : nat).
Definition mshape_eqb (a b : mshape) : bool :=
  match a, b with
  | ShV n, ShV n' => Nat.eqb n n'
  | ShM n m, ShM n' m' => Nat.eqb n n' && Nat.eqb m m'
  | _, _ => false
  end.

(* k | lo:hi | : | lo:st:hi (constant three-part slice, any non-zero step) *)
Inductive sub := SubI (k : Z) | SubR (lo hi : Z) | SubAll | SubR3 (lo st hi : Z).
Inductive aop := AAdd | ASub | AEMul.
Inductive aexpr :=
| AVar (x : positive)
| ASl1 (x : positive) (s : sub)
| ASl2 (x : positive) (s1 s2 : sub)
| ABin (o : aop) (a b : aexpr)
| AMul (a b : aexpr)
| AScal (e : expr) (a : aexpr)
| ANeg (a : aexpr)
| ATr (a : aexpr).

Definition aop_q (o : aop) (x y : Qc) : Qc :=
  match o with AAdd => x + y | ASub => x - y | AEMul => x * y end.
Fixpoint sumn (k : nat) (f : nat -> Qc) : Qc :=
  match k with O => 0 | S k' => sumn k' f + f k' end.

(* ---------- Modelica ---------- *)
(* 1-based indices selected by a subscript on a dimension of size d; `true` = scalar subscript *)
Definition in_range (d : nat) (k : Z) : bool := (1 <=? k)%Z && (k <=? Z.of_nat d)%Z.
Definition m_sub (d : nat) (s : sub) : option (bool * list Z) :=
  match s with
  | SubI k => if in_range d k then Some (true, [k]) else None
  | SubR lo hi => if in_range d lo && in_range d hi && (lo <=? hi)%Z
                  then Some (false, zrange lo (Z.to_nat (hi + 1 - lo))) else None
  | SubAll => Some (false, zrange 1 d)
  | SubR3 lo st hi =>
      (* element k of the result is x[lo + k*st]: the Modelica range lo:st:hi (empty slices are
         outside the model) *)
      if (st =? 0)%Z then None
      else match modelica_range lo st hi with
           | [] => None
           | idx => if forallb (in_range d) idx then Some (false, idx) else None
           end
  end.

Definition marr := (mshape * (nat -> nat -> Qc))%type.
(* 2-D environment: mm x i j, 1-based *)
Definition menv2 := positive -> Z -> Z -> Qc.

Section WithFun.
Variable F : positive -> Qc -> Qc.
Variable decl : positive -> mshape.

Fixpoint m_aeval (a : aexpr) (mm : menv2) (rho : menv) : option marr :=
  match a with
  | AVar x =>
      match decl x with
      | ShV n => Some (ShV n, fun i _ => m_arr rho x (Z.of_nat i + 1))
      | ShM n m => Some (ShM n m, fun i j => mm x (Z.of_nat i + 1)%Z (Z.of_nat j + 1)%Z)
      end
  | ASl1 x s =>
      match decl x with
      | ShV d => match m_sub d s with
                 | Some (false, idx) => Some (ShV (length idx), fun i _ => m_arr rho x (nth i idx 0%Z))
                 | _ => None
                 end
      | _ => None
      end
  | ASl2 x s1 s2 =>
      match decl x with
      | ShM d1 d2 =>
          match m_sub d1 s1, m_sub d2 s2 with
          | Some (false, i1), Some (false, i2) =>
              Some (ShM (length i1) (length i2), fun i j => mm x (nth i i1 0%Z) (nth j i2 0%Z))
          | Some (true, i1), Some (false, i2) =>
              Some (ShV (length i2), fun i _ => mm x (nth 0 i1 0%Z) (nth i i2 0%Z))
          | Some (false, i1), Some (true, i2) =>
              Some (ShV (length i1), fun i _ => mm x (nth i i1 0%Z) (nth 0 i2 0%Z))
          | _, _ => None
          end
      | _ => None
      end
  | ABin o a b =>
      match m_aeval a mm rho, m_aeval b mm rho with
      | Some (sa, ga), Some (sb, gb) =>
          if mshape_eqb sa sb then Some (sa, fun i j => aop_q o (ga i j) (gb i j)) else None
      | _, _ => None
      end
  | AMul a b =>
      match m_aeval a mm rho, m_aeval b mm rho with
      | Some (ShM n k, ga), Some (ShM k' m, gb) =>
          if Nat.eqb k k' then Some (ShM n m, fun i j => sumn k (fun l => ga i l * gb l j)) else None
      | Some (ShM n k, ga), Some (ShV k', gb) =>
          if Nat.eqb k k' then Some (ShV n, fun i _ => sumn k (fun l => ga i l * gb l 0%nat)) else None
      | _, _ => None
      end
  | AScal e a =>
      match m_eval F e rho, m_aeval a mm rho with
      | Some (VNum s), Some (sa, ga) => Some (sa, fun i j => s * ga i j)
      | _, _ => None
      end
  | ANeg a =>
      match m_aeval a mm rho with
      | Some (sa, ga) => Some (sa, fun i j => - ga i j)
      | None => None
      end
  | ATr a =>
      match m_aeval a mm rho with
      | Some (ShM n m, ga) => Some (ShM m n, fun i j => ga j i)
      | _ => None
      end
  end.

(* the flat equations of an array equation, in column-major order *)
Definition m_flat (sh : mshape) (g : nat -> nat -> Qc) : list Qc :=
  match sh with
  | ShV n => map (fun i => g i 0%nat) (seq 0 n)
  | ShM n m => flat_map (fun j => map (fun i => g i j) (seq 0 n)) (seq 0 m)
  end.
Definition m_ares (l r : aexpr) (mm : menv2) (rho : menv) : option (list Qc) :=
  match m_aeval l mm rho, m_aeval r mm rho with
  | Some (sl, gl), Some (sr, gr) =>
      if mshape_eqb sl sr then Some (m_flat sl (fun i j => gl i j - gr i j)) else None
  | _, _ => None
  end.

(* ---------- CasADi ---------- *)
Record cmat := { cm_r : nat; cm_c : nat; cm_get : nat -> nat -> Qc }.
(* 2-D environment: cm x i j, 0-based (row, column) *)
Definition cenv2 := positive -> Z -> Z -> Qc.

Inductive caa :=
| CASymV (x : positive) (n : nat)               (* MX.sym(name, n): column (n,1) *)
| CASymM (x : positive) (n m : nat)             (* MX.sym(name, n, m) *)
| CAGet1 (a : caa) (idx : list Z)               (* s[i0] on a column *)
| CAGet2 (a : caa) (i1 i2 : list Z)             (* s[i0, i1] *)
| CABin (o : aop) (a b : caa)
| CAMtimes (a b : caa)
| CAScal (c : caexpr) (a : caa)
| CANeg (a : caa)
| CATr (a : caa).

Fixpoint ca_aeval (a : caa) (cm : cenv2) (rho : cenv) : option cmat :=
  match a with
  | CASymV x n => Some {| cm_r := n; cm_c := 1; cm_get := fun i _ => c_arr rho x (Z.of_nat i) |}
  | CASymM x n m => Some {| cm_r := n; cm_c := m; cm_get := fun i j => cm x (Z.of_nat i) (Z.of_nat j) |}
  | CAGet1 a idx =>
      match ca_aeval a cm rho with
      | Some v => if Nat.eqb (cm_c v) 1
                  then Some {| cm_r := length idx; cm_c := 1;
                               cm_get := fun i _ => cm_get v (Z.to_nat (nth i idx 0%Z)) 0%nat |}
                  else None
      | None => None
      end
  | CAGet2 a i1 i2 =>
      match ca_aeval a cm rho with
      | Some v => Some {| cm_r := length i1; cm_c := length i2;
                          cm_get := fun i j => cm_get v (Z.to_nat (nth i i1 0%Z)) (Z.to_nat (nth j i2 0%Z)) |}
      | None => None
      end
  | CABin o a b =>
      match ca_aeval a cm rho, ca_aeval b cm rho with
      | Some va, Some vb =>
          if Nat.eqb (cm_r va) (cm_r vb) && Nat.eqb (cm_c va) (cm_c vb)
          then Some {| cm_r := cm_r va; cm_c := cm_c va;
                       cm_get := fun i j => aop_q o (cm_get va i j) (cm_get vb i j) |}
          else None                                  (* CasADi: dimension mismatch *)
      | _, _ => None
      end
  | CAMtimes a b =>
      match ca_aeval a cm rho, ca_aeval b cm rho with
      | Some va, Some vb =>
          if Nat.eqb (cm_c va) (cm_r vb)
          then Some {| cm_r := cm_r va; cm_c := cm_c vb;
                       cm_get := fun i j => sumn (cm_c va) (fun l => cm_get va i l * cm_get vb l j) |}
          else None
      | _, _ => None
      end
  | CAScal c a =>
      match ca_eval F c rho, ca_aeval a cm rho with
      | Some s, Some va => Some {| cm_r := cm_r va; cm_c := cm_c va; cm_get := fun i j => s * cm_get va i j |}
      | _, _ => None
      end
  | CANeg a =>
      match ca_aeval a cm rho with
      | Some va => Some {| cm_r := cm_r va; cm_c := cm_c va; cm_get := fun i j => - cm_get va i j |}
      | None => None
      end
  | CATr a =>
      match ca_aeval a cm rho with
      | Some va => Some {| cm_r := cm_c va; cm_c := cm_r va; cm_get := fun i j => cm_get va j i |}
      | None => None
      end
  end.

(* veccat: column-major *)
Definition c_flat (v : cmat) : list Qc :=
  flat_map (fun j => map (fun i => cm_get v i j) (seq 0 (cm_r v))) (seq 0 (cm_c v)).

(* the 0-based index list the generator builds for a subscript (lines 886-906) *)
Definition c_sub (d : nat) (s : sub) : option (list Z) :=
  match s with
  | SubI k => if in_range d k then Some [(k - 1)%Z] else None                  (* 888-899 *)
  | SubR lo hi => if in_range d lo && in_range d hi && (lo <=? hi)%Z           (* range check 05b675f *)
                  then Some (zrange (lo - 1) (Z.to_nat (hi - (lo - 1)))) else None   (* slice(lo-1, hi) *)
  | SubAll => Some (zrange 0 d)                                                (* slice(None, None, 1) *)
  | SubR3 lo st hi =>
      (* constant bounds: picked = range(first, last +- 1, step); out of [1, dim] raises;
         sl = slice(picked[0] - 1, None if end < 0 else end, step) with
         end = picked[-1] - 1 +- 1 (end < 0 can only be -1 = "down to index 0") *)
      if (st =? 0)%Z then None
      else let picked := range_values lo st hi in
           match picked with
           | [] => None
           | p0 :: _ =>
               let pl := nth (length picked - 1) picked 0%Z in
               if in_range d (Z.min p0 pl) && in_range d (Z.max p0 pl)
               then Some (arange (p0 - 1) (pl - 1 + (if (0 <? st)%Z then 1 else -1)) st)
               else None
           end
  end.

Section WithTable.
Variable T : table.

Fixpoint tr_a (a : aexpr) : res caa :=
  match a with
  | AVar x => match decl x with ShV n => Ok (CASymV x n) | ShM n m => Ok (CASymM x n m) end
  | ASl1 x s =>
      match decl x with
      | ShV d => match c_sub d s with Some idx => Ok (CAGet1 (CASymV x d) idx) | None => Err E_shape end
      | _ => Err E_shape
      end
  | ASl2 x s1 s2 =>
      match decl x with
      | ShM d1 d2 =>
          match c_sub d1 s1, c_sub d2 s2 with
          | Some i1, Some i2 => Ok (CAGet2 (CASymM x d1 d2) i1 i2)
          | _, _ => Err E_shape
          end
      | _ => Err E_shape
      end
  | ABin o a b =>
      match tr_a a, tr_a b with
      | Ok ca, Ok cb => Ok (CABin o ca cb)          (* the OP_MAP methods + - * are elementwise on MX *)
      | Err w, _ => Err w
      | _, Err w => Err w
      end
  | AMul a b =>
      match tr_a a, tr_a b with
      | Ok ca, Ok cb => Ok (CAMtimes ca cb)         (* line 256-260 *)
      | Err w, _ => Err w
      | _, Err w => Err w
      end
  | AScal e a =>
      match tr T e, tr_a a with
      | Ok c, Ok ca => Ok (CAScal c ca)             (* ca.mtimes(scalar, matrix) *)
      | Err w, _ => Err w
      | _, Err w => Err w
      end
  | ANeg a => match tr_a a with Ok ca => Ok (CANeg ca) | Err w => Err w end
  | ATr a => match tr_a a with Ok ca => Ok (CATr ca) | Err w => Err w end
  end.

(* static shape of an MX (what .shape returns) *)
Fixpoint ca_shape (a : caa) : option (nat * nat) :=
  match a with
  | CASymV _ n => Some (n, 1%nat)
  | CASymM _ n m => Some (n, m)
  | CAGet1 a idx => match ca_shape a with Some (_, 1%nat) => Some (length idx, 1%nat) | _ => None end
  | CAGet2 a i1 i2 => match ca_shape a with Some _ => Some (length i1, length i2) | None => None end
  | CABin _ a b =>
      match ca_shape a, ca_shape b with
      | Some (r, c), Some (r', c') => if Nat.eqb r r' && Nat.eqb c c' then Some (r, c) else None
      | _, _ => None
      end
  | CAMtimes a b =>
      match ca_shape a, ca_shape b with
      | Some (r, c), Some (r', c') => if Nat.eqb c r' then Some (r, c') else None
      | _, _ => None
      end
  | CAScal _ a | CANeg a => ca_shape a
  | CATr a => match ca_shape a with Some (r, c) => Some (c, r) | None => None end
  end.

(* exitEquation 447-452 *)
Definition tr_aeq (l r : aexpr) : res caa :=
  match tr_a l, tr_a r with
  | Ok cl, Ok cr =>
      match ca_shape cl, ca_shape cr with
      | Some (rl, cl_), Some (rr, cr_) =>
          let cr' := if negb (Nat.eqb rl rr && Nat.eqb cl_ cr_) && (Nat.eqb rl cr_ && Nat.eqb cl_ rr)
                     then CATr cr else cr in
          match ca_shape (CABin ASub cl cr') with
          | Some _ => Ok (CABin ASub cl cr')
          | None => Err E_shape
          end
      | _, _ => Err E_shape
      end
  | Err w, _ => Err w
  | _, Err w => Err w
  end.
End WithTable.
End WithFun.

(* ---------- correspondence ---------- *)
Fixpoint alookup_sh (l : list (positive * mshape)) (x : positive) : mshape :=
  match l with [] => ShV 0 | (y, s) :: r => if Pos.eqb x y then s else alookup_sh r x end.
(* matrices given as lists of rows *)
Definition mat_of (l : list (positive * list (list Qc))) (x : positive) (i j : Z) : Qc :=
  match i, j with
  | Zneg _, _ | _, Zneg _ => 0
  | _, _ => nth (Z.to_nat j) (nth (Z.to_nat i) (alookup [] l x) []) 0
  end.
Definition check_aeq (F : positive -> Qc -> Qc) (T : table) (decl : list (positive * mshape))
           (cm : cenv2) (rho : cenv) (l r : aexpr) (o : list obs) : bool :=
  match tr_aeq (alookup_sh decl) T l r with
  | Ok c =>
      match ca_aeval F c cm rho with
      | Some v => close_all (map Some (c_flat v)) o
      | None => false
      end
  | Err _ => false
  end.
