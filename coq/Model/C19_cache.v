(* C19 — cached and code-generated models equal fresh compiles.
   Executable model of save_model / load_model (pymoca/backends/casadi/api.py) on the
   variable dictionaries, the dependency classification of MX attributes, the reconstruction of
   attributes from the metadata function (symbolic call / NaN call) and of the delay arguments
   (NaN call, false-dependency removal).  NO PROOFS in this file.

   Values: V = option Qc, None = NaN (needed for the NaN calls).  Attribute expressions are over the
   FLATTENED parameter vector (Sym k = k-th scalar element of veccat(parameters)); delay arguments
   are over `all_symbols` (Sym k = k-th entry of [time; states; der_states; alg_states; inputs;
   constants; parameters], scalar symbols).  A CasADi Function is modelled by the expressions it
   computes; calling it symbolically with the loaded model's own symbols is the identity under the
   positional identification of symbols, calling it numerically is `eval`.  Pickling / code
   generation of Functions are parameters `pkm`, `pkd` of `load` (Section variables with the
   contract "evaluates like the original" in Proofs/C19_cache.v; identity in check_case). *)
From Coq Require Import List Bool Arith QArith Qcanon.
Import ListNotations.
Open Scope nat_scope.

Definition V := option Qc.

Inductive expr :=
| Const (q : Qc)
| CNaN
| PyCell (tok : nat)            (* ca.MX(<python value>) in the metadata matrix; never read back by load *)
| Sym (i : nat)
| Neg (a : expr) | Sq (a : expr) | Twice (a : expr)
| Add (a b : expr) | Sub (a b : expr) | Mul (a b : expr)
| Fmin (a b : expr) | Fmax (a b : expr).

Definition lift1 (f : Qc -> Qc) (x : V) : V := option_map f x.
Definition lift2 (f : Qc -> Qc -> Qc) (x y : V) : V :=
  match x, y with Some a, Some b => Some (f a b) | _, _ => None end.
Definition qmin (a b : Qc) : Qc := if Qle_bool a b then a else b.
Definition qmax (a b : Qc) : Qc := if Qle_bool a b then b else a.
(* C fmin/fmax: a NaN operand is ignored *)
Definition lift_sel (f : Qc -> Qc -> Qc) (x y : V) : V :=
  match x, y with Some a, Some b => Some (f a b) | Some a, None => Some a | None, y' => y' end.

Fixpoint eval (rho : nat -> V) (e : expr) : V :=
  match e with
  | Const q => Some q
  | CNaN => None
  | PyCell _ => None
  | Sym i => rho i
  | Neg a => lift1 Qcopp (eval rho a)
  | Sq a => lift1 (fun x => Qcmult x x) (eval rho a)
  | Twice a => lift1 (fun x => Qcplus x x) (eval rho a)
  | Add a b => lift2 Qcplus (eval rho a) (eval rho b)
  | Sub a b => lift2 Qcminus (eval rho a) (eval rho b)
  | Mul a b => lift2 Qcmult (eval rho a) (eval rho b)
  | Fmin a b => lift_sel qmin (eval rho a) (eval rho b)
  | Fmax a b => lift_sel qmax (eval rho a) (eval rho b)
  end.

Fixpoint vars (e : expr) : list nat :=
  match e with
  | Const _ | CNaN | PyCell _ => []
  | Sym i => [i]
  | Neg a | Sq a | Twice a => vars a
  | Add a b | Sub a b | Mul a b | Fmin a b | Fmax a b => vars a ++ vars b
  end.

Definition has_sym (e : expr) : bool := match vars e with [] => false | _ => true end.

Fixpoint subst (s : nat -> expr) (e : expr) : expr :=
  match e with
  | Const q => Const q | CNaN => CNaN | PyCell t => PyCell t
  | Sym i => s i
  | Neg a => Neg (subst s a) | Sq a => Sq (subst s a) | Twice a => Twice (subst s a)
  | Add a b => Add (subst s a) (subst s b) | Sub a b => Sub (subst s a) (subst s b)
  | Mul a b => Mul (subst s a) (subst s b)
  | Fmin a b => Fmin (subst s a) (subst s b) | Fmax a b => Fmax (subst s a) (subst s b)
  end.

Definition constv (v : V) : expr := match v with Some q => Const q | None => CNaN end.
Definition nanrho : nat -> V := fun _ => None.

(* ---- variables ------------------------------------------------------------------------- *)
Definition pyval := nat.                 (* token of (type name, canonical value); 0 = None *)
Definition py_none : pyval := 0.

Inductive attr :=
| Py (v : pyval)
| MX (es : list expr).                   (* 1 expression (scalar, broadcast) or one per element, column-major *)

Record var := Var {
  vname : nat; vshape : nat * nat; vptype : nat; valiases : nat;     (* tokens *)
  vattrs : list attr }.                  (* CASADI_ATTRIBUTES = value min max start fixed nominal *)

Definition numel (s : nat * nat) : nat := fst s * snd s.
Definition n_attrs : nat := 6.

Record model := Model {
  m_meta : list (list var);              (* states, alg_states, inputs, parameters, constants *)
  m_der : list var;                      (* der_states: no metadata *)
  m_outputs : nat; m_delay_states : nat; m_strings : nat; m_alias : nat;   (* tokens of pickled plain data *)
  m_delays : list (expr * expr) }.       (* delay_arguments: (expr, duration) *)

(* ---- save_model (api.py:188-291) ----------------------------------------------------------- *)
Inductive dep := NOT_MX | MX_DEPENDENT | MX_INDEPENDENT.            (* _DepMeta, api.py:24-27 *)

Record vdict := VDict {
  d_name : nat; d_shape : nat * nat; d_ptype : nat; d_aliases : nat;
  d_attrs : list pyval }.

(* Variable.to_dict, model.py:51-63: MX attributes are stored as None *)
Definition to_dict (v : var) : vdict :=
  VDict (vname v) (vshape v) (vptype v) (valiases v)
        (map (fun a => match a with Py p => p | MX _ => py_none end) (vattrs v)).

(* api.py:252-259: `not attr.is_constant() and depends_on(attr, parameter_vector)` *)
Definition classify (a : attr) : dep :=
  match a with
  | Py _ => NOT_MX
  | MX es => if existsb has_sym es then MX_DEPENDENT else MX_INDEPENDENT
  end.

(* variable_metadata_function, model.py:1351-1381: one row per scalar ELEMENT; a value with one
   element is repeated to the symbol's size *)
Definition bcast (n : nat) (es : list expr) : list expr :=
  match es with [e] => repeat e n | _ => es end.
Definition cell_of (n k : nat) (a : attr) : expr :=
  match a with Py p => PyCell p | MX es => nth k (bcast n es) CNaN end.
Definition rows_of (v : var) : list (list expr) :=
  map (fun k => map (cell_of (numel (vshape v)) k) (vattrs v)) (seq 0 (numel (vshape v))).
Definition meta_matrix (vs : list var) : list (list expr) := flat_map rows_of vs.
Definition mfun := list (list (list expr)).          (* per category: rows x 6 *)
Definition meta_fun (m : model) : mfun := map meta_matrix (m_meta m).

(* api.py:261-283: indices of the symbols the duration depends on *)
Definition dur_deps (d : expr * expr) : list nat := nodup Nat.eq_dec (vars (snd d)).

Record db := Db {
  db_meta_dicts : list (list vdict);
  db_der_dicts : list vdict;
  db_dep : list (list (list dep));
  db_meta_fun : mfun;
  db_delay_fun : list (expr * expr);
  db_delay_dep : list (list nat);
  db_outputs : nat; db_delay_states : nat; db_strings : nat; db_alias : nat }.

Definition save (m : model) : db :=
  Db (map (map to_dict) (m_meta m)) (map to_dict (m_der m))
     (map (map (fun v => map classify (vattrs v))) (m_meta m))
     (meta_fun m) (m_delays m) (map dur_deps (m_delays m))
     (m_outputs m) (m_delay_states m) (m_strings m) (m_alias m).

(* ---- load_model (api.py:294-491) ----------------------------------------------------------- *)
Definition cellexpr (f : mfun) (c r j : nat) : expr := nth j (nth r (nth c f []) []) CNaN.
Definition call_meta (f : mfun) (rho : nat -> V) (c r j : nat) : V := eval rho (cellexpr f c r j).

(* Variable.from_dict, model.py:65-73 *)
Definition from_dict (d : vdict) : var :=
  Var (d_name d) (d_shape d) (d_ptype d) (d_aliases d) (map Py (d_attrs d)).

(* api.py:399-413 (with the row offset of an array variable: one row per element) *)
Definition load_attr (f : mfun) (c row n j : nat) (k : dep) (stored : attr) : attr :=
  match k with
  | MX_DEPENDENT => MX (map (fun r => cellexpr f c r j) (seq row n))                       (* symbolic call *)
  | MX_INDEPENDENT => MX (map (fun r => constv (call_meta f nanrho c r j)) (seq row n))    (* NaN call *)
  | NOT_MX => stored
  end.

Fixpoint load_attrs (f : mfun) (c row n j : nat) (ks : list dep) (stored : list attr) : list attr :=
  match ks, stored with
  | k :: ks', a :: st' => load_attr f c row n j k a :: load_attrs f c row n (S j) ks' st'
  | _, _ => []
  end.

Fixpoint load_vars (f : mfun) (c row : nat) (ds : list vdict) (m : list (list dep)) : list var :=
  match ds, m with
  | d :: ds', ks :: m' =>
      let n := numel (d_shape d) in
      let v := from_dict d in
      Var (vname v) (vshape v) (vptype v) (valiases v) (load_attrs f c row n 0 ks (vattrs v))
      :: load_vars f c (row + n) ds' m'
  | _, _ => []
  end.

Fixpoint load_cats (f : mfun) (c : nat) (dss : list (list vdict)) (ms : list (list (list dep))) : list (list var) :=
  match dss, ms with
  | ds :: dss', m :: ms' => load_vars f c 0 ds m :: load_cats f (S c) dss' ms'
  | _, _ => []
  end.

Definition memb (i : nat) (l : list nat) : bool := existsb (Nat.eqb i) l.
Definition keep (l : list nat) : nat -> expr := fun i => if memb i l then Sym i else CNaN.

(* api.py:453-488.  `alen` is len(actual_deps): the variable is first the sorted union of all
   dependency lists and is then REBOUND inside the loop to the symbol set of the last duration that
   took the substitute branch (api.py:475) - mirrored as coded. *)
Fixpoint load_delays (union : list nat) (alen : nat) (raw : list (expr * expr)) (deps : list (list nat))
  : list (expr * expr) :=
  match raw, deps with
  | (e, d) :: raw', dp :: deps' =>
      match dp with
      | [] => (e, constv (eval nanrho d)) :: load_delays union alen raw' deps'            (* api.py:486 *)
      | _ =>
          let simplified := subst (keep union) d in                                      (* api.py:464-466 *)
          if length dp <? alen
          then (e, subst (keep dp) simplified) :: load_delays union (length (nodup Nat.eq_dec dp)) raw' deps'
          else (e, simplified) :: load_delays union alen raw' deps'
      end
  | _, _ => []
  end.

Definition load (pkm : mfun -> mfun) (pkd : list (expr * expr) -> list (expr * expr)) (d : db) : model :=
  let f := pkm (db_meta_fun d) in
  let union := nodup Nat.eq_dec (concat (db_delay_dep d)) in
  Model (load_cats f 0 (db_meta_dicts d) (db_dep d))
        (map from_dict (db_der_dicts d))
        (db_outputs d) (db_delay_states d) (db_strings d) (db_alias d)
        (load_delays union (length union) (pkd (db_delay_fun d)) (db_delay_dep d)).

(* ---- observations and the correspondence check ------------------------------------------- *)
Definition is_py (a : attr) : bool := match a with Py _ => true | MX _ => false end.
Definition attr_vals (rho : nat -> V) (n : nat) (a : attr) : list V :=
  match a with Py _ => [] | MX es => map (eval rho) (bcast n es) end.

Definition rho_of (l : list V) : nat -> V := fun i => nth i l None.

Definition dep_eqb (a b : dep) : bool :=
  match a, b with NOT_MX, NOT_MX | MX_DEPENDENT, MX_DEPENDENT | MX_INDEPENDENT, MX_INDEPENDENT => true | _, _ => false end.
Definition V_eqb (a b : V) : bool :=
  match a, b with Some x, Some y => Qeq_bool x y | None, None => true | _, _ => false end.

Fixpoint list_eqb {A B} (eqb : A -> B -> bool) (l1 : list A) (l2 : list B) : bool :=
  match l1, l2 with
  | [], [] => true
  | x :: l1', y :: l2' => eqb x y && list_eqb eqb l1' l2'
  | _, _ => false
  end.

(* observed per attribute of the LOADED model: (is python value, values at each valuation) *)
Definition obs_attr := (bool * list (list V))%type.

Definition attr_okb (vals : list (list V)) (n : nat) (a : attr) (o : obs_attr) : bool :=
  Bool.eqb (is_py a) (fst o) &&
  (if is_py a then true
   else list_eqb (list_eqb V_eqb) (map (fun pv => attr_vals (rho_of pv) n a) vals) (snd o)).

Definition var_okb (vals : list (list V)) (v : var) (o : list obs_attr) : bool :=
  list_eqb (attr_okb vals (numel (vshape v))) (vattrs v) o.

Definition static := (nat * (nat * nat) * nat * nat)%type.
Definition static_eqb (a b : static) : bool :=
  let '(n1, (r1, c1), p1, a1) := a in let '(n2, (r2, c2), p2, a2) := b in
  Nat.eqb n1 n2 && Nat.eqb r1 r2 && Nat.eqb c1 c2 && Nat.eqb p1 p2 && Nat.eqb a1 a2.
Definition statics (vs : list var) : list static := map (fun v => (vname v, vshape v, vptype v, valiases v)) vs.

Definition case :=
  (model * list (list V) * list (list (list dep)) * list (list (list obs_attr))
   * (list (list nat) * list (list V) * list (list V))
   * (list (list static) * list static * (nat * nat * nat * nat)))%type.

Definition nat_list_eqb (a b : list nat) : bool :=
  Nat.eqb (length a) (length b) && forallb (fun x => memb x b) a && forallb (fun x => memb x a) b.

(* observed side: dependency matrices and delay dependency lists read from the real cache file,
   attribute kinds / values, delay durations, names / shapes / python types / alias sets (tokens) and
   outputs / delay states / strings / alias relation (tokens) of the real LOADED model *)
Definition check_case (c : case) : bool :=
  let '(m, vals, odep, oattrs, (oddep, dpts, odur), (ostat, oder, (t1, t2, t3, t4))) := c in
  let d := save m in
  let l := load (fun f => f) (fun f => f) d in
  list_eqb (list_eqb (list_eqb dep_eqb)) (db_dep d) odep
  && list_eqb (list_eqb (var_okb vals)) (m_meta l) oattrs
  && list_eqb (list_eqb static_eqb) (map statics (m_meta l)) ostat
  && list_eqb static_eqb (statics (m_der l)) oder
  && Nat.eqb (m_outputs l) t1 && Nat.eqb (m_delay_states l) t2 && Nat.eqb (m_strings l) t3 && Nat.eqb (m_alias l) t4
  && list_eqb nat_list_eqb (db_delay_dep d) oddep
  && list_eqb (list_eqb V_eqb) (map (fun pt => map (fun ed => eval (rho_of pt) (snd ed)) (m_delays l)) dpts) odur.
