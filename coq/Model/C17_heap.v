(* C17 — executable HEAP-level model of src/pymoca/backends/casadi/alias_relation.py.
   Python's `_aliases` dict maps keys to SHARED mutable set objects.  Here a set object is a
   heap cell (location -> contents), `_aliases` is a pointer map key -> location, `|=` is an
   in-place write to a cell (seen by every key that points to it), `aliases(a)` returns either
   the stored location or a freshly allocated cell {a}, and `copy()` allocates one fresh cell per
   key.  The value-level model is Model/C17_alias.v; Proofs/C17_heap.v proves that this model
   refines it.  No proofs here.
   Not modelled (at either level): the KeyError paths of remove() (`self._aliases[a]`, `del`),
   which are defaulted exactly as in the value-level model; the `assert` at line 17. *)
From stdpp Require Import gmap.
From PV Require Import Lib.Closure Model.C17_alias.

Notation loc := positive.
Notation heapT := (gmap loc (gset svar)).
Notation pmapT := (gmap svar loc).

Record hrel := HRel { ptr : pmapT; hcm : cmapT; hcv : gset positive }.
Record world := World { heap : heapT; next : loc; rels : list hrel }.

(* contents of a set object *)
Definition hget (h : heapT) (l : loc) : gset svar := default ∅ (h !! l).

(* AliasRelation.aliases, alias_relation.py:51-55: the stored object, or a fresh {a} *)
Definition haliases (h : heapT) (n : loc) (p : pmapT) (a : svar) : loc * heapT * loc :=
  match p !! a with
  | Some l => (l, h, n)
  | None => (n, <[n := {[a]}]> h, (n + 1)%positive)
  end.

(* what aliases(k) evaluates to, as a value *)
Definition hcls_at (h : heapT) (p : pmapT) (k : svar) : gset svar :=
  match p !! k with Some l => default {[k]} (h !! l) | None => {[k]} end.
Definition hcls (w : world) (r : hrel) (k : svar) : gset svar := hcls_at (heap w) (ptr r) k.

(* AliasRelation.add, alias_relation.py:12-39, statement by statement *)
Definition hadd (h : heapT) (n : loc) (r : hrel) (a b : svar) : heapT * loc * hrel :=
  let '(la, h1, n1) := haliases h n (ptr r) a in                     (* :14 *)
  if decide (b ∈ hget h1 la) then (h, n, r) else                     (* :15-18 (temp object dropped) *)
  let '(lia, h2, n2) := haliases h1 n1 (ptr r) (tog a) in            (* :20 *)
  let '(lb, h3, n3) := haliases h2 n2 (ptr r) b in                   (* :22 rhs *)
  let h4 := <[la := hget h3 la ∪ hget h3 lb]> h3 in                  (* :22 in-place |= *)
  let '(lnb, h5, n5) := haliases h4 n3 (ptr r) (tog b) in            (* :23 rhs, AFTER the write of :22 *)
  let h6 := <[lia := hget h5 lia ∪ hget h5 lnb]> h5 in               (* :23 in-place |= *)
  let A' := hget h6 la in                                            (* :25 for v in aliases *)
  let p' := set_fold (fun v (acc : pmapT) => <[v := la]> (<[tog v := lia]> acc)) (ptr r) A' in (* :26-27 *)
  let '(ca, sa) := canon (hcm r) a in                                (* :30 *)
  let '(cb, _) := canon (hcm r) b in                                 (* :31 *)
  let cv' := (hcv r ∪ {[ca]}) ∖ {[cb]} in                            (* :34-35 *)
  let cm' := set_fold (fun v (acc : cmapT) => <[tog v := (ca, negb sa)]> (<[v := (ca, sa)]> acc))
               (hcm r) A' in                                         (* :37-39 *)
  (h6, n5, HRel p' cm' cv').

(* AliasRelation.remove, alias_relation.py:77-87 (heap untouched: the objects become garbage) *)
Definition hremove (h : heapT) (r : hrel) (a : svar) : hrel :=
  if a.1 then r else
  if decide (a.2 ∈ hcv r) then
    let R := hcls_at h (ptr r) a ∪ hcls_at h (ptr r) (tog a) in      (* :81 *)
    HRel (set_fold (fun v (acc : pmapT) => delete v acc) (ptr r) R)
         (set_fold (fun v (acc : cmapT) => delete v acc) (hcm r) R)
         (hcv r ∖ {[a.2]})
  else r.

(* AliasRelation.copy, alias_relation.py:95-96: EVERY KEY gets its own fresh copy of its set *)
Definition hcopy (h : heapT) (n : loc) (p : pmapT) : heapT * loc * pmapT :=
  map_fold (fun (k : svar) (l : loc) (acc : heapT * loc * pmapT) =>
      let '(h', n', p') := acc in
      (<[n' := hget h' l]> h', (n' + 1)%positive, <[k := n']> p'))
    (h, n, ∅) p.

Definition hupd (w : world) (i : nat) (f : heapT → loc → hrel → heapT * loc * hrel) : world :=
  match rels w !! i with
  | Some r => let '(h', n', r') := f (heap w) (next w) r in World h' n' (<[i := r']> (rels w))
  | None => w
  end.

Definition hstep (w : world) (o : op) : world :=
  match o with
  | Add i a b => hupd w i (fun h n r => hadd h n r a b)
  | Remove i a => hupd w i (fun h n r => (h, n, hremove h r a))
  | Copy i =>
      match rels w !! i with
      | Some r => let '(h', n', p') := hcopy (heap w) (next w) (ptr r) in
                  World h' n' (rels w ++ [HRel p' (hcm r) (hcv r)])
      | None => w
      end
  end.

Definition empty_hrel : hrel := HRel ∅ ∅ ∅.
Definition world0 : world := World ∅ 1%positive [empty_hrel].
Definition hrun (ops : list op) : world := fold_left hstep ops world0.

(* the MUTANT "shallow copy()": the copy shares the source's set objects *)
Definition hstep_shallow (w : world) (o : op) : world :=
  match o with
  | Copy i => match rels w !! i with
              | Some r => World (heap w) (next w) (rels w ++ [r])
              | None => w
              end
  | _ => hstep w o
  end.
Definition hrun_shallow (ops : list op) : world := fold_left hstep_shallow ops world0.

(* ---- observation used by the heap-level correspondence check ----
   per snapshot: for every relation and every universe element u, the value of aliases(u) and
   the identity of the set object stored under u in _aliases (0 = not a key; otherwise objects
   are numbered 1,2,... by first occurrence, scanning relations in order and the universe in
   order — so sharing inside a relation AND between relations is observed) *)
Fixpoint first_index (l : loc) (seen : list loc) (i : nat) : option nat :=
  match seen with [] => None | x :: s => if decide (x = l) then Some i else first_index l s (S i) end.

Fixpoint part_ids (p : pmapT) (U : list svar) (seen : list loc) : list nat * list loc :=
  match U with
  | [] => ([], seen)
  | k :: U' =>
      match p !! k with
      | None => let '(ids, s) := part_ids p U' seen in (0 :: ids, s)
      | Some l => match first_index l seen 1 with
                  | Some i => let '(ids, s) := part_ids p U' seen in (i :: ids, s)
                  | None => let '(ids, s) := part_ids p U' (seen ++ [l]) in (S (length seen) :: ids, s)
                  end
      end
  end.

Fixpoint part_all (U : list svar) (rs : list hrel) (seen : list loc) : list (list nat) :=
  match rs with
  | [] => []
  | r :: rs' => let '(ids, s) := part_ids (ptr r) U seen in ids :: part_all U rs' s
  end.

(* the value observations are those of the value-level check (obs_rel: aliases(u) and
   canonical_signed(u) per universe element, canonical_variables), now answered by the heap model *)
Definition hobs_matches (U : list svar) (w : world) (r : hrel) (o : obs_rel) : bool :=
  bool_decide (length o.1 = length U) &&
  forallb (fun '(k, (A, c)) =>
      bool_decide (hcls w r k = list_to_set A) && bool_decide (canon (hcm r) k = c))
    (zip U o.1) &&
  bool_decide (hcv r = list_to_set o.2).

Definition hobs_all (U : list svar) (w : world) (os : list obs_rel) (ids : list (list nat)) : bool :=
  bool_decide (length (rels w) = length os) &&
  forallb (fun '(r, o) => hobs_matches U w r o) (zip (rels w) os) &&
  bool_decide (part_all U (rels w) [] = ids).

Fixpoint hcheck_trace (U : list svar) (w : world) (ops : list op)
    (obs : list (list obs_rel)) (ids : list (list (list nat))) : bool :=
  match ops, obs, ids with
  | [], [], [] => true
  | o :: ops', ob :: obs', id :: ids' =>
      let w' := hstep w o in hobs_all U w' ob id && hcheck_trace U w' ops' obs' ids'
  | _, _, _ => false
  end.

(* a case = universe, ops, value observation after each op, object-identity ids after each op *)
Definition hcase : Type := list svar * list op * list (list obs_rel) * list (list (list nat)).
Definition check_case_heap (c : hcase) : bool :=
  let '(U, ops, obs, ids) := c in hcheck_trace U world0 ops obs ids.
Definition check_case_value (c : hcase) : bool := check_case c.1.
Definition check_case_both (c : hcase) : bool := check_case_value c && check_case_heap c.
