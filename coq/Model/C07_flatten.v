(* Model/C07_flatten.v — executable model of pymoca.tree.flatten on the C07/C08 subset
   (nested classes, extends, components, type aliases, scalar arrays, modifications, equations).
   Mirrors the code line by line, defects included; NO proofs here.
     flatten_extends            tree.py:262-343
     extends_builtin            tree.py:346-354
     build_instance_tree        tree.py:357-563 (redeclare and class-targeted modifications not modelled;
                                the eager instantiation of nested classes, 403-426, is represented by the
                                frame rule: a nested class found through an instance gets that instance as
                                parent chain while its extends clauses keep the lexical chain)
     flatten_symbols            tree.py:566-710
     ComponentRefFlattener      tree.py:713-791 (literal indices only, so the cut-off rule has no effect)
     modify_symbol              tree.py:838-875
     flatten                    tree.py:1233-1255 (expand_connectors: only the zero equation of
                                unconnected flow variables 1155-1158; add_state_value_equations 1166-1174)
*)
From Coq Require Import List ZArith Bool PArith.
From PV Require Import Lib.ClassTree Lib.Inst.
Import ListNotations.

Inductive err :=
| OutOfFuel
| ClassNotFound          (* ast.ClassNotFoundError *)
| IndexErr               (* IndexError *)
| ModTargetNotFound      (* tree.ModificationTargetNotFound *)
| KeyErr                 (* KeyError *)
| OtherExc.              (* Exception(...) raised explicitly *)

Inductive res (A : Type) := Ok (a : A) | Err (e : err).
Arguments Ok {A} a.
Arguments Err {A} e.

Definition bind {A B} (r : res A) (f : A -> res B) : res B :=
  match r with Ok a => f a | Err e => Err e end.
Notation "x <- r ;; k" := (bind r (fun x => k)) (at level 61, r at next level, right associativity).

(* ---------------------------------------------------------------- flatten_extends *)
Record ext_class := mkExt {
  x_kind : ident;
  x_classes : list entry;     (* OrderedDict classes: bases' first, then own (update) *)
  x_syms : list sym;          (* OrderedDict symbols: bases' first, then own (update) *)
  x_eqs : list eqn;
  x_menv : list marg          (* modification_environment.arguments *)
}.

Definition add_value_mods (m : list marg) (s : sym) : sym :=
  if Pos.eqb (s_name s) iValueSym
  then mkSym (s_name s) (s_type s) (s_prefixes s) (s_dims s) (s_mods s ++ m) else s.

Section WithLib.
  Variable root : list cdef.
  (* late = true: pymoca's definition-order rule is modelled (ilookup below); late = false: every nested
     class counts as instantiated before its users (what the code does when nested classes are defined
     before the classes that use them).  The real code is late = true. *)
  Variable late : bool.

  (* orig_class.find_class(extends.component, check_builtin_classes=True), tree.py:277 *)
  Definition find_base (c : cdef) (lex : path) (ref : path) : res (cdef * path) :=
    if mem_id (head_id ref) BUILTIN then Ok (builtin_class (head_id ref), [])
    else match lookup (own_frame c lex :: lex_scope root lex) ref with
         | Some (c', lex', _, _) => Ok (c', lex')
         | None => Err ClassNotFound
         end.

  Fixpoint flatten_extends (fuel : nat) (c : cdef) (lex : path) (menv : list marg) : res ext_class :=
    match fuel with
    | O => Err OutOfFuel
    | S f =>
        let n_ext := length (c_exts c) in
        let step (acc : res ext_class) (e : path * list marg) : res ext_class :=
          x <- acc ;;
          b <- find_base c lex (fst e) ;;
          let (bc, blex) := b in
          (* 279-280 *)
          if path_eqb (blex ++ [c_name bc]) (lex ++ [c_name c]) then Err OtherExc else
          (* 282-287 *)
          if Pos.eqb (c_kind bc) kBuiltin && (1 <? n_ext)%nat then Err OtherExc else
          let kind' := if Pos.eqb (c_kind bc) kBuiltin then kBuiltin else x_kind x in
          (* 289 *)
          r <- flatten_extends f bc blex (snd e) ;;
          (* 293-307 *)
          Ok (mkExt kind'
                (od_update e_key Pos.eqb (x_classes x) (x_classes r))
                (od_update s_name Pos.eqb (x_syms x) (x_syms r))
                (x_eqs x ++ x_eqs r)
                (x_menv x ++ x_menv r)) in
        x <- fold_left step (c_exts c) (Ok (mkExt (c_kind c) [] [] [] [])) ;;
        (* 314-328 *)
        let x1 := mkExt (x_kind x)
                    (od_update e_key Pos.eqb (x_classes x) (entries_of (lex ++ [c_name c]) (c_classes c)))
                    (od_update s_name Pos.eqb (x_syms x) (c_syms c))
                    (x_eqs x ++ c_eqs c)
                    (x_menv x ++ menv) in
        (* 331-341 *)
        if Pos.eqb (x_kind x1) kBuiltin
        then Ok (mkExt (x_kind x1) (x_classes x1) (map (add_value_mods (x_menv x1)) (x_syms x1))
                   (x_eqs x1) [])
        else Ok x1
    end.

  (* tree.py:346-354 *)
  Fixpoint extends_builtin (fuel : nat) (c : cdef) (lex : path) : res bool :=
    match fuel with
    | O => Err OutOfFuel
    | S f =>
        (fix go (es : list (path * list marg)) (ret : bool) : res bool :=
           match es with
           | [] => Ok ret
           | e :: es' =>
               if mem_id (head_id (fst e)) BUILTIN then Ok true
               else match lookup (own_frame c lex :: lex_scope root lex) (fst e) with
                    | Some (c', lex', _, _) =>
                        b <- extends_builtin f c' lex' ;; go es' (ret || b)
                    | None => Err ClassNotFound
                    end
           end) (c_exts c) false
    end.

  (* ---------------------------------------------------------------- instance tree *)
  Inductive inst := Inst (fullref : path) (kind : ident) (syms : list isym) (eqs : list eqn)
                         (menv : list marg)
  with isym := ISym (name : ident) (prefixes : list ident) (dims : list Z) (ty : ityp)
                    (cmods : list marg)
  with ityp := TyElem (t : path) | TyInst (i : inst).

  Definition targets (n : ident) (a : marg) : bool := Pos.eqb (head_id (m_target a)) n.

  (* 469-492 / 525-540: a value becomes the modification `value = e` with the argument's scope; the
     arguments of a class modification are passed on AS THEY ARE (their own scope, usually None) *)
  Definition to_symbol_mods (a : marg) : list marg :=
    flat_map (fun el => match el with
                        | MExpr e => [MArg (m_scope a) [aValue] [MExpr e]]
                        | MClass l => l
                        end) (m_mods a).

  (* 542-543: component = component.child[0] *)
  Definition shift_arg (a : marg) : res marg :=
    match m_target a with
    | _ :: (_ :: _) as t' => Ok (MArg (m_scope a) t' (m_mods a))
    | _ => Err IndexErr
    end.

  Fixpoint shift_args (l : list marg) : res (list marg) :=
    match l with
    | [] => Ok []
    | a :: l' => a' <- shift_arg a ;; r <- shift_args l' ;; Ok (a' :: r)
    end.

  (* 551-553 *)
  Definition set_scope (sc : path) (a : marg) : marg :=
    match a with MArg None t m => MArg (Some sc) t m | _ => a end.

  (* Two modification lists.  menv0 is processed as written (the first instantiation of the class).
     menv1 are the arguments that arrive when an ALREADY INSTANTIATED class object is instantiated again:
     a nested class found in the dictionary of an InstanceClass was instantiated eagerly (403-426), its
     symbols' types are InstanceClass objects, so for them line 445-448 takes c = sym.type, whose `extends`
     list is empty: extends_builtin(c) is False (518) and the argument is shifted (542) even when the
     type is an alias of a built-in.  The class's own modifications were consumed the first time. *)
  (* Definition-order rule.  build_instance_tree instantiates the nested classes of an instance eagerly,
     in dictionary order (403-426), each with the instance as parent.  While nested class number i is
     being instantiated, the entries number >= i of the instance's dictionary are still PARSED classes:
     a lookup that finds one of them copies the parsed class, whose .parent is its LEXICAL parent
     (ast.py:720-723), so it is instantiated in its lexical scope and does not see the classes that the
     enclosing model inherits; it is not an already instantiated class either.  f_limit of an instance
     frame records i for the parent chain of nested class i. *)
  Fixpoint od_index (n : ident) (es : list entry) (k : nat) : option nat :=
    match es with
    | [] => None
    | e :: es' => if Pos.eqb (e_key e) n then Some k else od_index n es' (S k)
    end.

  Definition set_limit (j : nat) (fr : frame) : frame :=
    mkFrame (f_owner fr) (f_inst fr) (f_entries fr) (Some j).

  Fixpoint ilookup (S : scope) (ref : path) {struct S} : option (cdef * path * scope * bool) :=
    match ref with
    | [] => None
    | n :: rest =>
        match S with
        | [] => None
        | fr :: S' =>
            match od_get e_key Pos.eqb n (f_entries fr), od_index n (f_entries fr) 0 with
            | Some e, Some j =>
                match descend (e_def e) (e_lex e) rest with
                | Some (c, lex) =>
                    let is_late := f_inst fr && match f_limit fr with Some L => (L <=? j)%nat | None => false end in
                    if is_late
                    then Some (c, lex, descend_frames (e_def e) (e_lex e) rest ++ lex_scope root (e_lex e), false)
                    else Some (c, lex,
                               descend_frames (e_def e) (e_lex e) rest
                                 ++ (if f_inst fr then set_limit j fr else fr) :: S',
                               f_inst fr)
                | None => ilookup S' ref
                end
            | _, _ => ilookup S' ref
            end
        end
    end.

  Definition mlookup (S : scope) (ref : path) := if late then ilookup S ref else lookup S ref.

  (* 441-561: the loop over the symbols of the class; `rec` = build with the remaining fuel,
     `ebi` = extends_builtin with the remaining fuel.  Returns the instantiated symbols and what is left
     of the two modification lists. *)
  Section BuildSyms.
    Variable rec : cdef -> path -> scope -> list marg -> list marg -> res inst.
    Variable ebi : cdef -> path -> res bool.
    Variable me : scope.
    Variable myref : path.
    Fixpoint build_syms (ss : list sym) (menv extra : list marg) (acc : list isym)
      : res (list isym * list marg) :=
      match ss with
      | [] => Ok (rev acc, menv ++ extra)
      | s :: ss' =>
          let n := s_name s in
          if mem_id (head_id (s_type s)) BUILTIN then
            (* 449-497: elementary symbol *)
            let mine (a : marg) := targets n a
                                   || (Pos.eqb n iValueSym && targets aValue a) in
            let keep (a : marg) := negb (mine a) in
            build_syms ss' (filter keep menv) (filter keep extra)
               (ISym n (s_prefixes s) (s_dims s) (TyElem (s_type s))
                     (s_mods s ++ flat_map to_symbol_mods (filter mine menv)
                              ++ flat_map to_symbol_mods (filter mine extra)) :: acc)
          else
            match mlookup me (s_type s) with
            | None => Err ClassNotFound
            | Some (tc, tlex, tparent, in_inst) =>
                (* 499-561 *)
                let keep (a : marg) := negb (targets n a) in
                let args0 := filter (targets n) menv in
                let args1 := filter (targets n) extra in
                ib <- (if in_inst : bool then Ok false else ebi tc tlex) ;;
                sm0 <- (if (ib : bool) then Ok (flat_map to_symbol_mods args0) else shift_args args0) ;;
                sm1 <- shift_args args1 ;;
                let own := map (set_scope myref) (s_mods s ++ sm0) in
                let new := map (set_scope myref) sm1 in
                i <- (if in_inst : bool then rec tc tlex tparent [] (own ++ new)
                      else rec tc tlex tparent own new) ;;
                build_syms ss' (filter keep menv) (filter keep extra)
                   (ISym n (s_prefixes s) (s_dims s) (TyInst i) [] :: acc)
            end
      end.
  End BuildSyms.

  Fixpoint build (fuel : nat) (c : cdef) (lex : path) (parent : scope) (menv0 menv1 : list marg)
    : res inst :=
    match fuel with
    | O => Err OutOfFuel
    | S f =>
        x0 <- flatten_extends f c lex menv0 ;;
        (* re-instantiating a __builtin instance: 331-341 moves the new arguments to __value as well *)
        let x := if Pos.eqb (x_kind x0) kBuiltin
                 then mkExt (x_kind x0) (x_classes x0) (map (add_value_mods menv1) (x_syms x0)) (x_eqs x0) (x_menv x0)
                 else x0 in
        let extra0 := if Pos.eqb (x_kind x0) kBuiltin then [] else menv1 in
        let names := map s_name (x_syms x) in
        (* 429-438 *)
        if negb (forallb (fun a => mem_id (head_id (m_target a)) names
                                   || mem_id (head_id (m_target a)) ATTRIBUTES) (x_menv x ++ extra0))
        then Err ModTargetNotFound else
        let me : scope := mkFrame (Some (c_name c)) true (x_classes x) None :: parent in
        let myref := scope_ref me in
        r <- build_syms (build f) (extends_builtin f) me myref (x_syms x) (x_menv x) extra0 [] ;;
        Ok (Inst myref (x_kind x) (fst r) (x_eqs x) (snd r))
    end.

  (* ---------------------------------------------------------------- flat symbols *)
  Record fsym := mkF {
    f_name : path;
    f_type : path;
    f_prefixes : list ident;
    f_dims : list Z;
    f_attrs : list (ident * expr);      (* attributes set so far (setattr), one entry per attribute *)
    f_cmods : list marg                 (* class_modification.arguments still to be applied *)
  }.

  (* list.remove: first occurrence only *)
  Fixpoint remove_first (x : ident) (l : list ident) : list ident :=
    match l with
    | [] => []
    | y :: l' => if Pos.eqb y x then l' else y :: remove_first x l'
    end.

  Definition strip_io (prefix : path) (pre : list ident) : list ident :=
    match prefix with
    | [] => pre
    | _ => remove_first pOutput (remove_first pInput pre)
    end.

  Definition set_attr (a : ident) (v : expr) (l : list (ident * expr)) : list (ident * expr) :=
    od_set fst Pos.eqb (a, v) l.

  Definition applies (sc : path) (a : marg) : bool :=
    match m_scope a with None => true | Some s => path_eqb s sc end.

  (* modify_symbol, tree.py:838-875: setattr in list order for the arguments whose scope is None or
     equals the current class; the others stay *)
  Fixpoint apply_args (l : list marg) (attrs : list (ident * expr)) : res (list (ident * expr)) :=
    match l with
    | [] => Ok attrs
    | a :: l' =>
        if negb (mem_id (head_id (m_target a)) ATTRIBUTES) then Err OtherExc else
        match m_mods a with
        | MExpr e :: _ => apply_args l' (set_attr (head_id (m_target a)) e attrs)
        | MClass _ :: _ => Err OtherExc          (* a ClassModification object as attribute: outside the subset *)
        | [] => Err IndexErr
        end
    end.

  Definition modify_symbol (sc : path) (s : fsym) : res fsym :=
    at' <- apply_args (filter (applies sc) (f_cmods s)) (f_attrs s) ;;
    Ok (mkF (f_name s) (f_type s) (f_prefixes s) (f_dims s) at'
            (filter (fun a => negb (applies sc a)) (f_cmods s))).

  Fixpoint map_res {A B} (f : A -> res B) (l : list A) : res (list B) :=
    match l with
    | [] => Ok []
    | a :: l' => b <- f a ;; r <- map_res f l' ;; Ok (b :: r)
    end.

  (* ComponentRefFlattener.enterComponentRef, tree.py:736-765 *)
  Fixpoint rename (cont : list path) (prefix : path) (e : expr) : expr :=
    match e with
    | ERef p idx => if mem_path (prefix ++ p) cont then ERef (prefix ++ p) idx else e
    | EOp o args => EOp o (map (rename cont prefix) args)
    | _ => e
    end.

  Definition rename_eqn cont prefix (q : eqn) : eqn :=
    (rename cont prefix (fst q), rename cont prefix (snd q)).

  (* arguments that carry a scope are not touched (inside_modification), 728-755 *)
  Fixpoint rename_marg (cont : list path) (prefix : path) (a : marg) : marg :=
    match a with
    | MArg None t ms =>
        MArg None t (map (fun v => match v with
                                   | MExpr e => MExpr (rename cont prefix e)
                                   | MClass l => MClass (map (rename_marg cont prefix) l)
                                   end) ms)
    | _ => a
    end.

  Definition rename_fsym cont prefix (s : fsym) : fsym :=
    mkF (f_name s) (f_type s) (f_prefixes s) (f_dims s)
        (map (fun av => (fst av, rename cont prefix (snd av))) (f_attrs s))
        (map (rename_marg cont prefix) (f_cmods s)).

  Definition f_update (l new : list fsym) : list fsym := od_update f_name path_eqb l new.

  Definition value_sym (ss : list isym) : option isym :=
    find (fun s => match s with ISym n _ _ _ _ => Pos.eqb n iValueSym end) ss.

  (* 600-604 *)
  Definition collapses (i : inst) : option isym :=
    match i with
    | Inst _ k ss _ _ =>
        match value_sym ss with
        | Some v =>
            let tn := match v with ISym _ _ _ (TyElem t) _ => head_id t | _ => xH end in
            if Pos.eqb k kBuiltin || (Pos.eqb k kType && mem_id tn BUILTIN) then Some v else None
        | None => None
        end
    end.

  (* 583-653: the loop over the symbols of the instance class; `rec` = flatten_symbols *)
  Definition fs_go (rec : inst -> path -> res (list fsym * list eqn)) (prefix : path) :=
    fix go (ss : list isym) (flat : list fsym) (feqs : list eqn) : res (list fsym * list eqn) :=
      match ss with
      | [] => Ok (flat, feqs)
      | ISym n pre dims ty cm :: ss' =>
          let name := prefix ++ [n] in
          let pre' := strip_io prefix pre in
          match ty with
          | TyElem t =>
              (* 596-599 *)
              go ss' (f_update flat [mkF name t pre' dims [] cm]) feqs
          | TyInst sub =>
              match collapses sub with
              | Some (ISym _ _ _ vty vcm) =>
                  (* 600-625 *)
                  let t := match vty with TyElem t => t | TyInst _ => [] end in
                  go ss' (f_update flat [mkF name t pre' dims [] (cm ++ vcm)]) feqs
              | None =>
                  (* 626-641 *)
                  r <- rec sub name ;;
                  let subsyms :=
                    map (fun s => mkF (f_name s) (f_type s) (f_prefixes s)
                                      (dims ++ f_dims s) (f_attrs s) (f_cmods s)) (fst r) in
                  go ss' (f_update flat subsyms) (feqs ++ snd r)
              end
          end
      end.

  (* 656-673: apply the modifications whose scope is this class, rename references *)
  Definition fs_finish (myref prefix : path) (eqs : list eqn) (r : list fsym * list eqn)
    : res (list fsym * list eqn) :=
    let (flat, feqs) := r in
    flat1 <- map_res (modify_symbol myref) flat ;;
    let cont := map f_name flat1 in
    let flat2 := map (rename_fsym cont prefix) flat1 in
    Ok (flat2, feqs ++ map (rename_eqn cont prefix) eqs).

  Fixpoint flatten_symbols (i : inst) (prefix : path) {struct i} : res (list fsym * list eqn) :=
    match i with
    | Inst myref kind syms eqs _ =>
        r <- fs_go flatten_symbols prefix syms [] [] ;;
        fs_finish myref prefix eqs r
    end.

  (* ---------------------------------------------------------------- flatten *)
  Definition has_value (s : fsym) : option expr :=
    option_map snd (od_get fst Pos.eqb aValue (f_attrs s)).

  Definition is_state_like (s : fsym) : bool :=
    negb (mem_id pParam (f_prefixes s) || mem_id pConstant (f_prefixes s)).

  (* 1155-1158 *)
  Definition flow_eqs (l : list fsym) : list eqn :=
    flat_map (fun s => if mem_id pFlow (f_prefixes s) then [(ERef (f_name s) [], ENum 0)] else []) l.

  (* 1166-1174 *)
  Definition value_eqs (l : list fsym) : list eqn :=
    flat_map (fun s => match has_value s with
                       | Some v => if is_state_like s then [(ERef (f_name s) [], v)] else []
                       | None => []
                       end) l.

  Definition drop_value (s : fsym) : fsym :=
    if is_state_like s
    then mkF (f_name s) (f_type s) (f_prefixes s) (f_dims s)
             (filter (fun av => negb (Pos.eqb (fst av) aValue)) (f_attrs s)) (f_cmods s)
    else s.

  Definition FUEL : nat := 64.

  Definition flatten (top : path) : res (list fsym * list eqn) :=
    match lookup (lex_scope root []) top with
    | None => Err ClassNotFound
    | Some (c, lex, parent, _) =>
        i <- build FUEL c lex parent [] [] ;;
        r <- flatten_symbols i [] ;;
        let (flat, eqs) := r in
        Ok (map drop_value flat, eqs ++ flow_eqs flat ++ value_eqs flat)
    end.
End WithLib.

(* ---------------------------------------------------------------- correspondence *)
(* observed flat model: symbols in order (name, type, prefixes, dims, attributes in ATTRIBUTES order
   without defaults, number of pending modification arguments) and equations in order *)
Definition osym := (path * path * list ident * list Z * list (ident * expr) * nat)%type.
Inductive outcome := OErr (e : err) | OFlat (syms : list osym) (eqs : list eqn).

Definition canon_attrs (l : list (ident * expr)) : list (ident * expr) :=
  flat_map (fun a => match od_get fst Pos.eqb a l with
                     | Some (_, EBool false) => if Pos.eqb a aFixed then [] else [(a, EBool false)]
                     | Some (_, v) => [(a, v)]
                     | None => []
                     end) ATTRIBUTES.

Definition attr_eqb (a b : ident * expr) : bool := Pos.eqb (fst a) (fst b) && expr_eqb (snd a) (snd b).

Definition osym_of (s : fsym) : osym :=
  (f_name s, f_type s, f_prefixes s, f_dims s, canon_attrs (f_attrs s), length (f_cmods s)).

Definition osym_eqb (a b : osym) : bool :=
  match a, b with
  | (n, t, p, d, at_, k), (n', t', p', d', at', k') =>
      path_eqb n n' && path_eqb t t' && list_eqb Pos.eqb p p' && list_eqb Z.eqb d d'
      && list_eqb attr_eqb at_ at' && Nat.eqb k k'
  end.

Definition err_eqb (a b : err) : bool :=
  match a, b with
  | OutOfFuel, OutOfFuel | ClassNotFound, ClassNotFound | IndexErr, IndexErr
  | ModTargetNotFound, ModTargetNotFound | KeyErr, KeyErr | OtherExc, OtherExc => true
  | _, _ => false
  end.

Definition outcome_of (r : res (list fsym * list eqn)) : outcome :=
  match r with
  | Err e => OErr e
  | Ok (ss, es) => OFlat (map osym_of ss) es
  end.

Definition outcome_eqb (a b : outcome) : bool :=
  match a, b with
  | OErr e, OErr e' => err_eqb e e'
  | OFlat s q, OFlat s' q' => list_eqb osym_eqb s s' && list_eqb eqn_eqb q q'
  | _, _ => false
  end.

Definition model_outcome (lib : list cdef) (top : path) : outcome := outcome_of (flatten lib true top).

Definition check_case (c : list cdef * path * outcome) : bool :=
  match c with (lib, top, o) => outcome_eqb (model_outcome lib top) o end.

(* ---------------------------------------------------------------- the SPEC next to the real flat model *)
(* second comparison of every run: the observed flat model against Lib/Inst.v `inst` (ordered variables,
   multiset of equations), on the libraries outside the recorded defect shapes *)
Definition ovar_of (v : flatvar) : osym :=
  (v_name v, v_type v, v_prefixes v, v_dims v,
   canon_attrs (map (fun aew => match aew with (a, e, _) => (a, e) end) (v_attrs v)), 0%nat).

Fixpoint remove_eqn (q : eqn) (l : list eqn) : option (list eqn) :=
  match l with
  | [] => None
  | x :: l' => if eqn_eqb q x then Some l'
               else match remove_eqn q l' with Some r => Some (x :: r) | None => None end
  end.

Fixpoint perm_eqb (a b : list eqn) : bool :=
  match a with
  | [] => match b with [] => true | _ => false end
  | q :: a' => match remove_eqn q b with Some b' => perm_eqb a' b' | None => false end
  end.

Definition spec_outcome_eqb (r : option (list flatvar * list eqn)) (o : outcome) : bool :=
  match r, o with
  | Some (vs, qs), OFlat syms eqs => list_eqb osym_eqb (map ovar_of vs) syms && perm_eqb qs eqs
  | _, _ => false
  end.

Definition check_spec (c : list cdef * path * outcome) : bool :=
  match c with (lib, top, o) => spec_outcome_eqb (PV.Lib.Inst.inst lib top) o end.
