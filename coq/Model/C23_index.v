(* C23 — executable model of the subscript handling of the CasADi generator
   (src/pymoca/backends/casadi/generator.py: ForLoop.__init__ 49-61, register_indexed_symbol 63-72,
   get_indexed_symbol 829-946) together with the CasADi/NumPy indexing semantics it relies on.
   One array dimension of declared size n; selections are lists of 1-based element numbers in the
   order the generated residual lists them.  No proofs in this file. *)
From Coq Require Import ZArith List Bool.
Import ListNotations.
Open Scope Z_scope.

(* outcome of generate(): a selection, pymoca's own range check (ValueError), or any other
   exception (CasADi assertion, ZeroDivisionError, ...) *)
Inductive res (A : Type) : Type := Ok (x : A) | ErrV | ErrB.
Arguments Ok {A} x. Arguments ErrV {A}. Arguments ErrB {A}.

Definition rmap {A B} (f : A -> B) (r : res A) : res B :=
  match r with Ok x => Ok (f x) | ErrV => ErrV | ErrB => ErrB end.

Fixpoint mapM {A B} (f : A -> res B) (l : list A) : res (list B) :=
  match l with
  | [] => Ok []
  | x :: l' => match f x with
               | Ok y => match mapM f l' with Ok ys => Ok (y :: ys) | ErrV => ErrV | ErrB => ErrB end
               | ErrV => ErrV | ErrB => ErrB end
  end.

(* integer index expressions of the loop variable: k-i, 2*i-k, (i-k)*(i-k), i*i-k, ... *)
Inductive lexp : Type :=
| LVar | LConst (k : Z) | LAdd (a b : lexp) | LSub (a b : lexp) | LMul (a b : lexp).
Fixpoint leval (e : lexp) (i : Z) : Z :=
  match e with
  | LVar => i | LConst k => k
  | LAdd a b => leval a i + leval b i | LSub a b => leval a i - leval b i
  | LMul a b => leval a i * leval b i
  end.
Definition is_var (e : lexp) : bool := match e with LVar => true | _ => false end.

(* what the source says, after get_integer (640-689) evaluated the constant expressions *)
Inductive sub : Type :=
| Int (i : Z)                 (* x[i] *)
| Colon                       (* x[:] *)
| Sl (a b : Z)                (* x[a:b] *)
| Sl3 (a b c : Z)             (* x[a:b:c], source order *)
| LoopV (a b off : Z)         (* for i in a:b loop ... x[i+off] *)
| LoopV3 (a b c off : Z)      (* for i in a:b:c loop ... x[i+off] *)
| LoopX (a b : Z) (e : lexp)  (* for i in a:b loop ... x[e(i)], e any integer expression of i *)
| LoopX3 (a b c : Z) (e : lexp). (* for i in a:b:c loop ... x[e(i)] *)

(* which of the repairs the tree under test contains (derived from its behaviour by the
   check; all false = /repo as of round 1; /repo after 05b675f, f098077, f8eb4b4 = true true false true) *)
Record cfg : Type := Cfg {
  chk_slice : bool;   (* constant slice bounds are range-checked (fixes/C23_slice_range_check.diff) *)
  chk_loop : bool;    (* for-loop indices are range-checked (fixes/C23_loop_index_range_check.diff) *)
  mod3 : bool;        (* a:b:c is read start:step:stop and loop values stop at `stop` (no fix yet) *)
  empty_ok : bool;    (* register_indexed_symbol skips the index-expression map for an empty loop range
                         (/repo f8eb4b4): `for i in 3:1 loop x[i+1]` selects nothing instead of failing *)
  chk_scalar_loop : bool  (* the bare loop variable as subscript of a SCALAR is rejected like every other
                         subscript on a scalar (fixes/C23_loop_subscript_on_scalar.diff) *)
}.

(* ---- Python / NumPy ranges ------------------------------------------------------------- *)
(* len(range(start, stop, step)) == len(np.arange(start, stop, step)) for integers, step <> 0 *)
Definition pylen (start stop step : Z) : Z :=
  if 0 <? step then (if start <? stop then (stop - start + step - 1) / step else 0)
  else if step <? 0 then (if stop <? start then (start - stop - step - 1) / (- step) else 0)
  else 0.

Definition pyrange (start stop step : Z) : list Z :=
  map (fun i => start + Z.of_nat i * step) (seq 0 (Z.to_nat (pylen start stop step))).

Definition sgn1 (step : Z) : Z := if 0 <? step then 1 else -1.

(* ---- CasADi indexing (casadi 3.x: Slice::all / MX::get with an index vector) -------------- *)
(* an integer position k of a length-n vector: [-n, -1] wraps to the end, outside [-n, n) fails *)
Definition ca_wrap (n k : Z) : res Z :=
  if (k <? - n) || (n <=? k) then ErrB else Ok (if k <? 0 then k + n else k).

(* x[slice(start, stop, step)] on an MX of length n; None = Python None.  0-based result *)
Definition ca_slice (n : Z) (start stop : option Z) (step : Z) : res (list Z) :=
  if step =? 0 then ErrB else
  let start' := match start with
                | None => if step <? 0 then n - 1 else 0
                | Some s => if s <? 0 then s + n else s end in
  let stop' := match stop with
               | None => if step <? 0 then -1 else n
               | Some s => if s <? 0 then s + n else s end in
  if n <? stop' then ErrB else
  if start' <? 0 then ErrB else
  if ((start' <=? stop') && (step <? 0)) || ((stop' <=? start') && (0 <? step)) then Ok [] else
  if n <=? start' then ErrB else
  mapM (ca_wrap n) (pyrange start' stop' step).

Definition shift1 (r : res (list Z)) : res (list Z) := rmap (map (fun k => k + 1)) r.

Definition in1n (n k : Z) : bool := (1 <=? k) && (k <=? n).
Definition all_in (n : Z) (l : list Z) : bool := forallb (in1n n) l.

(* ---- generator.py:900-902 (and the repaired version) ------------------------------------ *)
Definition slice_path (c : cfg) (n first last step : Z) : res (list Z) :=
  if chk_slice c then
    (* repaired: picked = range(first, last +- 1, step); empty -> slice(0,0,1); endpoints outside
       [1,dim] -> ValueError; else slice(picked[0]-1, end (None if < 0), step) *)
    if step =? 0 then ErrV else
    let picked := pyrange first (last + sgn1 step) step in
    match picked with
    | [] => shift1 (ca_slice n (Some 0) (Some 0) 1)
    | p0 :: _ =>
        let pl := List.last picked p0 in
        if (Z.min p0 pl <? 1) || (n <? Z.max p0 pl) then ErrV else
        let e := pl - 1 + sgn1 step in
        shift1 (ca_slice n (Some (p0 - 1)) (if e <? 0 then None else Some e) step)
    end
  else
    (* as coded :902  sl = slice(sl.start - 1, sl.stop, sl.step) *)
    shift1 (ca_slice n (Some (first - 1)) (Some last) step).

(* ---- ForLoop.__init__ :55-58, register_indexed_symbol :63-72, exitForEquation :463,512 ---- *)
(* f = the index expression as a function of the loop value (evaluated pointwise by mapping a CasADi
   function over the values, :65-69); bare = the subscript is the loop variable itself (:70-71) *)
Definition loop_pathF (c : cfg) (n start stop step : Z) (f : Z -> Z) (bare : bool) : res (list Z) :=
  if step =? 0 then ErrB (* np.arange: ZeroDivisionError *) else
  let values := pyrange start (if mod3 c then stop + sgn1 step else stop + step) step in   (* :58 *)
  let indices := map f values in                                                           (* :64-71 *)
  (* :65-68 an index expression other than the bare loop variable is evaluated by mapping a CasADi
     function over the loop values; CasADi refuses a map over zero values *)
  if negb bare && negb (empty_ok c) && (match values with [] => true | _ => false end) then ErrB else
  if chk_loop c && negb (all_in n indices) then ErrV else     (* repaired: np.min < 1 or np.max > dim, over ALL indices *)
  shift1 (mapM (ca_wrap n) (map (fun k => k - 1) indices)).   (* :72 indices - 1, :512 orig_symbol[indices] *)
Definition loop_path (c : cfg) (n start stop step off : Z) : res (list Z) :=
  loop_pathF c n start stop step (fun v => v + off) (off =? 0).

(* ---- get_indexed_symbol, one (index, dim) pair of the loop at :858-906 -------------------- *)
Definition index (c : cfg) (n : Z) (u : sub) : res (list Z) :=
  match u with
  | Int i => if (i <=? 0) || (n <? i) then ErrV else shift1 (rmap (fun k => [k]) (ca_wrap n (i - 1)))  (* :886-899, :944 *)
  | Colon => if chk_slice c then slice_path c n 1 n 1                       (* repaired: first=1, last=dim *)
             else shift1 (ca_slice n None None 1)                           (* :875, :902 *)
  | Sl a b => slice_path c n a b 1
  | Sl3 a b c3 => if mod3 c then slice_path c n a c3 b else slice_path c n a b c3   (* parser.py:344-352 *)
  | LoopV a b off => loop_path c n a b 1 off
  | LoopV3 a b c3 off => if mod3 c then loop_path c n a c3 b off else loop_path c n a b c3 off
  | LoopX a b e => loop_pathF c n a b 1 (leval e) (is_var e)
  | LoopX3 a b c3 e => if mod3 c then loop_pathF c n a c3 b (leval e) (is_var e)
                       else loop_pathF c n a b c3 (leval e) (is_var e)
  end.

(* ---- the specification: Modelica subscripts (1-based, inclusive, start:step:stop) ---------- *)
Definition guard (n : Z) (l : list Z) : res (list Z) := if all_in n l then Ok l else ErrV.

Definition mrange (a s b : Z) : list Z := pyrange a (b + sgn1 s) s.

Definition modelica (n : Z) (u : sub) : res (list Z) :=
  match u with
  | Int i => guard n [i]
  | Colon => Ok (mrange 1 1 n)
  | Sl a b => guard n (mrange a 1 b)
  | Sl3 a s b => guard n (mrange a s b)
  | LoopV a b off => guard n (map (fun v => v + off) (mrange a 1 b))
  | LoopV3 a s b off => guard n (map (fun v => v + off) (mrange a s b))
  | LoopX a b e => guard n (map (leval e) (mrange a 1 b))
  | LoopX3 a s b e => guard n (map (leval e) (mrange a s b))
  end.

(* the step of a subscript, for the side condition "step <> 0" *)
Definition step_of (u : sub) : Z :=
  match u with Sl3 _ s _ => s | LoopV3 _ s _ _ => s | LoopX3 _ s _ _ => s | _ => 1 end.
Definition three_part (u : sub) : bool :=
  match u with Sl3 _ _ _ => true | LoopV3 _ _ _ _ => true | LoopX3 _ _ _ _ => true | _ => false end.

(* ---- two dimensions: the selection is the product of the per-dimension selections ---------- *)
Definition prod2 (l1 l2 : list Z) : list (Z * Z) :=
  flat_map (fun c => map (fun r => (r, c)) l1) l2.
Definition is_loop (u : sub) : bool :=
  match u with LoopV _ _ _ => true | LoopV3 _ _ _ _ => true | LoopX _ _ _ => true | LoopX3 _ _ _ _ => true | _ => false end.
(* when the error of a dimension surfaces: the ValueErrors of scalar and slice subscripts are raised
   inside the loop over the dimensions (:858-906); then the non-loop dimension is handed to CasADi
   (:911/:932 or :944-946); then register_indexed_symbol checks the loop indices (repaired code);
   the loop indices reach CasADi last (exitForEquation :512) *)
Definition loop_step (c : cfg) (u : sub) : Z :=
  match u with LoopV3 _ b c3 _ => if mod3 c then b else c3 | LoopX3 _ b c3 _ => if mod3 c then b else c3 | _ => 1 end.
Definition stage {A} (lp : bool) (r : res A) : Z :=
  match r with Ok _ => 9 | ErrV => if lp then 3 else 1 | ErrB => if lp then 4 else 2 end.
Definition index2 (c : cfg) (n m : Z) (u v : sub) : res (list (Z * Z)) :=
  let r1 := index c n u in let r2 := index c m v in
  (* a zero loop step stops ForLoop.__init__ (:58, enterForEquation) before any subscript is looked at *)
  if (is_loop u && (loop_step c u =? 0)) || (is_loop v && (loop_step c v =? 0)) then ErrB else
  match r1, r2 with
  | Ok l1, Ok l2 => Ok (prod2 l1 l2)
  | _, _ => if Z.odd (Z.min (stage (is_loop u) r1) (stage (is_loop v) r2)) then ErrV else ErrB
  end.
Definition modelica2 (n m : Z) (u v : sub) : res (list (Z * Z)) :=
  match modelica n u, modelica m v with
  | Ok l1, Ok l2 => Ok (prod2 l1 l2)
  | ErrV, _ => ErrV | ErrB, _ => ErrB | Ok _, ErrV => ErrV | Ok _, ErrB => ErrB
  end.

(* ---- subscripts on a SCALAR symbol (dim is None at :858-906), incl. a scalar member of a component
   array (a[1].x[..]) and a scalar component (a[..].v[1]) ------------------------------------------- *)
Definition bare_loop (u : sub) : bool :=
  match u with
  | LoopV _ _ off => off =? 0 | LoopV3 _ _ _ off => off =? 0 | LoopX _ _ e => is_var e | LoopX3 _ _ _ e => is_var e
  | _ => false end.
(* k = size1() of what the loop ends up indexing: 1 for a scalar / scalar member, the length of v for
   a[i].v[1] with a scalar component a (the loop variable then runs over v's dimension) *)
Definition index_scalar (c : cfg) (k : Z) (u : sub) : res (list Z) :=
  if is_loop u && (loop_step c u =? 0) then ErrB        (* ForLoop.__init__ runs first *)
  else if bare_loop u && negb (chk_scalar_loop c)
       (* :864-869 sl = the loop's index variable, so the `sl is None` block with the "not an array" test
          (:876-885) is skipped; the symbol is then indexed like a dimension of size1() = k *)
       then index c k u
  else ErrV.                                             (* :876-885 "... but this symbol is not an array" *)
(* specification: a subscript on a scalar is always an error *)
Definition modelica_scalar (u : sub) : res (list Z) := ErrV.

(* ---- correspondence ------------------------------------------------------------------------ *)
(* observed outcome: 0 = selection, 1 = ValueError, 2 = other exception.  A selection is the list of
   r (1-D, in residual order) or of r*100+c sorted ascending (2-D, order canonicalised) *)
Fixpoint insert (x : Z) (l : list Z) : list Z :=
  match l with [] => [x] | y :: l' => if x <=? y then x :: l else y :: insert x l' end.
Definition sortZ (l : list Z) : list Z := fold_right insert [] l.

Definition eqb_listZ (a b : list Z) : bool :=
  (Nat.eqb (length a) (length b)) && forallb (fun p => fst p =? snd p) (combine a b).

Definition obs_eq (r : res (list Z)) (kind : Z) (sel : list Z) : bool :=
  match r with
  | Ok l => (kind =? 0) && eqb_listZ l sel
  | ErrV => kind =? 1
  | ErrB => kind =? 2
  end.

(* case = (n, u, optional second dimension (m, v), observed kind, observed selection).
   In two dimensions the error of the second dimension can surface before that of the first is
   looked at only if the first is fine, which index2 mirrors; a backend error (kind 2) raised while
   the other dimension would raise ValueError is matched exactly as well. *)
Definition check_case (c : cfg) (x : Z * sub * option (Z * sub) * Z * list Z) : bool :=
  let '(n, u, d2, kind, sel) := x in
  match d2 with
  | None => obs_eq (index c n u) kind sel
  | Some (m, v) => obs_eq (rmap (fun l => sortZ (map (fun p => fst p * 100 + snd p) l)) (index2 c n m u v)) kind sel
  end.

(* scalar symbols: case = (k, u, observed kind, observed selection (rows r, in residual order)) *)
Definition check_scalar (c : cfg) (x : Z * sub * Z * list Z) : bool :=
  let '(k, u, kind, sel) := x in obs_eq (index_scalar c k u) kind sel.

(* ---- several consecutive for-equations on the same array: the walker handles them one after the
   other (enter, body, exit), each with a fresh ForLoop, so the outcome is the first error in order,
   else the concatenation of the selections -------------------------------------------------------- *)
Fixpoint seqM (rs : list (res (list Z))) : res (list Z) :=
  match rs with
  | [] => Ok []
  | r :: rs' => match r with
                | Ok l => match seqM rs' with Ok l' => Ok (l ++ l') | ErrV => ErrV | ErrB => ErrB end
                | ErrV => ErrV | ErrB => ErrB end
  end.
Definition index_multi (c : cfg) (n : Z) (us : list sub) : res (list Z) := seqM (map (index c n) us).
Definition modelica_multi (n : Z) (us : list sub) : res (list Z) := seqM (map (modelica n) us).
Definition check_multi (c : cfg) (x : Z * list sub * Z * list Z) : bool :=
  let '(n, us, kind, sel) := x in obs_eq (index_multi c n us) kind sel.

(* for-statement in a function body (exitForStatement uses the same ForLoop / register_indexed_symbol):
   only the multiset of selected elements is observable (sum of weighted elements), so compare sorted *)
Definition check_func (c : cfg) (x : Z * sub * Z * list Z) : bool :=
  let '(n, u, kind, sel) := x in obs_eq (rmap sortZ (index c n u)) kind sel.

(* ---- nested for-equations: for O in oa:ob loop for i in .. loop x[e(i)] .. -- the outer index is not used
   in the subscript; `shadow` = the inner index reuses the outer name.  get_indexed_symbol must resolve the
   subscript's index name to the INNERMOST loop of that name, so the outcome does not depend on `shadow` nor
   on the outer range: the inner for-equation is generated once per outer value ---------------------------- *)
Fixpoint repeat_app (k : nat) (l : list Z) : list Z :=
  match k with O => [] | S k' => l ++ repeat_app k' l end.
Definition outer_count (oa ob : Z) : nat := length (pyrange oa (ob + 1) 1).
Definition index_nested (c : cfg) (n oa ob : Z) (u : sub) (shadow : bool) : res (list Z) :=
  rmap (repeat_app (outer_count oa ob)) (index c n u).
Definition modelica_nested (n oa ob : Z) (u : sub) : res (list Z) :=
  rmap (repeat_app (outer_count oa ob)) (modelica n u).
(* observed rows are compared as a multiset (sorted) *)
Definition check_nested (c : cfg) (x : Z * Z * Z * sub * bool * Z * list Z) : bool :=
  let '(n, oa, ob, u, shadow, kind, sel) := x in
  obs_eq (rmap sortZ (index_nested c n oa ob u shadow)) kind sel.
