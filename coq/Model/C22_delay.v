(* C22 — delay durations are validated and delay arguments preserved.
   Executable model (no proofs) of
     generator.py  exitExpression, op == "delay"   (326-345): post-order creation of delayed-state inputs
     generator.py  exitForEquation                 (470-525): per-iteration vector for indexed loop delays;
                                                              the duration is left untouched (known finding)
     model.py      _post_checks                    (155-171): the disallowed-symbol list and ca.depends_on
     model.py      delay_arguments_function        (1427-1465): flattened [expr_0, dur_0, expr_1, dur_1, ...]
   Expressions are polynomial ASTs over Z; CasADi's construction-time folding is modelled by `norm`
   (literal folding, x*0, 0*x) — validated by the correspondence check, not verified. *)
From Coq Require Import ZArith List Bool Arith.
Import ListNotations.

Inductive vkind := KConst | KParam | KInput (fixed : bool) | KPlain.
Record decl := mkDecl { d_id : nat; d_kind : vkind }.

(* symbols a CasADi expression can contain.  SLoop v / SIndex are the loop-body placeholders
   (`v[i]` and `i`) that only exist while a for-equation is being translated. *)
Inductive sym := STime | SVar (v : nat) | SDer (v : nat) | SLoop (v : nat) | SIndex.

Inductive expr :=
| Num (z : Z)
| Ref (s : sym)
| Elem (v k : nat)                 (* v[k], constant 1-based subscript: depends on the whole symbol v *)
| Add (a b : expr) | Sub (a b : expr) | Mul (a b : expr) | Neg (a : expr)
| Delay (e d : expr)
(* piecewise constructs: `if c1 > c2 (ge = false) / c1 >= c2 (ge = true) then a else b`, abs, min, max *)
| Ite (ge : bool) (c1 c2 a b : expr)
| Abs (a : expr) | Min (a b : expr) | Max (a b : expr).

Inductive eqn :=
| Eq (l r : expr)
| For (lo hi : nat) (body : list (expr * expr)).

Record model := mkModel { m_decls : list decl; m_eqs : list eqn; m_base : nat }.

Definition sym_eqb (a b : sym) : bool :=
  match a, b with
  | STime, STime => true
  | SVar x, SVar y => Nat.eqb x y
  | SDer x, SDer y => Nat.eqb x y
  | SLoop x, SLoop y => Nat.eqb x y
  | SIndex, SIndex => true
  | _, _ => false
  end.

Definition mem_sym (s : sym) (l : list sym) : bool := existsb (sym_eqb s) l.
Definition mem_nat (n : nat) (l : list nat) : bool := existsb (Nat.eqb n) l.

(* ---- CasADi folding at construction (MX binary/unary on constants; multiplication by zero) ---- *)
Fixpoint norm (e : expr) : expr :=
  match e with
  | Num z => Num z
  | Ref s => Ref s
  | Elem v k => Elem v k
  | Add a b => match norm a, norm b with Num x, Num y => Num (x + y) | a', b' => Add a' b' end
  | Sub a b => match norm a, norm b with Num x, Num y => Num (x - y) | a', b' => Sub a' b' end
  | Mul a b => match norm a, norm b with
               | Num x, Num y => Num (x * y)
               | Num x, b' => if Z.eqb x 0 then Num 0 else Mul (Num x) b'
               | a', Num y => if Z.eqb y 0 then Num 0 else Mul a' (Num y)
               | a', b' => Mul a' b'
               end
  | Neg a => match norm a with Num x => Num (- x) | a' => Neg a' end
  | Delay a d => Delay (norm a) (norm d)
  | Ite g c1 c2 a b => Ite g (norm c1) (norm c2) (norm a) (norm b)   (* ca.if_else keeps its condition *)
  | Abs a => Abs (norm a)
  | Min a b => Min (norm a) (norm b)
  | Max a b => Max (norm a) (norm b)
  end.

(* free symbols (ca.symvar); a Delay node never survives translation *)
Fixpoint fsyms (e : expr) : list sym :=
  match e with
  | Num _ => []
  | Ref s => [s]
  | Elem v _ => [SVar v]
  | Add a b | Sub a b | Mul a b | Delay a b | Min a b | Max a b => fsyms a ++ fsyms b
  | Neg a | Abs a => fsyms a
  | Ite _ c1 c2 a b => fsyms c1 ++ fsyms c2 ++ fsyms a ++ fsyms b     (* the condition's symbols count *)
  end.

Fixpoint has_elem (e : expr) : bool :=
  match e with
  | Elem _ _ => true
  | Num _ | Ref _ => false
  | Add a b | Sub a b | Mul a b | Delay a b | Min a b | Max a b => has_elem a || has_elem b
  | Neg a | Abs a => has_elem a
  | Ite _ c1 c2 a b => has_elem c1 || has_elem c2 || has_elem a || has_elem b
  end.

Definition deps (e : expr) : list sym := fsyms (norm e).

Definition is_loop_sym (s : sym) : bool := match s with SLoop _ | SIndex => true | _ => false end.
Definition is_sloop (s : sym) : bool := match s with SLoop _ => true | _ => false end.

(* ---- translation: generator.py:326-345.  The walker visits operands first (post-order); the k-th
   delay call becomes the input symbol _pymoca_delay_k = SVar (base + k) and appends DelayArgument. ---- *)
Record drec := mkD { dr_expr : expr; dr_dur : expr; dr_loop : option (nat * nat) }.

Fixpoint tr (base : nat) (loop : option (nat * nat)) (e : expr) (st : list drec) : expr * list drec :=
  match e with
  | Num _ | Ref _ | Elem _ _ => (e, st)
  | Add a b => let (a', s1) := tr base loop a st in let (b', s2) := tr base loop b s1 in (Add a' b', s2)
  | Sub a b => let (a', s1) := tr base loop a st in let (b', s2) := tr base loop b s1 in (Sub a' b', s2)
  | Mul a b => let (a', s1) := tr base loop a st in let (b', s2) := tr base loop b s1 in (Mul a' b', s2)
  | Neg a => let (a', s1) := tr base loop a st in (Neg a', s1)
  | Abs a => let (a', s1) := tr base loop a st in (Abs a', s1)
  | Min a b => let (a', s1) := tr base loop a st in let (b', s2) := tr base loop b s1 in (Min a' b', s2)
  | Max a b => let (a', s1) := tr base loop a st in let (b', s2) := tr base loop b s1 in (Max a' b', s2)
  | Ite g c1 c2 a b =>                      (* conditions are walked before the branch expressions *)
      let (c1', s1) := tr base loop c1 st in let (c2', s2) := tr base loop c2 s1 in
      let (a', s3) := tr base loop a s2 in let (b', s4) := tr base loop b s3 in
      (Ite g c1' c2' a' b', s4)
  | Delay a d =>
      let (a', s1) := tr base loop a st in
      let (d', s2) := tr base loop d s1 in
      (Ref (SVar (base + length s2)), s2 ++ [mkD a' d' loop])      (* delay_counter = len(delay_states) *)
  end.

Fixpoint tr_body (base : nat) (loop : option (nat * nat)) (b : list (expr * expr)) (st : list drec)
  : list (expr * expr) * list drec :=
  match b with
  | [] => ([], st)
  | (l, r) :: b' =>
      let (l', s1) := tr base loop l st in
      let (r', s2) := tr base loop r s1 in
      let (b'', s3) := tr_body base loop b' s2 in
      ((l', r') :: b'', s3)
  end.

(* indexed loop delay: generator.py:335-340, symvar(expr) meets the registered indexed symbols *)
Definition indexed (r : drec) : bool :=
  match dr_loop r with Some _ => existsb is_sloop (deps (dr_expr r)) | None => false end.

(* generator.py:486-505: the delayed expression of an indexed loop delay is wrapped in a Function whose
   arguments are the loop arguments and the free symbols of the loop BODY; a symbol that occurs only
   inside the delay call fails the assert, a vector symbol (v[k]) makes the set comparison raise. *)
Definition body_syms (b : list (expr * expr)) : list sym :=
  flat_map (fun lr => deps (Sub (fst lr) (snd lr))) b.

Definition loop_delay_ok (bs : list sym) (r : drec) : bool :=
  negb (indexed r) ||
  (negb (has_elem (norm (dr_expr r))) &&
   forallb (fun s => is_loop_sym s || mem_sym s bs) (deps (dr_expr r))).

Fixpoint tr_eqs (base : nat) (eqs : list eqn) (st : list drec) (ok : bool) : list drec * bool :=
  match eqs with
  | [] => (st, ok)
  | Eq l r :: q =>
      let (_, s1) := tr base None l st in
      let (_, s2) := tr base None r s1 in
      tr_eqs base q s2 ok
  | For lo hi b :: q =>
      let (b', s1) := tr_body base (Some (lo, hi)) b st in
      let new := skipn (length st) s1 in
      tr_eqs base q s1 (ok && forallb (loop_delay_ok (body_syms b')) new)
  end.

Definition delays (m : model) : list drec := fst (tr_eqs (m_base m) (m_eqs m) [] true).
Definition gen_ok (m : model) : bool := snd (tr_eqs (m_base m) (m_eqs m) [] true).

(* ---- classification (C10, reduced to what delay models use): a plain variable is a state iff
   der(v) occurs anywhere in the equations, delay operands included ---- *)
Fixpoint all_syms (e : expr) : list sym :=          (* occurrence in the source text, no folding *)
  match e with
  | Num _ => []
  | Ref s => [s]
  | Elem v _ => [SVar v]
  | Add a b | Sub a b | Mul a b | Delay a b | Min a b | Max a b => all_syms a ++ all_syms b
  | Neg a | Abs a => all_syms a
  | Ite _ c1 c2 a b => all_syms c1 ++ all_syms c2 ++ all_syms a ++ all_syms b     (* the condition's symbols count *)
  end.

Definition eqn_syms (q : eqn) : list sym :=
  match q with
  | Eq l r => all_syms l ++ all_syms r
  | For _ _ b => flat_map (fun lr => all_syms (fst lr) ++ all_syms (snd lr)) b
  end.

Definition der_refs (m : model) : list nat :=
  flat_map (fun s => match s with SDer v => [v] | _ => [] end) (flat_map eqn_syms (m_eqs m)).

Definition is_plain (d : decl) : bool := match d_kind d with KPlain => true | _ => false end.

Definition states (m : model) : list nat :=
  map d_id (filter (fun d => is_plain d && mem_nat (d_id d) (der_refs m)) (m_decls m)).
Definition alg_states (m : model) : list nat :=
  map d_id (filter (fun d => is_plain d && negb (mem_nat (d_id d) (der_refs m))) (m_decls m)).
Definition constants (m : model) : list nat :=
  map d_id (filter (fun d => match d_kind d with KConst => true | _ => false end) (m_decls m)).
Definition parameters (m : model) : list nat :=
  map d_id (filter (fun d => match d_kind d with KParam => true | _ => false end) (m_decls m)).
Definition delay_states (m : model) : list nat :=
  map (fun k => m_base m + k) (seq 0 (length (delays m))).
(* model.inputs: the delayed-state inputs (Variable(src), fixed = False) were appended while walking
   the equations, the declared inputs carry their `fixed` attribute *)
Definition inputs (m : model) : list (nat * bool) :=
  map (fun v => (v, false)) (delay_states m) ++
  flat_map (fun d => match d_kind d with KInput f => [(d_id d, f)] | _ => [] end) (m_decls m).

(* ---- _post_checks, model.py:155-171 ---- *)
Definition disallowed (m : model) : list sym :=
  [STime] ++ map SVar (states m) ++ map SDer (states m) ++ map SVar (alg_states m) ++
  map (fun x => SVar (fst x)) (filter (fun x => negb (snd x)) (inputs m)).

Definition dur_ok (m : model) (r : drec) : bool :=
  negb (existsb (fun s => mem_sym s (disallowed m)) (deps (dr_dur r))).

Definition accepts (m : model) : bool :=
  match delay_states m with
  | [] => true                                   (* `if self.delay_states:` *)
  | _ => forallb (dur_ok m) (delays m)
  end.

(* ---- delay_arguments_function, model.py:1427-1465: ca.Function over (time, states, der_states,
   alg_states, inputs, constants, parameters); a placeholder symbol left in an output is a free
   variable and the Function cannot be constructed ---- *)
Definition rec_closed (r : drec) : bool :=
  negb (existsb is_loop_sym (deps (dr_dur r))) &&
  (indexed r || negb (existsb is_loop_sym (deps (dr_expr r)))).

Definition func_ok (m : model) : bool := forallb rec_closed (delays m).

Record envd := mkEnv { e_time : Z; e_vals : list (nat * list Z); e_ders : list (nat * Z) }.

Fixpoint lookup {A} (n : nat) (l : list (nat * A)) : option A :=
  match l with [] => None | (k, v) :: l' => if Nat.eqb n k then Some v else lookup n l' end.

Definition var_at (en : envd) (v k : nat) : Z :=          (* element k (1-based) of variable v *)
  match lookup v (e_vals en) with Some l => nth (k - 1) l 0%Z | None => 0%Z end.
Definition der_at (en : envd) (v : nat) : Z :=
  match lookup v (e_ders en) with Some z => z | None => 0%Z end.

Definition sym_val (en : envd) (i : nat) (s : sym) : Z :=
  match s with
  | STime => e_time en
  | SVar v => var_at en v 1
  | SDer v => der_at en v
  | SLoop v => var_at en v i
  | SIndex => Z.of_nat i
  end.

Fixpoint eval (en : envd) (i : nat) (e : expr) : Z :=
  match e with
  | Num z => z
  | Ref s => sym_val en i s
  | Elem v k => var_at en v k
  | Add a b => (eval en i a + eval en i b)%Z
  | Sub a b => (eval en i a - eval en i b)%Z
  | Mul a b => (eval en i a * eval en i b)%Z
  | Neg a => (- eval en i a)%Z
  | Delay _ _ => 0%Z
  | Ite g c1 c2 a b =>
      if (if g then Z.geb (eval en i c1) (eval en i c2) else Z.gtb (eval en i c1) (eval en i c2))
      then eval en i a else eval en i b
  | Abs a => Z.abs (eval en i a)
  | Min a b => Z.min (eval en i a) (eval en i b)
  | Max a b => Z.max (eval en i a) (eval en i b)
  end.

(* one output pair per delay, in creation order; indexed loop delays: one entry per iteration
   (f_delay_map over f.values, generator.py:507-512), the duration stays a scalar *)
Definition expr_entry (en : envd) (r : drec) : list Z :=
  match dr_loop r with
  | Some (lo, hi) =>
      if indexed r then map (fun j => eval en j (dr_expr r)) (seq lo (S hi - lo))
      else [eval en 0 (dr_expr r)]
  | None => [eval en 0 (dr_expr r)]
  end.

Definition outputs (m : model) (en : envd) : list (list Z) :=
  flat_map (fun r => [expr_entry en r; [eval en 0 (dr_dur r)]]) (delays m).

(* ---- observable outcome and the correspondence check ---- *)
Inductive obs := OGenErr | ORej | OFuncFail | OAcc (vals : list (list (list Z))).

Definition outcome (m : model) (pts : list envd) : obs :=
  if negb (gen_ok m) then OGenErr
  else if negb (accepts m) then ORej
  else if negb (func_ok m) then OFuncFail
  else OAcc (map (outputs m) pts).

Definition zl_eqb (a b : list Z) : bool :=
  Nat.eqb (length a) (length b) && forallb (fun p => Z.eqb (fst p) (snd p)) (combine a b).
Definition zll_eqb (a b : list (list Z)) : bool :=
  Nat.eqb (length a) (length b) && forallb (fun p => zl_eqb (fst p) (snd p)) (combine a b).
Definition zlll_eqb (a b : list (list (list Z))) : bool :=
  Nat.eqb (length a) (length b) && forallb (fun p => zll_eqb (fst p) (snd p)) (combine a b).

Definition obs_eqb (a b : obs) : bool :=
  match a, b with
  | OGenErr, OGenErr | ORej, ORej | OFuncFail, OFuncFail => true
  | OAcc x, OAcc y => zlll_eqb x y
  | _, _ => false
  end.

Definition check_case (c : model * list envd * obs) : bool :=
  let '(m, pts, o) := c in obs_eqb (outcome m pts) o.
