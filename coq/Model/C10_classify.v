(* C10 — executable model of the variable classification of the CasADi backend:
     src/pymoca/tree.py:1186-1230           StateAnnotator / annotate_states
     src/pymoca/backends/casadi/generator.py:116-159  _ast_symbols_to_variables (empty filter, String split)
     src/pymoca/backends/casadi/generator.py:167-212  exitClass (sort by order, if/elif chain, outputs)
     src/pymoca/backends/casadi/generator.py:764-798  get_derivative, case 2 (one "der(x)" symbol per state)
   Standard library lists only.  No proofs here: the model must keep running when a proof breaks. *)
From Coq Require Import List Arith Bool PeanoNat.
Import ListNotations.

(* type prefixes of a flat symbol; Kstate is the pseudo-prefix appended by annotate_states *)
Inductive kw := Kconstant | Kparameter | Kinput | Koutput | Kdiscrete | Kflow | Kstream | Kstate.
Inductive ty := TReal | TInteger | TBoolean | TString.

Definition kw_code (k : kw) : nat :=
  match k with Kconstant => 0 | Kparameter => 1 | Kinput => 2 | Koutput => 3
             | Kdiscrete => 4 | Kflow => 5 | Kstream => 6 | Kstate => 7 end.
Definition kw_eqb (a b : kw) : bool := Nat.eqb (kw_code a) (kw_code b).
(* Python: `"kw" in s.prefixes` *)
Definition has (k : kw) (p : list kw) : bool := existsb (kw_eqb k) p.

(* flat elementary symbol: flat name (id), parser order, prefix list, builtin type,
   empty? (some dimension is 0, mx_symbol.is_empty()) *)
Record sym := mkSym { s_name : nat; s_order : nat; s_pref : list kw; s_ty : ty; s_empty : bool }.

(* expressions of the flat class, as far as annotate_states looks at them: component
   references (flat name; indices are not references to the symbol table unless they are
   themselves ERef operands), literals, and n-ary operators with the flag "operator == der" *)
Inductive expr := ERef (n : nat) | ELit | EOp (is_der : bool) (args : list expr).

(* flat class: symbols in dict (insertion) order; all expressions the TreeWalker visits:
   equations, initial equations, symbol attribute expressions *)
Record flat := mkFlat { f_syms : list sym; f_exprs : list expr }.

(* ---- tree.py:1186-1220  StateAnnotator -------------------------------------------- *)
(* in_der counter: enterExpression +1 / exitExpression -1 around der; exitComponentRef
   records the name when in_der > 0 *)
Fixpoint der_refs (in_der : nat) (e : expr) : list nat :=
  match e with
  | ERef n => if 0 <? in_der then [n] else []
  | ELit => []
  | EOp d args => flat_map (der_refs (if d then S in_der else in_der)) args
  end.

Definition mem (n : nat) (l : list nat) : bool := existsb (Nat.eqb n) l.

(* tree.py:1212-1219: names that are not symbols of the class are ignored (KeyError);
   `if "state" not in s.prefixes: s.prefixes.append("state")` *)
Definition annotate1 (ds : list nat) (s : sym) : sym :=
  if mem (s_name s) ds && negb (has Kstate (s_pref s))
  then mkSym (s_name s) (s_order s) (s_pref s ++ [Kstate]) (s_ty s) (s_empty s)
  else s.

Definition all_der_refs (fc : flat) : list nat := flat_map (der_refs 0) (f_exprs fc).
Definition annotate (fc : flat) : list sym := map (annotate1 (all_der_refs fc)) (f_syms fc).

(* ---- generator.py:180  sorted(tree.symbols.values(), key=lambda x: x.order) --------- *)
(* Python's sorted is stable; insertion from the right, before the first element whose key
   is not smaller, is the stable sort *)
Fixpoint insert (s : sym) (l : list sym) : list sym :=
  match l with
  | [] => [s]
  | t :: l' => if s_order s <=? s_order t then s :: l else t :: insert s l'
  end.
Definition sort (l : list sym) : list sym := fold_right insert [] l.

(* ---- generator.py:181-191  the if/elif chain, and 197-201 the String split ---------- *)
Inductive cat := CConst | CStrConst | CParam | CStrParam | CInput | CState | CAlg.
Definition cat_code (c : cat) : nat :=
  match c with CConst => 0 | CStrConst => 1 | CParam => 2 | CStrParam => 3
             | CInput => 4 | CState => 5 | CAlg => 6 end.
Definition cat_eqb (a b : cat) : bool := Nat.eqb (cat_code a) (cat_code b).
Definition all_cats : list cat := [CConst; CStrConst; CParam; CStrParam; CInput; CState; CAlg].

Definition is_str (t : ty) : bool := match t with TString => true | _ => false end.

Definition cat_of (p : list kw) (t : ty) : cat :=
  if has Kconstant p then (if is_str t then CStrConst else CConst)
  else if has Kparameter p then (if is_str t then CStrParam else CParam)
  else if has Kinput p then CInput
  else if has Kstate p then CState
  else CAlg.
Definition scat (s : sym) : cat := cat_of (s_pref s) (s_ty s).

(* generator.py:121-122: `if mx_symbol.is_empty(): continue` *)
Definition nonempty (s : sym) : bool := negb (s_empty s).
Definition to_vars (l : list sym) : list sym := filter nonempty l.

(* the symbols of one category, in the order of the sorted symbol list *)
Definition sorted_syms (fc : flat) : list sym := sort (annotate fc).
Definition sel (c : cat) (fc : flat) : list sym :=
  to_vars (filter (fun s => cat_eqb (scat s) c) (sorted_syms fc)).

(* names in the generated model: a plain flat name or "der(<name>)" *)
Inductive vname := Plain (n : nat) | Der (n : nat).

Definition m_states (fc : flat) : list sym := sel CState fc.
Definition m_alg (fc : flat) : list sym := sel CAlg fc.
(* generator.py:194 + 788: one new symbol der(x) per state, same order *)
Definition m_der_states (fc : flat) : list vname := map (fun s => Der (s_name s)) (m_states fc).
(* generator.py:208-212 *)
Definition m_outputs (fc : flat) : list nat :=
  map s_name (filter (fun s => has Koutput (s_pref s)) (m_states fc ++ m_alg fc)).

(* observation of a generated Model: names of states, der_states, alg_states, inputs,
   parameters, constants, string_parameters, string_constants, outputs (each in list order) *)
Record obs := mkObs {
  o_states : list nat; o_der : list vname; o_alg : list nat; o_inputs : list nat;
  o_params : list nat; o_consts : list nat; o_sparams : list nat; o_sconsts : list nat;
  o_outputs : list nat }.

Definition names (l : list sym) : list nat := map s_name l.

Definition lists (fc : flat) : obs :=
  mkObs (names (m_states fc)) (m_der_states fc) (names (m_alg fc)) (names (sel CInput fc))
        (names (sel CParam fc)) (names (sel CConst fc)) (names (sel CStrParam fc))
        (names (sel CStrConst fc)) (m_outputs fc).

(* generator.py:208-212 as coded (known finding C10/output-string-variable): the comprehension
   evaluates `v.symbol.name()`; a String-typed variable is a StringVariable, which has no
   `.symbol`, so an output-prefixed String variable among states/alg_states raises
   AttributeError and no Model is produced *)
Definition out_str (s : sym) : bool := has Koutput (s_pref s) && is_str (s_ty s).
Definition gen_error (fc : flat) : bool := existsb out_str (m_states fc ++ m_alg fc).
Definition generate (fc : flat) : option obs := if gen_error fc then None else Some (lists fc).

(* ---- correspondence ---------------------------------------------------------------- *)
Fixpoint nl_eqb (a b : list nat) : bool :=
  match a, b with
  | [], [] => true
  | x :: a', y :: b' => Nat.eqb x y && nl_eqb a' b'
  | _, _ => false
  end.
Definition vn_eqb (a b : vname) : bool :=
  match a, b with Plain x, Plain y => Nat.eqb x y | Der x, Der y => Nat.eqb x y | _, _ => false end.
Fixpoint vl_eqb (a b : list vname) : bool :=
  match a, b with
  | [], [] => true
  | x :: a', y :: b' => vn_eqb x y && vl_eqb a' b'
  | _, _ => false
  end.

Definition obs_eqb (a b : obs) : bool :=
  nl_eqb (o_states a) (o_states b) && vl_eqb (o_der a) (o_der b) && nl_eqb (o_alg a) (o_alg b) &&
  nl_eqb (o_inputs a) (o_inputs b) && nl_eqb (o_params a) (o_params b) &&
  nl_eqb (o_consts a) (o_consts b) && nl_eqb (o_sparams a) (o_sparams b) &&
  nl_eqb (o_sconsts a) (o_sconsts b) && nl_eqb (o_outputs a) (o_outputs b).

(* a case = the flat class as described by the input generator + what the real
   pymoca.backends.casadi.generator.generate produced for it
   (None = it raised AttributeError in the outputs comprehension) *)
Definition check_case (c : flat * option obs) : bool :=
  match generate (fst c), snd c with
  | Some a, Some b => obs_eqb a b
  | None, None => true              (* both: no model, exception *)
  | _, _ => false
  end.
