(* C13 — constants.  A constant symbol is entry n + j of the valuation, after the n parameters:
   an attribute expression mentions constant j as `Par (n + j)`.
   Variable level: the attribute objects are expressions in parameter AND constant symbols; their value is
   taken at the constants' declared values, resolved to a fixed point (a constant may be defined through
   other constants).  Function level: variable_metadata_function (model.py:1352) has the parameters as its
   only input and does not substitute the constants, so CasADi refuses to build it as soon as a cell
   mentions a constant symbol ("variables [c] are free").  No proofs here. *)
From Coq Require Import QArith Qcanon List Bool ZArith.
From PV Require Import Model.C13_metadata.
Import ListNotations.
Local Open Scope Qc_scope.

(* does the expression mention a symbol that is not one of the n parameters? *)
Fixpoint mentions_const (n : nat) (e : aexp) : bool :=
  match e with
  | Cst _ => false
  | Par i => Nat.leb n i
  | Add a b | Sub a b | Mul a b | Div a b | LtB a b => mentions_const n a || mentions_const n b
  | Neg a | Pow a _ | NotB a => mentions_const n a
  | IfB c a b => mentions_const n c || mentions_const n a || mentions_const n b
  end.

Definition cell_closed (n : nat) (c : cell) : bool :=
  match c with CLit _ => true | CExp e => negb (mentions_const n e) end.
(* the recorded finding's class is the complement: some attribute mentions a constant *)
Definition no_constants (n : nat) (M : model) : bool :=
  match cells M with Some cs => forall3 (cell_closed n) cs | None => true end.

(* declared values of the constants (expressions over the full valuation), resolved by iteration *)
Fixpoint resolve (fuel : nat) (cs : list aexp) (p cv : list Qc) : list Qc :=
  match fuel with O => cv | S k => resolve k cs p (map (eval (p ++ cv)) cs) end.
Definition cvals (cs : list aexp) (p : list Qc) : list Qc :=
  resolve (S (length cs)) cs p (map (fun _ => 0) cs).

(* Variable level: attributes evaluated at the parameters and the constants' values *)
Definition var_attrs_c (M : model) (cs : list aexp) (p : list Qc) := var_attrs M (p ++ cvals cs p).

(* the metadata FUNCTION as the code builds it: None = CasADi raises (free symbol) *)
Definition metadata_fn (rb : bool) (n : nat) (M : model) (p : list Qc) :=
  if no_constants n M then metadata rb M p else None.

(* correspondence for models with constant-dependent attributes: Variable-level cells only *)
Definition check_case_const (c : model * list aexp * nat * bool * list (list Qc * list (list (list ext)))) : bool :=
  let '(M, cs, n, fn_raises, pts) := c in
  Bool.eqb fn_raises (negb (no_constants n M)) &&
  forallb (fun pt => mats_close (snd pt) (var_attrs_c M cs (fst pt))) pts.
