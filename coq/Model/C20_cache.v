(* C20 — executable model of the model-cache decision logic of
   src/pymoca/backends/casadi/api.py (load_model checks + transfer_model routing).
   No proofs here: the model must keep running when a proof breaks.

   Abstractions (see notes/C20.md):
   * a Modelica source file is (mtime, content id); a path is (folder id, file id), folder 0 is
     the model folder, folders >= 1 are candidate library folders (sub-directories are part of
     the file id: os.walk is recursive in both the mtime check and the compiler);
   * "compile" is the FREE constructor (visible sources, options, version): any real compiler
     factors through it; whether a compile raises is an arbitrary predicate `fails` on that triple;
   * option values are lists of small ids (booleans [0]/[1], library_folders = list of folder ids);
     options are always the dictionary merged with the defaults (_options.py), as in api.py:305,495;
   * codegen mode: the four shared libraries of the model folder are one object `libs` =
     (what they were compiled from, os.name they were built for); a cache file written in codegen
     mode refers to them by path (db[o] is a str) and load_model hands back whatever is on disk;
   * os.name is part of the state (a model folder can be copied to another platform). *)
From Coq Require Import ZArith List Bool Arith.
Import ListNotations.

Definition key := nat.
Definition val := list nat.
Definition opts := list (key * val).

(* positions of the keys in _options.py:_get_default_options (tied on every run, Tie_C20.v) *)
Definition K_library_folders : key := 0.
Definition K_verbose : key := 1.
Definition K_mtime_check : key := 3.
Definition K_cache : key := 4.
Definition K_codegen : key := 5.
Definition K_expand_mx : key := 6.

Fixpoint get (k : key) (o : opts) : val :=
  match o with
  | [] => []
  | (k', v) :: o' => if Nat.eqb k k' then v else get k o'
  end.

Fixpoint set (k : key) (v : val) (o : opts) : opts :=
  match o with
  | [] => [(k, v)]
  | (k', v') :: o' => if Nat.eqb k k' then (k', v) :: o' else (k', v') :: set k v o'
  end.

(* Python truthiness of an option value: False/None/0 -> false *)
Definition flag (k : key) (o : opts) : bool :=
  match get k o with
  | S _ :: _ => true
  | _ => false
  end.

Definition path := (nat * nat)%type.
Definition fs := list (path * (Z * nat)).

Definition path_eqb (p q : path) : bool := Nat.eqb (fst p) (fst q) && Nat.eqb (snd p) (snd q).

(* rewrite an existing file in place / add a new one *)
Fixpoint upd (p : path) (v : Z * nat) (f : fs) : fs :=
  match f with
  | [] => [(p, v)]
  | (q, w) :: f' => if path_eqb p q then (q, v) :: f' else (q, w) :: upd p v f'
  end.

(* delete a file *)
Fixpoint del (p : path) (f : fs) : fs :=
  match f with
  | [] => []
  | (q, w) :: f' => if path_eqb p q then del p f' else (q, w) :: del p f'
  end.

Fixpoint lookup (p : path) (f : fs) : option (Z * nat) :=
  match f with
  | [] => None
  | (q, w) :: f' => if path_eqb p q then Some w else lookup p f'
  end.

(* os.rename(p, q): q is replaced, the file keeps its mtime *)
Definition ren (p q : path) (f : fs) : fs :=
  match lookup p f with
  | Some w => upd q w (del p f)
  | None => f
  end.

(* [model_folder] + compiler_options["library_folders"]   (api.py:110 and api.py:312) *)
Definition folders (o : opts) : list nat := 0 :: get K_library_folders o.
Definition inview (o : opts) (p : path) : bool := existsb (Nat.eqb (fst p)) (folders o).

(* what _compile_model reads (api.py:108-119): the *.mo files below those folders *)
Definition view (o : opts) (f : fs) : list (path * nat) :=
  map (fun e => (fst e, snd (snd e))) (filter (fun e => inview o (fst e)) f).

Definition cres := (list (path * nat) * opts * nat)%type.   (* free compile result *)

Record cache := Cache {
  c_mtime : Z;        (* os.path.getmtime(db_file) *)
  c_version : nat;    (* db["version"] *)
  c_opts : opts;      (* db["options"] *)
  c_os : nat;         (* db["library_os"] *)
  c_libs : bool;      (* db[o] is a path to a shared library (codegen) rather than a pickled Function *)
  c_model : cres;     (* what the pickled functions/metadata were compiled from *)
  c_snap : fs         (* ghost: the source tree at the time of the save *)
}.

Record state := State {
  files : fs; copts : opts; ver : nat;
  osn : nat;                          (* os.name *)
  libs : option (cres * nat);         (* <model>_*.so in the model folder: compiled from, built for *)
  cch : option cache
}.

(* what is regenerated from api.py on every run *)
Record cfg := Cfg {
  strict : bool;      (* true: `getmtime(f) > cache_mtime`; false: `>=`      (api.py:316) *)
  excl : list key;    (* exclude_options                                     (api.py:341) *)
  vcheck : bool       (* `db["version"] != __version__` is present           (api.py:335) *)
}.

Definition newer (g : cfg) (m cm : Z) : bool := if strict g then Z.gtb m cm else Z.geb m cm.

(* api.py:312-317 *)
Definition mtime_ok (g : cfg) (o : opts) (cm : Z) (f : fs) : bool :=
  forallb (fun e => negb (inview o (fst e)) || negb (newer g (fst (snd e)) cm)) f.

(* api.py:342-343: {k: v for k, v in ... if k not in exclude_options} *)
Definition strip (g : cfg) (o : opts) : opts :=
  filter (fun kv => negb (existsb (Nat.eqb (fst kv)) (excl g))) o.

Fixpoint list_eqb {A} (e : A -> A -> bool) (a b : list A) : bool :=
  match a, b with
  | [], [] => true
  | x :: a', y :: b' => e x y && list_eqb e a' b'
  | _, _ => false
  end.

Definition val_eqb : val -> val -> bool := list_eqb Nat.eqb.
Definition opts_eqb : opts -> opts -> bool :=
  list_eqb (fun a b => Nat.eqb (fst a) (fst b) && val_eqb (snd a) (snd b)).

(* load_model's acceptance checks in the order coded: mtime (309-317), version (335), options (341-346),
   library_os when codegen (349-351) *)
Definition load_ok (g : cfg) (s : state) (o : opts) (c : cache) : bool :=
  (negb (flag K_mtime_check o) || mtime_ok g o (c_mtime c) (files s))
  && (negb (vcheck g) || Nat.eqb (c_version c) (ver s))
  && opts_eqb (strip g (c_opts c)) (strip g o)
  && (negb (flag K_codegen o) || Nat.eqb (c_os c) (osn s)).

(* transfer_model, api.py:495-514: codegen disables cache; caching forces expand_mx *)
Definition effective (o : opts) : opts :=
  let o1 := if flag K_cache o && flag K_codegen o then set K_cache [0] o else o in
  if flag K_cache o1 && negb (flag K_expand_mx o1) then set K_expand_mx [1] o1 else o1.

Definition compile (s : state) (o : opts) : cres := (view o (files s), o, ver s).

(* what a fresh compile of the current sources with the current options and version gives *)
Definition ideal (s : state) : cres := compile s (effective (copts s)).

(* Served b r built: the returned model is compiled from r; built = Some n when its functions are
   the shared libraries on disk, built for os n (ca.external), None for pickled / in-memory ones *)
Inductive out := Failed | Served (from_cache : bool) (r : cres) (built : option nat).

(* api.py:353-363: db[o] a str -> ca.external(path), else the pickled Function *)
Definition loaded (s : state) (c : cache) : out :=
  if c_libs c then
    match libs s with
    | Some (r, n) => Served true r (Some n)
    | None => Failed
    end
  else Served true (c_model c) None.

(* transfer_model, api.py:494-525.  `now` = the mtime the cache file gets if it is written. *)
Definition transfer (g : cfg) (fails : cres -> bool) (s : state) (now : Z) : state * out :=
  let o := effective (copts s) in
  let r := compile s o in
  let recompile :=
    if fails r then (s, Failed)                                     (* exception propagates, nothing saved *)
    else if flag K_codegen o then
      (* save_model, codegen: cache file removed, the four libraries overwritten, cache file written *)
      (State (files s) (copts s) (ver s) (osn s) (Some (r, osn s))
             (Some (Cache now (ver s) o (osn s) true r (files s))), Served false r None)
    else
      (State (files s) (copts s) (ver s) (osn s) (libs s)
             (Some (Cache now (ver s) o (osn s) false r (files s))), Served false r None) in
  if flag K_cache o || flag K_codegen o then
    match cch s with
    | Some c => if load_ok g s o c then (s, loaded s c) else recompile
    | None => recompile                                             (* FileNotFoundError *)
    end
  else (s, if fails r then Failed else Served false r None).

Inductive op :=
| Edit (p : path) (m : Z) (c : nat)      (* rewrite a .mo file *)
| Add (p : path) (m : Z) (c : nat)       (* add a .mo file *)
| SetOptions (o : opts)
| SetVersion (v : nat)
| Transfer (now : Z)
| Delete (p : path)                       (* remove a .mo file *)
| Rename (p q : path)                     (* os.rename: the mtime is kept *)
| SetOS (n : nat).                        (* the model folder is now used on another platform *)

Definition with_files (s : state) (f : fs) : state := State f (copts s) (ver s) (osn s) (libs s) (cch s).

Definition step (g : cfg) (fails : cres -> bool) (s : state) (a : op) : state * option out :=
  match a with
  | Edit p m c | Add p m c => (with_files s (upd p (m, c) (files s)), None)
  | SetOptions o => (State (files s) o (ver s) (osn s) (libs s) (cch s), None)
  | SetVersion v => (State (files s) (copts s) v (osn s) (libs s) (cch s), None)
  | Transfer now => let '(s', r) := transfer g fails s now in (s', Some r)
  | Delete p => (with_files s (del p (files s)), None)
  | Rename p q => (with_files s (ren p q (files s)), None)
  | SetOS n => (State (files s) (copts s) (ver s) n (libs s) (cch s), None)
  end.

(* the trace: for every op the state it was applied in and its output *)
Fixpoint run (g : cfg) (fails : cres -> bool) (s : state) (ops : list op) : list (state * op * option out) :=
  match ops with
  | [] => []
  | a :: rest => let '(s', r) := step g fails s a in (s, a, r) :: run g fails s' rest
  end.

Definition final (g : cfg) (fails : cres -> bool) (s : state) (ops : list op) : state :=
  fold_left (fun s a => fst (step g fails s a)) ops s.

(* ---- correspondence check ------------------------------------------------------------- *)
(* Observation of one real transfer_model call:
   (raised?, served without calling _compile_model?, fingerprint id of the returned model),
   and of the independent fresh compile in the same folder state: (raised?, fingerprint id). *)
Definition obs := (bool * bool * nat * (bool * nat))%type.
Definition case := (fs * opts * nat * list op * list obs)%type.

Definition cres_eqb (a b : cres) : bool :=
  let '(va, oa, na) := a in let '(vb, ob, nb) := b in
  list_eqb (fun x y => path_eqb (fst x) (fst y) && Nat.eqb (snd x) (snd y)) va vb
  && opts_eqb oa ob && Nat.eqb na nb.

(* pass 1: sources, options and version evolve independently of the cache; collect for every
   Transfer the ideal triple with the reference outcome observed for it *)
Fixpoint shadow (s : state) (ops : list op) (os : list obs) : list (cres * (bool * nat)) :=
  match ops with
  | [] => []
  | Transfer _ :: rest =>
      match os with
      | ob :: os' => (ideal s, snd ob) :: shadow s rest os'
      | [] => []
      end
  | a :: rest => shadow (fst (step (Cfg true [] true) (fun _ => false) s a)) rest os
  end.

Definition table_fails (t : list (cres * (bool * nat))) (r : cres) : bool :=
  existsb (fun e => cres_eqb r (fst e) && fst (snd e)) t.

Fixpoint table_ref (t : list (cres * (bool * nat))) (r : cres) : option nat :=
  match t with
  | [] => None
  | e :: t' => if cres_eqb r (fst e) then Some (snd (snd e)) else table_ref t' r
  end.

(* pass 2: the full model against the observed calls *)
Fixpoint agree (g : cfg) (t : list (cres * (bool * nat))) (s : state) (ops : list op) (os : list obs) : bool :=
  match ops with
  | [] => match os with [] => true | _ => false end
  | Transfer now :: rest =>
      match os with
      | (raised, cached, got, _) :: os' =>
          let '(s', r) := transfer g (table_fails t) s now in
          match r with
          | Failed => raised
          | Served b m _ =>
              negb raised && Bool.eqb b cached
              && match table_ref t m with Some f => Nat.eqb f got | None => false end
          end && agree g t s' rest os'
      | [] => false
      end
  | a :: rest => agree g t (fst (step g (table_fails t) s a)) rest os
  end.

Definition check_case (g : cfg) (c : case) : bool :=
  let '(f0, o0, v0, ops, os) := c in
  let s0 := State f0 o0 v0 0 None None in
  agree g (shadow s0 ops os) s0 ops os.

(* side condition of the theorems on the regenerated table (evaluated in run/C20/Tie_C20.v):
   the version check is present and every excluded key is library_folders (the recorded
   finding) or verbose (assumed not to influence the compiled model) *)
Definition cfg_okb (g : cfg) : bool :=
  vcheck g && forallb (fun k => Nat.eqb k K_library_folders || Nat.eqb k K_verbose) (excl g).
