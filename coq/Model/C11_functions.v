(* C11 — user functions with algorithm sections.  Executable model, NO proofs.

   Mirrors /repo/src/pymoca/backends/casadi/generator.py:
     exitAssignmentStatement, exitIfStatement (expanded_blocks grouping by left-hand side, if_else
     merging from the last branch to the first), exitForStatement (body mapped over the loop values,
     then `for i in range(len(values)): for j, variable in enumerate(variables):
     Assignment(variable, res[0][j, i])` — iteration-major), get_function (sequential
     `values[left] = substitute(right, keys, values)`, outputs read from `values`), and the call
     site in exitExpression / exitEquation (func.call(args); residual lhs_k - out_k).

   Modelica side: `exec`, the sequential execution of the algorithm section on an environment.
   Function variables are Real scalars; arrays inside functions and nested statements inside
   if / for are outside the model. *)
From Coq Require Import ZArith QArith Qcanon List Bool.
From PV Require Import Model.C11_residual.
Import ListNotations.
Open Scope Qc_scope.

Definition assign := (positive * expr)%type.          (* x := e *)
Inductive stmt :=
| SAssign (a : assign)
| SIf (brs : list (expr * list assign)) (els : list assign)
| SFor (lo st hi : Z) (body : list assign).
Record func := { f_in : list positive; f_out : list positive; f_body : list stmt }.

(* ---------- Modelica: sequential execution ---------- *)
Definition m_set (rho : menv) (x : positive) (q : Qc) : menv :=
  {| m_sc := fun y => if Pos.eqb y x then VNum q else m_sc rho y;
     m_der := m_der rho; m_arr := m_arr rho; m_i := m_i rho |}.

Section WithFun.
Variable F : positive -> Qc -> Qc.

Definition exec_assign (a : assign) (rho : menv) : option menv :=
  match m_eval F (snd a) rho with
  | Some (VNum q) => Some (m_set rho (fst a) q)
  | _ => None
  end.
Fixpoint exec_assigns (l : list assign) (rho : menv) : option menv :=
  match l with
  | [] => Some rho
  | a :: r => match exec_assign a rho with Some rho' => exec_assigns r rho' | None => None end
  end.
(* one loop iteration: the body with the loop variable = v; the loop variable is local *)
Definition exec_iter (body : list assign) (acc : option menv) (v : Z) : option menv :=
  match acc with
  | Some r => match exec_assigns body (with_mi r v) with
              | Some r' => Some (with_mi r' (m_i r))
              | None => None
              end
  | None => None
  end.
Definition exec_stmt (s : stmt) (rho : menv) : option menv :=
  match s with
  | SAssign a => exec_assign a rho
  | SIf brs els =>
      (fix go (l : list (expr * list assign)) : option menv :=
         match l with
         | [] => exec_assigns els rho
         | (c, blk) :: r =>
             match m_eval F c rho with
             | Some (VBool true) => exec_assigns blk rho
             | Some (VBool false) => go r
             | _ => None
             end
         end) brs
  | SFor lo st hi body =>
      if (st =? 0)%Z then None
      else fold_left (exec_iter body) (modelica_range lo st hi) (Some rho)
  end.
Fixpoint exec (l : list stmt) (rho : menv) : option menv :=
  match l with
  | [] => Some rho
  | s :: r => match exec_stmt s rho with Some rho' => exec r rho' | None => None end
  end.

(* ---------- CasADi: what the generator builds ---------- *)
Definition cassign := (positive * caexpr)%type.       (* Assignment(left, right) *)

(* F.map(...).call([values] + ...)[j, i]: the right-hand side with the loop index = v *)
Fixpoint bind_i (v : Z) (c : caexpr) : caexpr :=
  match c with
  | CConst q => CConst q
  | CSym SLoopVar => CConst (z2q v)
  | CSym (SGather x k) => CSym (SElem x ((v + k) - 1))
  | CSym (SGatherA x a b) => CSym (SElem x ((a * v + b) - 1))
  | CSym s => CSym s
  | CNeg a => CNeg (bind_i v a)
  | CFabs a => CFabs (bind_i v a)
  | CBin n a b => CBin n (bind_i v a) (bind_i v b)
  | CIfElse c a b => CIfElse (bind_i v c) (bind_i v a) (bind_i v b)
  | CFun f a => CFun f (bind_i v a)
  end.

(* ca.substitute([right], keys, values): every scalar symbol replaced by its current value
   (a symbol that is not a key maps to itself: sigma y = CSym (SVar y)) *)
Fixpoint subst (sigma : positive -> caexpr) (c : caexpr) : caexpr :=
  match c with
  | CConst q => CConst q
  | CSym (SVar y) => sigma y
  | CSym s => CSym s
  | CNeg a => CNeg (subst sigma a)
  | CFabs a => CFabs (subst sigma a)
  | CBin n a b => CBin n (subst sigma a) (subst sigma b)
  | CIfElse c a b => CIfElse (subst sigma c) (subst sigma a) (subst sigma b)
  | CFun f a => CFun f (subst sigma a)
  end.
Definition sigma0 : positive -> caexpr := fun y => CSym (SVar y).
Definition sigma_set (sigma : positive -> caexpr) (x : positive) (c : caexpr) : positive -> caexpr :=
  fun y => if Pos.eqb y x then c else sigma y.
(* get_function 1021-1026 *)
Fixpoint apply_assigns (l : list cassign) (sigma : positive -> caexpr) : positive -> caexpr :=
  match l with
  | [] => sigma
  | (x, c) :: r => apply_assigns r (sigma_set sigma x (subst sigma c))
  end.

Section WithTable.
Variable T : table.

Fixpoint tr_assigns (l : list assign) : res (list cassign) :=
  match l with
  | [] => Ok []
  | (x, e) :: r =>
      match tr T e, tr_assigns r with
      | Ok c, Ok cs => Ok ((x, c) :: cs)
      | Err w, _ => Err w
      | _, Err w => Err w
      end
  end.

(* exitIfStatement: expanded_blocks.setdefault(assignment.left, []).append(assignment.right) *)
Fixpoint group_add (a : cassign) (g : list (positive * list caexpr)) : list (positive * list caexpr) :=
  match g with
  | [] => [(fst a, [snd a])]
  | (y, l) :: r => if Pos.eqb (fst a) y then (y, l ++ [snd a]) :: r else (y, l) :: group_add a r
  end.
Definition expand (blocks : list (list cassign)) : list (positive * list caexpr) :=
  fold_left (fun g a => group_add a g) (concat blocks) [].
(* src = values[-1]; for cond, rhs in zip(conditions[-2::-1], values[-2::-1]): src = if_else(cond, rhs, src) *)
Definition merge (conds : list caexpr) (vals : list caexpr) : caexpr :=
  match rev vals with
  | [] => CConst 0
  | last :: rest => fold_left (fun src cr => CIfElse (fst cr) (snd cr) src) (combine (rev conds) rest) last
  end.
Fixpoint tr_blocks (l : list (list assign)) : res (list (list cassign)) :=
  match l with
  | [] => Ok []
  | b :: r => match tr_assigns b, tr_blocks r with
              | Ok cb, Ok cr => Ok (cb :: cr)
              | Err w, _ => Err w
              | _, Err w => Err w
              end
  end.
Fixpoint tr_conds (l : list expr) : res (list caexpr) :=
  match l with
  | [] => Ok []
  | c :: r => match tr T c, tr_conds r with
              | Ok cc, Ok cr => Ok (cc :: cr)
              | Err w, _ => Err w
              | _, Err w => Err w
              end
  end.
Definition all_same_length (g : list (positive * list caexpr)) : bool :=
  match g with
  | [] => true
  | (_, l) :: r => forallb (fun yl => Nat.eqb (length (snd yl)) (length l)) r
  end.

(* the unrolled for-statement, in the order of exitForStatement:
   for i in range(len(values)): for j, variable in enumerate(variables): res[0][j, i] *)
Definition unroll (vals : list Z) (body : list cassign) : list cassign :=
  flat_map (fun v => map (fun xc => (fst xc, bind_i v (snd xc))) body) vals.

(* fresh temporary `_pymoca_if_<id>_<name>` of the repaired exitIfStatement *)
Definition tmp_of (x : positive) : positive := (x + 1000)%positive.

(* seq_if = which exitIfStatement the tree has (probed on every run, run/C11/Gen.v):
   false: one if_else per variable, merged per left-hand side (expanded_blocks);
   true : fixes/C11_if_statement_sequential — every branch is first executed on its own by
          sequential substitution (values in terms of the state before the if-statement), the
          branch results are merged with if_else, assigned to fresh temporaries and only then to
          the variables (so that all variables change simultaneously) *)
Definition tr_stmt (seq_if : bool) (s : stmt) : res (list cassign) :=
  match s with
  | SAssign a => tr_assigns [a]
  | SIf brs els =>
      (* equal number of statements per branch *)
      if forallb (fun b => Nat.eqb (length (snd b)) (length els)) brs then
        match tr_conds (map fst brs), tr_blocks (map snd brs ++ [els]) with
        | Ok conds, Ok blocks =>
            if seq_if then
              let finals := map (fun cb => apply_assigns cb sigma0) blocks in
              let lhss := map fst (hd [] blocks) in
              if forallb (fun cb => forallb (fun x => existsb (Pos.eqb x) (map fst cb)) lhss) blocks
              then Ok (map (fun x => (tmp_of x, merge conds (map (fun f => f x) finals))) lhss
                       ++ map (fun x => (x, CSym (SVar (tmp_of x)))) lhss)
              else Err E_shape
            else
              let g := expand blocks in
              if all_same_length g then Ok (map (fun yl => (fst yl, merge conds (snd yl))) g)
              else Err E_shape
        | Err w, _ => Err w
        | _, Err w => Err w
        end
      else Err E_shape
  | SFor lo st hi body =>
      if (st =? 0)%Z then Err E_step
      else match tr_assigns body with
           | Ok cb => Ok (unroll (range_values lo st hi) cb)
           | Err w => Err w
           end
  end.
Fixpoint tr_stmts (seq_if : bool) (l : list stmt) : res (list cassign) :=
  match l with
  | [] => Ok []
  | s :: r => match tr_stmt seq_if s, tr_stmts seq_if r with
              | Ok a, Ok b => Ok (a ++ b)
              | Err w, _ => Err w
              | _, Err w => Err w
              end
  end.

(* get_function: the output expressions over the input symbols *)
Definition tr_func (seq_if : bool) (f : func) : res (list caexpr) :=
  match tr_stmts seq_if (f_body f) with
  | Ok l => let sigma := apply_assigns l sigma0 in Ok (map sigma (f_out f))
  | Err w => Err w
  end.

(* call site: `(y1, .., yk) = f(args)` — residual y_j - out_j; a shorter left-hand side
   truncates the outputs (exitEquation 440-445) *)
Definition call_eqn := (list positive * func * list expr)%type.
Definition tr_exprs (l : list expr) : res (list caexpr) := tr_conds l.
End WithTable.

(* evaluation of a call: inputs bound to the argument values *)
Definition set_sc (rho : cenv) (g : positive -> Qc) (iv : Z) : cenv :=
  {| c_sc := g; c_der := c_der rho; c_arr := c_arr rho; c_i := iv |}.
Fixpoint bind_args (xs : list positive) (vs : list Qc) (g : positive -> Qc) : positive -> Qc :=
  match xs, vs with
  | x :: xr, v :: vr => bind_args xr vr (fun y => if Pos.eqb y x then v else g y)
  | _, _ => g
  end.
Fixpoint all_some {A} (l : list (option A)) : option (list A) :=
  match l with
  | [] => Some []
  | Some x :: r => match all_some r with Some xs => Some (x :: xs) | None => None end
  | None :: _ => None
  end.
Definition ca_call_res (T : table) (seq_if : bool) (q : call_eqn) (rho : cenv) : res (option (list (option Qc))) :=
  match q with
  | (lhs, f, args) =>
      match tr_func T seq_if f, tr_exprs T args with
      | Ok outs, Ok cargs =>
          match all_some (map (fun c => ca_eval F c rho) cargs) with
          | Some vs =>
              let rin := set_sc rho (bind_args (f_in f) vs (c_sc rho)) (c_i rho) in
              Ok (Some (map (fun yo => match ca_eval F (snd yo) rin with
                                       | Some o => Some (c_sc rho (fst yo) - o)
                                       | None => None
                                       end) (combine lhs outs)))
          | None => Ok None
          end
      | Err w, _ => Err w
      | _, Err w => Err w
      end
  end.
(* Modelica meaning of the call equation `(y1, .., yk) = f(args)`: evaluate the arguments, run the
   algorithm section sequentially on an environment where the inputs are bound (all other function
   variables start with an arbitrary number - here the encoding of the caller's scalar of the same
   name -, a well-formed function assigns before it reads), residual y_j - output_j; a shorter
   left-hand side discards the remaining outputs *)
Definition num_of (v : value) : Qc := match v with VNum q => q | VBool b => b2q b end.
Definition m_fun_env (f : func) (vs : list Qc) (rho : menv) : menv :=
  {| m_sc := fun y => VNum (bind_args (f_in f) vs (fun z => num_of (m_sc rho z)) y);
     m_der := m_der rho; m_arr := m_arr rho; m_i := m_i rho |}.
Definition m_call_res (q : call_eqn) (rho : menv) : option (list (option Qc)) :=
  match q with
  | (lhs, f, args) =>
      match all_some (map (fun a => match m_eval F a rho with Some (VNum v) => Some v | _ => None end) args) with
      | Some vs =>
          match exec (f_body f) (m_fun_env f vs rho) with
          | Some rout =>
              Some (map (fun yo => match m_sc rho (fst yo), m_sc rout (snd yo) with
                                   | VNum l, VNum o => Some (l - o)
                                   | _, _ => None
                                   end) (combine lhs (f_out f)))
          | None => None
          end
      | None => None
      end
  end.
End WithFun.

(* one call equation of a model on which generate() succeeded *)
Definition check_call (F : positive -> Qc -> Qc) (T : table) (seq_if : bool) (rho : cenv) (q : call_eqn) (l : list obs) : bool :=
  match ca_call_res F T seq_if q rho with
  | Ok (Some m) => close_all m l
  | Ok None => true
  | Err _ => false
  end.
