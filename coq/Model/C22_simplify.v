(* C22 — the simplification steps of Model.simplify() (model.py _simplify_once) as substitutions applied to the
   equations AND to the delay arguments, step by step, followed by the duration validity test of _post_checks and
   delay_arguments_function.  Executable model, no proofs.  Scope: scalar models without for-equations (the
   chain stream); patterns recognised on `lhs = rhs` with the defined variable on the left:
     replace_parameter_expressions   model.py:526-573   parameters whose value is not a literal -> their expression
     replace_constant_expressions    model.py:575-612   same for constants
     eliminate_constant_assignments  model.py:614-667   algebraic z with `z = literal` becomes a constant
     replace_parameter_values        model.py:669-693   literal-valued parameters -> value (incl. delay arguments, 2faa604)
     replace_constant_values         model.py:695-733   every constant -> its (resolved) value
     eliminable_variable_expression  model.py:735-930   algebraic `_v = expr` (regex match given as a list) -> expr
     detect_aliases                  model.py:972-1228  algebraic `a = b` / `a = -b` -> +-b
   Each step substitutes simultaneously (ca.substitute); the steps run sequentially. *)
From Coq Require Import ZArith List Bool Arith.
From PV Require Import Model.C22_delay.
Import ListNotations.

Definition subst := list (nat * expr).            (* SVar v |-> expression *)

Fixpoint app_subst (s : subst) (e : expr) : expr :=
  match e with
  | Ref (SVar v) => match lookup v s with Some x => x | None => e end
  | Num _ | Ref _ | Elem _ _ => e
  | Add a b => Add (app_subst s a) (app_subst s b)
  | Sub a b => Sub (app_subst s a) (app_subst s b)
  | Mul a b => Mul (app_subst s a) (app_subst s b)
  | Neg a => Neg (app_subst s a)
  | Delay a b => Delay (app_subst s a) (app_subst s b)
  | Ite g c1 c2 a b => Ite g (app_subst s c1) (app_subst s c2) (app_subst s a) (app_subst s b)
  | Abs a => Abs (app_subst s a)
  | Min a b => Min (app_subst s a) (app_subst s b)
  | Max a b => Max (app_subst s a) (app_subst s b)
  end.

Definition sub_pair (s : subst) (p : expr * expr) : expr * expr := (app_subst s (fst p), app_subst s (snd p)).
Definition sub_rec (s : subst) (r : drec) : drec :=
  mkD (app_subst s (dr_expr r)) (app_subst s (dr_dur r)) (dr_loop r).       (* _substitute_delay_arguments *)
Definition sub_vals (s : subst) (l : list (nat * expr)) : list (nat * expr) :=
  map (fun p => (fst p, app_subst s (snd p))) l.                             (* _substitute_metadata (values) *)

(* `for _ in range(SUBSTITUTE_LOOP_LIMIT): values = substitute(values, symbols, values)` *)
Fixpoint resolve (fuel : nat) (s : subst) : subst :=
  match fuel with 0 => s | S f => resolve f (sub_vals s s) end.
Definition FUEL := 8.

Definition is_num (e : expr) : bool := match norm e with Num _ => true | _ => false end.

Record sst := mkS {
  st_eqs : list (expr * expr);
  st_args : list drec;
  st_params : list (nat * expr);
  st_consts : list (nat * expr);
  st_states : list nat;
  st_alg : list nat;
  st_inputs : list (nat * bool) }.

Definition with_args (st : sst) (a : list drec) : sst :=
  mkS (st_eqs st) a (st_params st) (st_consts st) (st_states st) (st_alg st) (st_inputs st).

(* a step computes its substitution from the current state and updates everything but the delay arguments *)
Definition step := sst -> subst * sst.

Definition remove_all (xs : list nat) (l : list nat) : list nat := filter (fun v => negb (mem_nat v xs)) l.

Definition step_rpe : step := fun st =>
  let s := resolve FUEL (filter (fun p => negb (is_num (snd p))) (st_params st)) in
  (s, mkS (map (sub_pair s) (st_eqs st)) (st_args st)
          (filter (fun p => is_num (snd p)) (st_params st)) (sub_vals s (st_consts st))
          (st_states st) (st_alg st) (st_inputs st)).

Definition step_rce : step := fun st =>
  let s := resolve FUEL (filter (fun p => negb (is_num (snd p))) (st_consts st)) in
  (s, mkS (map (sub_pair s) (st_eqs st)) (st_args st)
          (sub_vals s (st_params st)) (filter (fun p => is_num (snd p)) (st_consts st))
          (st_states st) (st_alg st) (st_inputs st)).

Definition eca_pick (alg : list nat) (q : expr * expr) : option (nat * expr) :=
  match fst q, norm (snd q) with
  | Ref (SVar z), Num k => if mem_nat z alg then Some (z, Num k) else None
  | _, _ => None
  end.

Fixpoint picks {A} (f : expr * expr -> option A) (eqs : list (expr * expr)) : list A * list (expr * expr) :=
  match eqs with
  | [] => ([], [])
  | q :: r => let (ps, keep) := picks f r in
              match f q with Some p => (p :: ps, keep) | None => (ps, q :: keep) end
  end.

Definition step_eca : step := fun st =>
  let (ps, keep) := picks (eca_pick (st_alg st)) (st_eqs st) in
  ([], mkS keep (st_args st) (st_params st) (st_consts st ++ ps)
           (st_states st) (remove_all (map fst ps) (st_alg st)) (st_inputs st)).

Definition step_rpv : step := fun st =>
  let s := sub_vals [] (filter (fun p => is_num (snd p)) (st_params st)) in
  (s, mkS (map (sub_pair s) (st_eqs st)) (st_args st)
          (sub_vals s (filter (fun p => negb (is_num (snd p))) (st_params st))) (sub_vals s (st_consts st))
          (st_states st) (st_alg st) (st_inputs st)).

Definition step_rcv : step := fun st =>
  let s := resolve FUEL (st_consts st) in
  (s, mkS (map (sub_pair s) (st_eqs st)) (st_args st) (sub_vals s (st_params st)) []
          (st_states st) (st_alg st) (st_inputs st)).

Definition eve_pick (elim alg : list nat) (q : expr * expr) : option (nat * expr) :=
  match fst q with
  | Ref (SVar v) => if mem_nat v elim && mem_nat v alg then Some (v, snd q) else None
  | _ => None
  end.

Definition step_eve (elim : list nat) : step := fun st =>
  let (ps, keep) := picks (eve_pick elim (st_alg st)) (st_eqs st) in
  let s := resolve FUEL ps in
  (s, mkS (map (sub_pair s) keep) (st_args st) (st_params st) (st_consts st)
          (st_states st) (remove_all (map fst ps) (st_alg st)) (st_inputs st)).

Definition da_pick (alg : list nat) (q : expr * expr) : option (nat * expr) :=
  match fst q, norm (snd q) with
  | Ref (SVar a), Ref (SVar b) => if mem_nat a alg then Some (a, Ref (SVar b)) else None
  | Ref (SVar a), Neg (Ref (SVar b)) => if mem_nat a alg then Some (a, Neg (Ref (SVar b))) else None
  | _, _ => None
  end.

Definition step_da : step := fun st =>
  let (ps, keep) := picks (da_pick (st_alg st)) (st_eqs st) in
  let s := resolve FUEL ps in
  (s, mkS (map (sub_pair s) keep) (st_args st) (st_params st) (st_consts st)
          (st_states st) (remove_all (map fst ps) (st_alg st)) (st_inputs st)).

(* one step: equations etc. by the step itself, delay arguments by the SAME substitution *)
Definition do_step (f : step) (st : sst) : subst * sst :=
  let (s, st') := f st in (s, with_args st' (map (sub_rec s) (st_args st))).

Fixpoint run (fs : list step) (st : sst) : list subst * sst :=
  match fs with
  | [] => ([], st)
  | f :: r => let (s, st1) := do_step f st in let (ss, st2) := run r st1 in (s :: ss, st2)
  end.

(* the variant seeded as m6: the substitutions are queued and flushed as ONE simultaneous substitution *)
Fixpoint run_merged_aux (fs : list step) (st : sst) : list subst * sst :=
  match fs with
  | [] => ([], st)
  | f :: r => let (s, st1) := f st in let (ss, st2) := run_merged_aux r st1 in (s :: ss, st2)
  end.
Definition run_merged (fs : list step) (st : sst) : list subst * sst :=
  let (ss, st') := run_merged_aux fs st in (ss, with_args st' (map (sub_rec (concat ss)) (st_args st))).

Record opts := mkOpts { o_rpe : bool; o_rce : bool; o_eca : bool; o_rpv : bool; o_rcv : bool; o_eve : bool; o_da : bool }.

(* _simplify_once order *)
Definition steps_of (o : opts) (elim : list nat) : list step :=
  (if o_rpe o then [step_rpe] else []) ++ (if o_rce o then [step_rce] else []) ++
  (if o_eca o then [step_eca] else []) ++ (if o_rpv o then [step_rpv] else []) ++
  (if o_rcv o then [step_rcv] else []) ++ (if o_eve o then [step_eve elim] else []) ++
  (if o_da o then [step_da] else []).

(* ---- input: a scalar model + the declared values + which names match the eliminable regex ---- *)
Record smodel := mkSM { sm_model : model; sm_vals : list (nat * expr); sm_elim : list nat }.

Fixpoint tr_pairs (base : nat) (eqs : list eqn) (st : list drec) : list (expr * expr) * list drec :=
  match eqs with
  | [] => ([], st)
  | Eq l r :: q =>
      let (l', s1) := tr base None l st in
      let (r', s2) := tr base None r s1 in
      let (ps, s3) := tr_pairs base q s2 in ((l', r') :: ps, s3)
  | For _ _ _ :: q => tr_pairs base q st                       (* out of scope *)
  end.

Definition value_of (sm : smodel) (v : nat) : expr :=
  match lookup v (sm_vals sm) with Some e => e | None => Ref (SVar v) end.   (* no value: stays symbolic *)

Definition init (sm : smodel) : sst :=
  let m := sm_model sm in
  let (eqs, args) := tr_pairs (m_base m) (m_eqs m) [] in
  mkS eqs args (map (fun v => (v, value_of sm v)) (parameters m)) (map (fun v => (v, value_of sm v)) (constants m))
      (states m) (alg_states m)
      (map (fun k => (m_base m + k, false)) (seq 0 (length args)) ++
       flat_map (fun d => match d_kind d with KInput f => [(d_id d, f)] | _ => [] end) (m_decls m)).

Definition final (o : opts) (sm : smodel) : sst := snd (run (steps_of o (sm_elim sm)) (init sm)).

(* ---- _post_checks and delay_arguments_function on the simplified model ---- *)
Definition disallowed_s (st : sst) : list sym :=
  [STime] ++ map SVar (st_states st) ++ map SDer (st_states st) ++ map SVar (st_alg st) ++
  map (fun x => SVar (fst x)) (filter (fun x => negb (snd x)) (st_inputs st)).

Definition accept_s (st : sst) : bool :=
  match st_args st with
  | [] => true
  | _ => forallb (fun r => negb (existsb (fun s => mem_sym s (disallowed_s st)) (deps (dr_dur r)))) (st_args st)
  end.

(* the Function's inputs: time, states, der_states, alg_states, inputs, constants, parameters *)
Definition known_s (st : sst) : list sym :=
  [STime] ++ map SVar (st_states st) ++ map SDer (st_states st) ++ map SVar (st_alg st) ++
  map (fun x => SVar (fst x)) (st_inputs st) ++ map (fun x => SVar (fst x)) (st_consts st) ++
  map (fun x => SVar (fst x)) (st_params st).

Definition closed_s (st : sst) : bool :=
  forallb (fun r => forallb (fun s => mem_sym s (known_s st)) (deps (dr_expr r) ++ deps (dr_dur r))) (st_args st).

Definition outputs_s (st : sst) (en : envd) : list (list Z) :=
  flat_map (fun r => [expr_entry en r; [eval en 0 (dr_dur r)]]) (st_args st).

Definition outcome_s (st : sst) (pts : list envd) : obs :=
  if negb (accept_s st) then ORej
  else if negb (closed_s st) then OFuncFail
  else OAcc (map (outputs_s st) pts).

Definition check_case_s (c : smodel * opts * list envd * obs) : bool :=
  let '(sm, o, pts, ob) := c in obs_eqb (outcome_s (final o sm) pts) ob.

(* one entry point for the correspondence check: default-option cases and option-chain cases *)
Definition check_any (c : (model * list envd * obs) + (smodel * opts * list envd * obs)) : bool :=
  match c with inl x => check_case x | inr y => check_case_s y end.
