(* C17 — executable value-level model of src/pymoca/backends/casadi/alias_relation.py.
   A signed variable name is (negated?, id).  Python strings "-x" / "x".
   No proofs here: the model must keep running when a proof breaks. *)
From stdpp Require Import gmap.
From PV Require Import Lib.Closure.

Definition svar : Type := bool * positive.          (* true = negated *)
Definition tog (v : svar) : svar := (negb v.1, v.2). (* __toggle_sign *)
Notation amap := (gmap svar (gset svar)).
Definition togs (A : gset svar) : gset svar := set_map tog A.

(* the _aliases part of AliasRelation.add, alias_relation.py:12-26 *)
Definition add_al (m : amap) (a b : svar) : amap :=
  let A := cls m a in
  if decide (b ∈ A) then m else
  let IA := cls m (tog a) in
  let A' := A ∪ cls m b in
  let IA' := IA ∪ cls m (tog b) in
  set_fold (fun v (acc : amap) => <[v := A']> (<[tog v := IA']> acc)) m A'.

(* canonical map entries: (canonical unsigned name, negative?) *)
Notation cmapT := (gmap svar (positive * bool)).

Record rel := Rel { al : amap; cm : cmapT; cv : gset positive }.
Definition empty_rel : rel := Rel ∅ ∅ ∅.

(* canonical_signed, alias_relation.py:54-61 *)
Definition canon (m : cmapT) (a : svar) : positive * bool :=
  match m !! a with Some r => r | None => (a.2, a.1) end.

(* AliasRelation.add, alias_relation.py:12-40 *)
Definition add (r : rel) (a b : svar) : rel :=
  if decide (b ∈ cls (al r) a) then r else
  let al' := add_al (al r) a b in
  let A' := cls al' a in
  let '(ca, sa) := canon (cm r) a in
  let '(cb, _) := canon (cm r) b in
  let cv' := (cv r ∪ {[ca]}) ∖ {[cb]} in
  let cm' := set_fold (fun v (acc : cmapT) => <[tog v := (ca, negb sa)]> (<[v := (ca, sa)]> acc)) (cm r) A' in
  Rel al' cm' cv'.

(* AliasRelation.remove, alias_relation.py:75-85.  `a` is looked up in the set of
   canonical (unsigned) names, so a negated argument is never found. *)
Definition remove (r : rel) (a : svar) : rel :=
  if a.1 then r else
  if decide (a.2 ∈ cv r) then
    let R := cls (al r) a ∪ cls (al r) (tog a) in
    Rel (set_fold (fun v (acc : amap) => delete v acc) (al r) R)
        (set_fold (fun v (acc : cmapT) => delete v acc) (cm r) R)
        (cv r ∖ {[a.2]})
  else r.

(* queries *)
Definition q_aliases (r : rel) (a : svar) : gset svar := cls (al r) a.
Definition q_canon (r : rel) (a : svar) : positive * bool := canon (cm r) a.
Definition q_iter (r : rel) : list (positive * gset svar) :=
  map (fun c => (c, cls (al r) (false, c) ∖ {[(false, c)]})) (elements (cv r)).

(* histories over several relations; Copy appends a new relation (copy() is the identity
   on values: the sharing structure of the Python objects is what the correspondence
   check exercises) *)
Inductive op := Add (r : nat) (a b : svar) | Remove (r : nat) (a : svar) | Copy (r : nat).

Definition upd (rs : list rel) (i : nat) (f : rel → rel) : list rel :=
  match rs !! i with Some r => <[i := f r]> rs | None => rs end.

Definition step (rs : list rel) (o : op) : list rel :=
  match o with
  | Add i a b => upd rs i (fun r => add r a b)
  | Remove i a => upd rs i (fun r => remove r a)
  | Copy i => match rs !! i with Some r => rs ++ [r] | None => rs end
  end.

Definition run_ops (ops : list op) : list rel := fold_left step ops [empty_rel].

(* ---- observation used by the correspondence check ---- *)
(* per relation: for every signed name of the universe (aliases, canonical), then the canonical set *)
Definition obs_rel : Type := list (list svar * (positive * bool)) * list positive.

Definition obs_matches (U : list svar) (r : rel) (o : obs_rel) : bool :=
  bool_decide (length o.1 = length U) &&
  forallb (fun '(k, (A, c)) =>
      bool_decide (q_aliases r k = list_to_set A) && bool_decide (q_canon r k = c))
    (zip U o.1) &&
  bool_decide (cv r = list_to_set o.2).

Definition obs_all (U : list svar) (rs : list rel) (os : list obs_rel) : bool :=
  bool_decide (length rs = length os) && forallb (fun '(r, o) => obs_matches U r o) (zip rs os).

(* a case = universe, ops, and the observation after each op *)
Fixpoint check_trace (U : list svar) (rs : list rel) (ops : list op) (obs : list (list obs_rel)) : bool :=
  match ops, obs with
  | [], [] => true
  | o :: ops', ob :: obs' => let rs' := step rs o in obs_all U rs' ob && check_trace U rs' ops' obs'
  | _, _ => false
  end.

Definition check_case (c : list svar * list op * list (list obs_rel)) : bool :=
  let '(U, ops, obs) := c in check_trace U [empty_rel] ops obs.

Fixpoint bad_indices {A} (f : A → bool) (l : list A) (i : nat) : list nat :=
  match l with [] => [] | x :: l' => (if f x then [] else [i]) ++ bad_indices f l' (S i) end.
