(* C26 — executable model of tools/compiler.py main() (lines 160-349 at /repo HEAD):
   invocation facts -> Exit n | Raises cls.  The error-accounting skeleton (the
   `errors += ...` sites of main and the except-clause classes of parse_file, translate
   and main; translators T11/T7) is a parameter `skel`, so that the table regenerated
   from the source on every run (run/C26/Tie_C26.v) instantiates the same model.
   No proofs here: the model must keep running when a proof breaks.  Stdlib only. *)
From Coq Require Import List Arith Bool.
Import ListNotations.

(* ---- exception classes (all subclasses of Exception; BaseException-only classes such as
   KeyboardInterrupt are not modelled) and handler class names -------------------- *)
Inductive exc := EKey | EAttr | EOS | EValue | EOther.
Inductive hcls := HException | HBaseException | HKeyError | HAttributeError | HOSError | HValueError.

Definition catches1 (h : hcls) (e : exc) : bool :=
  match h, e with
  | HException, _ | HBaseException, _ => true
  | HKeyError, EKey | HAttributeError, EAttr | HOSError, EOS | HValueError, EValue => true
  | _, _ => false
  end.
Definition catches (hs : list hcls) (e : exc) : bool := existsb (fun h => catches1 h e) hs.
Definition all_exc : list exc := [EKey; EAttr; EOS; EValue; EOther].
Definition broad (hs : list hcls) : bool := forallb (catches hs) all_exc.

Definition exc_eqb (a b : exc) : bool :=
  match a, b with
  | EKey, EKey | EAttr, EAttr | EOS, EOS | EValue, EValue | EOther, EOther => true
  | _, _ => false
  end.

(* ---- the skeleton table (T11 increments, T7 handler classes) ------------------ *)
Inductive incr := IConst (n : nat) | ILenErr.          (* errors += <int> | errors += len(error_files) *)
Definition ev (i : incr) (nerr : nat) : nat := match i with IConst n => n | ILenErr => nerr end.

Record skel := Skel {
  k_combo_first : bool;  (* :227-228 argp.error(-t without -m) stands BEFORE `if errors: return errors` (:266) *)
  k_outdir : nat;        (* compiler.py:240-242  not args.outdir.is_dir()            *)
  k_path : nat;          (* :243-246  per PATH that does not exist                  *)
  k_opt : nat;           (* :262-264  per -O that is not NAME=VALUE                 *)
  k_nofiles_s : nat;     (* :275-277  sympy/flatten branch, no .mo files            *)
  k_parse : incr;        (* :278-279  elif error_files: errors += len(error_files)  *)
  k_translate : nat;     (* :283-284  if not translate(...): errors += 1            *)
  k_flatten : nat;       (* :289-294  handler around flatten_class                  *)
  k_nofiles_c : nat;     (* :300-302  casadi branch, no .mo files                   *)
  k_ambig : nat;         (* :309-313  second file named like the model (then break) *)
  k_nodir : nat;         (* :315-317  if not model_dir                              *)
  k_transfer : nat;      (* :323-328  handler around casadi_api.transfer_model      *)
  h_parse : list hcls;             (* parse_file :68   except (...) -> return None  *)
  h_translate : list (list hcls);  (* translate :143,150  handlers, each `return False` *)
  h_flatten : list hcls;           (* main :289 *)
  h_transfer : list hcls           (* main :323 *)
}.

(* the table of /repo HEAD (after 52ae5a2: parse_file catches Exception) written by hand; used
   when the translator does not recognise the shape of the source, and as the non-vacuity witness
   of the side condition *)
Definition head_skel : skel :=
  Skel true 1 1 1 1 ILenErr 1 1 1 0 1 1
       [HException] [[HOSError]; [HException]] [HException] [HException].
(* the table before 52ae5a2: parse_file caught (KeyError, AttributeError, OSError) only *)
Definition narrow_skel : skel :=
  Skel true 1 1 1 1 ILenErr 1 1 1 0 1 1
       [HKeyError; HAttributeError; HOSError] [[HOSError]; [HException]] [HException] [HException].

(* ---- invocation facts --------------------------------------------------------- *)
Inductive argres := AOk | AError | AExit0.     (* argparse: accepted | error (SystemExit 2) | --version/-h *)
Inductive target := TNone | TSympy | TCasadi.
Inductive pres := POk | PNone | PExc (e : exc). (* open+read+pymoca.parser.parse of one file: tree | None | raises *)
Inductive mres := MOk | MExc (e : exc).         (* the model alone: flatten | generate+write | transfer_model *)
Record mfacts := MF {
  m_res : mres;
  m_match : list bool    (* per listed file: path.stem == model (casadi branch) *)
}.
Record facts := Facts {
  f_argparse : argres;
  f_target : target;
  f_outdir_ok : bool;
  f_paths : list bool;      (* per PATH: exists *)
  f_opts : list bool;       (* per -O: exactly one '=' *)
  f_files : list pres;      (* list_modelica_files(PATH), in order *)
  f_models : list mfacts    (* -m, in order *)
}.

Inductive outcome := Exit (n : nat) | Raises (e : exc).

Definition sum (l : list nat) : nat := fold_right Nat.add 0 l.
Definition is_nil {A} (l : list A) : bool := match l with [] => true | _ => false end.
Definition is_tnone (t : target) : bool := match t with TNone => true | _ => false end.

(* parse_all :79-98 with parse_file :47-76 inlined.  `if file_ast:` is true for every Tree
   (ast.Tree defines neither __bool__ nor __len__). *)
Fixpoint parse_all (hp : list hcls) (fs : list pres) (nerr : nat) : nat + exc :=
  match fs with
  | [] => inl nerr
  | POk :: r => parse_all hp r nerr
  | PNone :: r => parse_all hp r (S nerr)
  | PExc e :: r => if catches hp e then parse_all hp r (S nerr) else inr e
  end.

(* one iteration of `for model in args.model`: increment or escaping exception *)
Definition step_flatten (sk : skel) (m : mfacts) : nat + exc :=      (* :285-294 *)
  match m_res m with
  | MOk => inl 0
  | MExc e => if catches (h_flatten sk) e then inl (k_flatten sk) else inr e
  end.

Definition translate (sk : skel) (m : mfacts) : bool + exc :=        (* :113-157, sympy *)
  match m_res m with
  | MOk => inl true
  | MExc e => if existsb (fun hs => catches hs e) (h_translate sk) then inl false else inr e
  end.
Definition step_sympy (sk : skel) (m : mfacts) : nat + exc :=        (* :282-284 *)
  match translate sk m with
  | inl true => inl 0
  | inl false => inl (k_translate sk)
  | inr e => inr e
  end.

(* :304-314  the inner `for path in modelica_files` with its break;
   returns (model_dir is set, increments made inside the loop) *)
Fixpoint find_dir (ka : nat) (ms : list bool) (have : bool) : bool * nat :=
  match ms with
  | [] => (have, 0)
  | false :: r => find_dir ka r have
  | true :: r => if have then (false, ka) else find_dir ka r true
  end.
Definition step_casadi (sk : skel) (m : mfacts) : nat + exc :=       (* :303-328 *)
  let '(d, a) := find_dir (k_ambig sk) (m_match m) false in
  if negb d then inl (a + k_nodir sk)
  else match m_res m with
       | MOk => inl a
       | MExc e => if catches (h_transfer sk) e then inl (a + k_transfer sk) else inr e
       end.

Fixpoint loop_m (step : mfacts -> nat + exc) (ms : list mfacts) (errors : nat) : outcome :=
  match ms with
  | [] => Exit errors
  | m :: r => match step m with inl k => loop_m step r (errors + k) | inr e => Raises e end
  end.

Definition usage_errors (sk : skel) (f : facts) : nat :=              (* :239-264 *)
  (if f_outdir_ok f then 0 else k_outdir sk)
  + sum (map (fun b : bool => if b then 0 else k_path sk) (f_paths f))
  + sum (map (fun b : bool => if b then 0 else k_opt sk) (f_opts f)).

Definition main_with (sk : skel) (f : facts) : outcome :=
  match f_argparse f with
  | AError => Exit 2                                                   (* :216 argp.parse_args *)
  | AExit0 => Exit 0
  | AOk =>
    let combo := negb (is_tnone (f_target f)) && is_nil (f_models f) in
    if k_combo_first sk && combo then Exit 2                           (* :227-228 argp.error *)
    else
      let e1 := usage_errors sk f in
      if negb (e1 =? 0) then Exit e1                                   (* :266-267 *)
      else if combo then Exit 2                 (* only for a table with the check moved below :266 *)
      else match f_target f with
      | TCasadi =>                                                     (* :296-328 *)
        if is_nil (f_files f) then Exit (k_nofiles_c sk)
        else loop_m (step_casadi sk) (f_models f) 0
      | t =>                                                           (* :272-294 *)
        match parse_all (h_parse sk) (f_files f) 0 with
        | inr e => Raises e
        | inl nerr =>
          let e2 := if is_nil (f_files f) then k_nofiles_s sk
                    else if nerr =? 0 then 0 else ev (k_parse sk) nerr in
          if (e2 =? 0) && negb (is_nil (f_models f))
          then loop_m (if is_tnone t then step_flatten sk else step_sympy sk) (f_models f) e2
          else Exit e2
        end
      end
  end.

Definition main : facts -> outcome := main_with head_skel.

(* ---- the property's sentence, as a specification ------------------------------- *)
Definition bad_file (p : pres) : bool := match p with POk => false | _ => true end.
Definition res_fails (r : mres) : bool := match r with MOk => false | MExc _ => true end.
Definition count_true (l : list bool) : nat := length (filter (fun b : bool => b) l).
(* a model fails: no unique file named like it (casadi only) or its flatten/generate fails *)
Definition model_fails (t : target) (m : mfacts) : bool :=
  match t with
  | TCasadi => negb (count_true (m_match m) =? 1) || res_fails (m_res m)
  | _ => res_fails (m_res m)
  end.
Definition contrib (t : target) (m : mfacts) : nat := if model_fails t m then 1 else 0.
Definition usage_count (f : facts) : nat :=
  (if f_outdir_ok f then 0 else 1) + length (filter negb (f_paths f)) + length (filter negb (f_opts f)).
Definition parse_count (f : facts) : nat :=
  match f_target f with
  | TCasadi => 0                         (* that branch does not parse; transfer_model does *)
  | _ => length (filter bad_file (f_files f))
  end.
Definition count (f : facts) : nat :=
  match f_argparse f with
  | AError => 2
  | AExit0 => 0
  | AOk =>
    if negb (is_tnone (f_target f)) && is_nil (f_models f) then 2
    else if negb (usage_count f =? 0) then usage_count f
    else if is_nil (f_files f) then 1
    else if negb (parse_count f =? 0) then parse_count f
    else sum (map (contrib (f_target f)) (f_models f))
  end.

(* side condition on a skeleton table: every failing-outcome branch increments exactly once
   (the ambiguous-file case through `if not model_dir`), the parse-error count is the number of
   error files, and the handlers around translate/flatten/transfer catch every Exception *)
Definition skel_ok (sk : skel) : bool :=
  k_combo_first sk && (k_outdir sk =? 1) && (k_path sk =? 1) && (k_opt sk =? 1) && (k_nofiles_s sk =? 1)
  && (match k_parse sk with ILenErr => true | _ => false end)
  && (k_translate sk =? 1) && (k_flatten sk =? 1) && (k_nofiles_c sk =? 1)
  && (k_ambig sk =? 0) && (k_nodir sk =? 1) && (k_transfer sk =? 1)
  && broad (h_flatten sk) && broad (h_transfer sk)
  && forallb (fun e => existsb (fun hs => catches hs e) (h_translate sk)) all_exc.
(* does parse_file catch every Exception?  (not part of skel_ok: see C26_count) *)
Definition parse_broad (sk : skel) : bool := broad (h_parse sk).

(* ---- correspondence ------------------------------------------------------------ *)
Definition outcome_eqb (a b : outcome) : bool :=
  match a, b with
  | Exit n, Exit m => n =? m
  | Raises e, Raises e' => exc_eqb e e'
  | _, _ => false
  end.
(* a case = facts measured independently in the child + what compiler.main(argv) did *)
Definition check_case (sk : skel) (c : facts * outcome) : bool := outcome_eqb (main_with sk (fst c)) (snd c).
