(* C13 — the affinity test of variable_metadata_function (model.py:1381-1401) on the polynomial
   fragment.  An attribute expression built from constants, parameters, + - * neg, integer powers
   and division by parameter-free divisors is expanded into a list of terms
   coefficient * p_x1 * ... * p_xk WITHOUT combining like terms: this is the structural view that
   CasADi's sparsity propagation has (p*q - p*q still "depends" on p and q).
   The Hessian test `jacobian(jacobian(expr, in_var), in_var).is_zero()` is modelled as: every
   second structural partial derivative has no terms.  No proofs here. *)
From Coq Require Import QArith Qcanon List Bool ZArith.
From PV Require Import Model.C13_metadata.
Import ListNotations.
Local Open Scope Qc_scope.

Notation mono := (list nat) (only parsing). (* p_x1 * ... * p_xk, repetition = power *)
Notation poly := (list (Qc * list nat)) (only parsing). (* sum of terms, not combined *)

Definition meval (p : list Qc) (m : mono) : Qc := fold_right (fun x acc => nth x p 0 * acc) 1 m.
Definition peval (p : list Qc) (P : poly) : Qc :=
  fold_right (fun t acc => fst t * meval p (snd t) + acc) 0 P.

Definition pscale (c : Qc) (P : poly) : poly := map (fun t => (c * fst t, snd t)) P.
Definition pmul (P Q : poly) : poly :=
  flat_map (fun t => map (fun u => (fst t * fst u, snd t ++ snd u)) Q) P.
Fixpoint ppow (P : poly) (n : nat) : poly :=
  match n with O => [(1, [])] | S k => pmul P (ppow P k) end.

(* expansion; None = outside the polynomial fragment (division by a parameter-dependent term) *)
Fixpoint pnorm (e : aexp) : option poly :=
  match e with
  | Cst c => Some [(c, [])]
  | Par i => Some [(1, [i])]
  | Add a b => match pnorm a, pnorm b with Some P, Some Q => Some (P ++ Q) | _, _ => None end
  | Sub a b => match pnorm a, pnorm b with Some P, Some Q => Some (P ++ pscale (-(1)) Q) | _, _ => None end
  | Mul a b => match pnorm a, pnorm b with Some P, Some Q => Some (pmul P Q) | _, _ => None end
  | Div a b => if pfree b then match pnorm a with Some P => Some (pscale (/ v0 b) P) | None => None end
               else None
  | Neg a => match pnorm a with Some P => Some (pscale (-(1)) P) | None => None end
  | Pow a n => match pnorm a with Some P => Some (ppow P n) | None => None end
  | IfB _ _ _ | NotB _ | LtB _ _ => None
  end.

(* structural partial derivative: Leibniz rule, one term per occurrence of p_i *)
Fixpoint drop1 (i : nat) (m : mono) : list mono :=
  match m with
  | [] => []
  | x :: m' => (if Nat.eqb x i then [m'] else []) ++ map (cons x) (drop1 i m')
  end.
Definition pd (i : nat) (P : poly) : poly :=
  flat_map (fun t => map (fun m' => (fst t, m')) (drop1 i (snd t))) P.

(* the code's test: the Hessian has no structural non-zero *)
Definition hess_zero (P : poly) : Prop := forall i j, pd i (pd j P) = [].
(* total degree <= 1 *)
Definition deg_le1 (P : poly) : bool := forallb (fun t => Nat.leb (length (snd t)) 1) P.

(* the two replacement tests that were seeded (C13/m1, C19/m1) *)
Definition hess_num0 (P : poly) : Prop := forall i j, peval [] (pd i (pd j P)) = 0.   (* numeric, at p = 0 *)
Definition hess_diag (P : poly) : Prop := forall i, pd i (pd i P) = [].              (* per parameter only *)

(* back to an attribute expression: sum of c * (p_x1 * (... * 1)) *)
Definition mono_aexp (m : mono) : aexp := fold_right (fun x acc => Mul (Par x) acc) (Cst 1) m.
Definition term_aexp (t : Qc * mono) : aexp := Mul (Cst (fst t)) (mono_aexp (snd t)).
Definition to_aexp (P : poly) : aexp := fold_right (fun t acc => Add (term_aexp t) acc) (Cst 0) P.

(* the modelled test on all cells of a model (polynomial fragment; anything else fails) *)
Definition cell_test (c : cell) : bool :=
  match c with
  | CLit _ => true
  | CExp e => match pnorm e with Some P => deg_le1 P | None => false end
  end.
Definition test_ok (M : model) : bool :=
  match cells M with Some cs => forall3 cell_test cs | None => false end.

