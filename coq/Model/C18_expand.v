(* C18 — vector expansion is a faithful renaming to scalars.
   Executable model of pymoca/backends/casadi/model.py  Model._expand_vectors  (l.269-449 at 6e5de6c..)
   and of the shape bookkeeping it reads (generator.py get_symbol l.702-762: `_modelica_shape`).
   No proofs in this file.  stdlib only; names are Coq strings because the property is about naming. *)
From Coq Require Import String Ascii List Arith ZArith Bool DecimalString.
Import ListNotations.
Open Scope string_scope.
Open Scope nat_scope.

(* ---------------------------------------------------------------------------------------- *)
(* strings                                                                                    *)
Definition show_nat (n : nat) : string := NilEmpty.string_of_uint (Nat.to_uint n).

Fixpoint commas (l : list string) : string :=
  match l with
  | [] => ""
  | [x] => x
  | x :: r => x ++ "," ++ commas r
  end.

(* "a.b.c".split(".")  (l.324) *)
Fixpoint split_dot_aux (s : string) (cur : string -> string) : list string :=
  match s with
  | EmptyString => [cur ""]
  | String c r => if Ascii.eqb c "."%char then cur "" :: split_dot_aux r (fun x => x)
                  else split_dot_aux r (fun x => cur (String c x))
  end.
Definition split_dot (s : string) : list string := split_dot_aux s (fun x => x).

(* re.match(r"((?:der\()*|\b)(.*?)([\)]*|\b)$")  (l.320): leading "der(" repeated, all trailing ")" *)
Fixpoint strip_der (fuel : nat) (s : string) : nat * string :=
  match fuel with
  | O => (O, s)
  | S f => match s with
           | String "d" (String "e" (String "r" (String "(" r))) =>
               let '(k, r') := strip_der f r in (S k, r')
           | _ => (O, s)
           end
  end.
Fixpoint rstrip_paren (s : string) : string * nat :=
  match s with
  | EmptyString => (EmptyString, O)
  | String c r => let '(r', k) := rstrip_paren r in
                  match r' with
                  | EmptyString => if Ascii.eqb c ")"%char then (EmptyString, S k) else (String c r', k)
                  | _ => (String c r', k)
                  end
  end.
Fixpoint rep (k : nat) (s : string) : string :=
  match k with O => "" | S k' => s ++ rep k' s end.

(* ---------------------------------------------------------------------------------------- *)
(* shapes and index enumeration                                                               *)
(* _modelica_shape: one group per dotted component; [] stands for (None,) (a scalar component).
   Delay states carry the flat MX shape (n1, n2) instead (mtensor._new_mx).                   *)
Inductive vshape := Nested (g : list (list nat)) | Flat (d : list nat).

(* np.ndindex: row-major, last index fastest *)
Fixpoint ndindex (dims : list nat) : list (list nat) :=
  match dims with
  | [] => [[]]
  | d :: r => flat_map (fun i => map (cons i) (ndindex r)) (seq 0 d)
  end.

Definition product (dims : list nat) : nat := fold_right Nat.mul 1 dims.

(* l.340-342 *)
Definition iter_dims (s : vshape) : list nat :=
  match s with Nested g => concat g | Flat d => d end.

(* set(shape) != {(None,)}  (l.290): some group has dimensions.  For a Flat shape the set holds ints. *)
Definition has_dims (s : vshape) : bool :=
  match s with
  | Nested g => existsb (fun x => negb (Nat.eqb (length x) 0)) g
  | Flat _ => true
  end.

(* l.326-336 followed by .format(i+1 ...) (l.347): per-component index groups, 1-based *)
Fixpoint render (names : list string) (groups : list (list nat)) (idx : list nat) : string :=
  match names, groups with
  | n :: ns, g :: gs =>
      let k := length g in
      n ++ (if Nat.eqb k 0 then "" else "[" ++ commas (map (fun i => show_nat (S i)) (firstn k idx)) ++ "]")
        ++ (match ns with [] => "" | _ => "." ++ render ns gs (skipn k idx) end)
  | _, _ => ""
  end.

(* the scalar name of element idx; None = the assert of l.325 fails *)
Definition scalar_name (name : string) (s : vshape) (idx : list nat) : option string :=
  match s with
  | Flat d => Some (render [name] [d] idx)                         (* l.298-306 *)
  | Nested g =>
      let '(k, rest) := strip_der (String.length name) name in
      let '(mid, j) := rstrip_paren rest in
      let comps := split_dot mid in
      if Nat.eqb (length comps) (length g)
      then Some (rep k "der(" ++ render comps g idx ++ rep j ")")
      else None
  end.

(* ---------------------------------------------------------------------------------------- *)
(* attributes (l.350-374)                                                                     *)
Inductive aval := ANum (z : Z) | ANaN | APInf | ANInf.      (* numbers scaled by 64 by the harness *)
Inductive nlist := NLeaf (a : aval) | NNode (l : list nlist).
Inductive attr :=
  | AtScalar (a : aval)                                       (* np.isscalar(value) *)
  | AtList (l : nlist)                                        (* python list *)
  | AtMat (ismx : bool) (n1 n2 : nat) (rows : list (list aval)).  (* ca.DM / ca.MX, given row-wise *)
Inductive sel := SVal (a : aval) | SSub (l : nlist) | SErr.

(* for i in ind: val = val[i]   (l.357-360) *)
Fixpoint sel_list (v : nlist) (idx : list nat) : sel :=
  match idx with
  | [] => match v with NLeaf a => SVal a | _ => SSub v end
  | i :: r => match v with
              | NLeaf _ => SErr                                (* TypeError: not subscriptable *)
              | NNode l => match nth_error l i with
                           | Some x => sel_list x r
                           | None => SErr                      (* IndexError *)
                           end
              end
  end.

Definition mat_get (rows : list (list aval)) (i j : nat) : sel :=
  match nth_error rows i with
  | Some r => match nth_error r j with Some a => SVal a | None => SErr end
  | None => SErr
  end.

(* value[ind] on a CasADi matrix: one index = linear, column-major; two = (row, col)  (l.362, l.372) *)
Definition sel_mat (n1 n2 : nat) (rows : list (list aval)) (idx : list nat) : sel :=
  match idx with
  | [k] => if Nat.ltb k (n1 * n2) then mat_get rows (k mod n1) (k / n1) else SErr
  | [i; j] => if Nat.ltb i n1 && Nat.ltb j n2 then mat_get rows i j else SErr
  | _ => SErr
  end.

Definition sel_attr (a : attr) (idx : list nat) : sel :=
  match a with
  | AtScalar v => SVal v                                       (* l.354-356 *)
  | AtList l => sel_list l idx
  | AtMat false n1 n2 rows => sel_mat n1 n2 rows idx           (* l.361-364 *)
  | AtMat true n1 n2 rows =>                                   (* l.368-372 *)
      if Nat.eqb (n1 * n2) 1 then mat_get rows 0 0 else sel_mat n1 n2 rows idx
  end.

(* attribute of a variable that is not expanded: kept as it is *)
Definition keep_attr (a : attr) : sel :=
  match a with
  | AtScalar v => SVal v
  | AtList l => SSub l
  | AtMat _ 1 1 [[v]] => SVal v
  | AtMat _ _ _ _ => SErr
  end.

(* ---------------------------------------------------------------------------------------- *)
(* CasADi matrices: column-major storage; reshape keeps the storage; transpose               *)
Record mat := mk_mat { m_rows : nat; m_cols : nat; m_data : list string }.
Definition mget (m : mat) (i j : nat) : string := nth (i + j * m_rows m) (m_data m) "".
Definition column (names : list string) : mat := mk_mat (length names) 1 names.         (* vertcat *)
Definition reshape (m : mat) (r c : nat) : mat := mk_mat r c (m_data m).
Definition transpose (m : mat) : mat :=
  mk_mat (m_cols m) (m_rows m)
         (flat_map (fun c => map (fun r => mget m c r) (seq 0 (m_cols m))) (seq 0 (m_rows m))).
Definition vec (m : mat) : list string := m_data m.

(* l.384-389: reshape(vertcat(scalars...), reversed(s.shape)...).T  with s.shape = (n1, n2) *)
Definition subst_matrix (names : list string) (n1 n2 : nat) : mat :=
  transpose (reshape (column names) n2 n1).

(* ---------------------------------------------------------------------------------------- *)
(* one variable, the list updates, the main loop                                              *)
Record uvar := mk_uvar { uname : string; ushape : vshape; usize : nat * nat; uattrs : list attr }.

Definition opt_all {A} (l : list (option A)) : option (list A) :=
  fold_right (fun x acc => match x, acc with Some a, Some r => Some (a :: r) | _, _ => None end) (Some []) l.

Definition sel_ok (s : sel) : bool := match s with SErr => false | _ => true end.

(* expanded (name, attributes) list of one variable; None = an exception escapes _expand_vectors *)
Definition expand_var (v : uvar) : option (list (string * list sel)) :=
  let idxs := ndindex (iter_dims (ushape v)) in
  match opt_all (map (scalar_name (uname v) (ushape v)) idxs) with
  | None => None
  | Some names =>
      let attrs := map (fun idx => map (fun a => sel_attr a idx) (uattrs v)) idxs in
      if forallb (forallb sel_ok) attrs then Some (combine names attrs) else None
  end.

Fixpoint index_of (x : string) (l : list string) : option nat :=
  match l with
  | [] => None
  | y :: r => if String.eqb x y then Some 0 else option_map S (index_of x r)
  end.
Definition mem (x : string) (l : list string) : bool :=
  match index_of x l with Some _ => true | None => false end.

(* l.414-421: outputs.pop(i); insert the new names at i (reversed inserts = in order) *)
Definition rename_outputs (outs : list string) (name : string) (new : list string) : list string :=
  match index_of name outs with
  | None => outs
  | Some i => (firstn i outs ++ new ++ skipn (S i) outs)%list
  end.

(* l.393-411: delay_states.pop(i); the new names are APPENDED *)
Definition rename_delay (ds : list string) (name : string) (new : list string) : list string :=
  match index_of name ds with
  | None => ds
  | Some i => (firstn i ds ++ skipn (S i) ds ++ new)%list
  end.

(* names of the delay loop l.403-406: "{}[{}]".format(state, ",".join(i+1)) over np.ndindex(shape) *)
Definition delay_names (name : string) (s : vshape) : list string :=
  map (fun idx => render [name] [iter_dims s] idx) (ndindex (iter_dims s)).

Record st := mk_st { st_outs : list string; st_delay : list string;
                     st_layout : list (string * list string) }.

Definition is_expanded (v : uvar) (delay : list string) : bool :=
  has_dims (ushape v) || mem (uname v) delay.                         (* l.289-292 *)

Definition step_var (acc : option (list (string * list sel) * st)) (v : uvar)
  : option (list (string * list sel) * st) :=
  match acc with
  | None => None
  | Some (new_vars, s) =>
      if is_expanded v (st_delay s) then
        (* a delay state is named by its flat shape whatever else is recorded (l.298) *)
        match expand_var v with
        | None => None
        | Some ex =>
            let names := map fst ex in
            let '(n1, n2) := usize v in
            let lay := if Nat.ltb 1 (n1 * n2) || mem (uname v) (st_delay s)
                       then [(uname v, vec (subst_matrix names n1 n2))] else [] in
            let ds := if mem (uname v) (st_delay s)
                      then rename_delay (st_delay s) (uname v) (delay_names (uname v) (ushape v))
                      else st_delay s in
            Some ((new_vars ++ ex)%list,
                  mk_st (rename_outputs (st_outs s) (uname v) names) ds (st_layout s ++ lay)%list)
        end
      else Some ((new_vars ++ [(uname v, map keep_attr (uattrs v))])%list, s)
  end.

Definition step_group (acc : option (list (list (string * list sel)) * st)) (g : list uvar) :=
  match acc with
  | None => None
  | Some (done, s) =>
      match fold_left step_var g (Some ([], s)) with
      | None => None
      | Some (vars, s') => Some ((done ++ [vars])%list, s')
      end
  end.

(* the whole loop over the six categories (l.275-425) *)
Definition expand_model (groups : list (list uvar)) (outs delay : list string) :=
  fold_left step_group groups (Some ([], mk_st outs delay [])).

(* ---------------------------------------------------------------------------------------- *)
(* correspondence check                                                                       *)
Inductive obs :=
  | ObsExc
  | ObsOk (groups : list (list (string * list sel))) (outs dstates : list string)
          (layouts : list (string * list string)).

Definition aval_eqb (a b : aval) : bool :=
  match a, b with
  | ANum x, ANum y => Z.eqb x y
  | ANaN, ANaN | APInf, APInf | ANInf, ANInf => true
  | _, _ => false
  end.
Fixpoint list_eqb {A} (f : A -> A -> bool) (l1 l2 : list A) : bool :=
  match l1, l2 with
  | [], [] => true
  | x :: r, y :: s => f x y && list_eqb f r s
  | _, _ => false
  end.
Fixpoint nlist_eqb (a b : nlist) : bool :=
  match a, b with
  | NLeaf x, NLeaf y => aval_eqb x y
  | NNode l1, NNode l2 =>
      (fix go (l1 l2 : list nlist) : bool :=
         match l1, l2 with
         | [], [] => true
         | x :: r, y :: s => nlist_eqb x y && go r s
         | _, _ => false
         end) l1 l2
  | _, _ => false
  end.
Definition sel_eqb (a b : sel) : bool :=
  match a, b with
  | SVal x, SVal y => aval_eqb x y
  | SSub x, SSub y => nlist_eqb x y
  | SErr, SErr => true
  | _, _ => false
  end.
Definition var_eqb (a b : string * list sel) : bool :=
  String.eqb (fst a) (fst b) && list_eqb sel_eqb (snd a) (snd b).
Definition lay_eqb (a b : string * list string) : bool :=
  String.eqb (fst a) (fst b) && list_eqb String.eqb (snd a) (snd b).

Definition check_case (c : list (list uvar) * list string * list string * obs) : bool :=
  let '(groups, outs, delay, o) := c in
  match expand_model groups outs delay, o with
  | None, ObsExc => true
  | Some (gs, s), ObsOk ogs oouts odelay olay =>
      list_eqb (list_eqb var_eqb) gs ogs
      && list_eqb String.eqb (st_outs s) oouts
      && list_eqb String.eqb (st_delay s) odelay
      && list_eqb lay_eqb (st_layout s) olay
  | _, _ => false
  end.
