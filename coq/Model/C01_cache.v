(* C01 — executable model of pymoca.parser.parse()'s cache (src/pymoca/parser.py, `parse` and
   `_check_database_structure`).  No proofs in this file.

   Abstractions (see notes/C01.md):
   - a Modelica text is a number (text id); sha256 is injective, so the cache key IS the text id;
   - `_parse` is the section variable [syntax_ok]: a fresh parse of text t gives the tree [OTree t]
     when [syntax_ok t] and no tree otherwise (deterministic function of the text);
   - a pickled value is a [blob]: what the real pickle.loads does with it (returns the tree of text t,
     raises an exception of class e, returns None, returns some other object);
   - [caught e]: is exception class e caught by the `except` clause around pickle.loads (regenerated from
     the source on every run); [handles_dberr]: does parse() fall back to a fresh parse when the cache
     lookup raises sqlite3.DatabaseError in a process that has already checked the database (measured on
     the running code on every run);
   - time is in microseconds (Z), only differences matter. *)
From Coq Require Import List Bool Arith ZArith.
Import ListNotations.
Open Scope Z_scope.

(* exception classes pickle.loads was seen to raise / can raise on damaged data *)
Inductive exn := UnpicklingError | EOFError | AttributeError | ModuleNotFoundError | ImportError
               | TypeError | ValueError | IndexError | KeyError | MemoryError | OverflowError
               | UnicodeDecodeError | OtherExn.
Scheme Equality for exn.
Definition all_exn : list exn :=
  [UnpicklingError; EOFError; AttributeError; ModuleNotFoundError; ImportError; TypeError; ValueError;
   IndexError; KeyError; MemoryError; OverflowError; UnicodeDecodeError; OtherExn].

Inductive dberr := DatabaseError | OperationalError.
Scheme Equality for dberr.

Inductive blob := Good (t : nat) | Raises (e : exn) | PickledNone | OtherObject.

Record row := Row { r_key : nat; r_ver : nat; r_blob : blob; r_hit : Z }.

(* models table: absent / present with other columns / present with the expected four columns
   (extra = usable by the SELECT/INSERT but rejected by the layout check: an additional fifth column, or the
   right names and key with other declared types) / MView = a VIEW named models: the table check does not see it,
   DROP TABLE IF EXISTS models raises on it, INSERT into it raises: the code cannot repair this *)
Inductive models := MAbsent | MWrong | MView | MOk (extra : bool) (rows : list row).
Inductive meta := TAbsent | TWrong | TOk.
(* Dir = the database path is a directory: sqlite3.connect raises, nothing can repair it *)
Inductive db := Missing | Garbage | Dir | Db (m : models) (t : meta).
Inductive version := Clean (n : nat) | Dirty (n : nat).

Record state := St { s_db : db; s_init : bool; s_clock : Z; s_ver : version }.

Inductive layout_kind := LModelsDropped | LModelsWrong | LModelsExtra | LModelsView | LMetaDropped | LMetaWrong | LMetaEmptied.

Inductive op :=
| Parse (t : nat) (exp : Z) (upd : bool)   (* exp: cache_expiration_days IN MICROSECONDS (n days = n * DAY) *)
| Reload
| SetVersion (v : version)
| Advance (dt : Z)
| CorruptEntry (key : nat) (b : blob)
| CorruptLayout (k : layout_kind)
| CorruptFile
| DeleteFile
| ZeroFile       (* the file truncated to 0 bytes: a valid, empty SQLite database *)
| MakeDir.

Inductive out := OTree (t : nat) | ONoTree | OOther | ORaise (e : exn) | ODbRaise (e : dberr) | ONone.

Definition DAY : Z := 86400000000.

Definition is_clean (v : version) : bool := match v with Clean _ => true | Dirty _ => false end.

Definition same_key (k v : nat) (r : row) : bool := Nat.eqb (r_key r) k && Nat.eqb (r_ver r) v.

(* parser.py:1054-1058 SELECT ... WHERE txt_hash=? AND pymoca_version=? ; fetchone() *)
Definition lookup (k v : nat) (rows : list row) : option row := find (same_key k v) rows.

(* parser.py:1074-1078 UPDATE models SET last_hit = max(last_hit + 1, now) WHERE key *)
Definition touch (k v : nat) (now : Z) (rows : list row) : list row :=
  map (fun r => if same_key k v r then Row (r_key r) (r_ver r) (r_blob r) (Z.max (r_hit r + 1) now) else r) rows.

(* parser.py:1103-1106 INSERT OR REPLACE (primary key (txt_hash, pymoca_version)) *)
Definition insert (k v : nat) (b : blob) (now : Z) (rows : list row) : list row :=
  Row k v b now :: filter (fun r => negb (same_key k v r)) rows.

(* parser.py:1009 sqlite3.connect creates an empty database when there is no file *)
Definition connect (d : db) : db := match d with Missing => Db MAbsent TAbsent | _ => d end.

(* parser.py:1015-1027 PRAGMA integrity_check raises DatabaseError on a file that is not a database:
   remove the file, connect again *)
Definition integrity (d : db) : db := match d with Garbage => Db MAbsent TAbsent | _ => d end.

(* parser.py:838-926 _check_database_structure: a table whose PRAGMA table_info differs from the expected
   list is dropped and recreated empty; metadata keys are (re)inserted *)
Definition check_structure (d : db) : db :=
  match d with
  | Db m _ => Db (match m with MOk false rows => MOk false rows | _ => MOk false [] end) TOk
  | other => other
  end.

(* parser.py prune step: DELETE FROM models WHERE last_hit < now - expiration.
   [exp] is cache_expiration_days converted to microseconds (exp * 86 400 000 000; any integer, also negative or
   astronomically large: Z is unbounded, which is what makes the real code's plain integer arithmetic total) *)
Definition prune (now exp : Z) (d : db) : db :=
  match d with
  | Db (MOk x rows) t => Db (MOk x (filter (fun r => negb (r_hit r <? now - exp)) rows)) t
  | _ => d
  end.

(* connect + the once-per-process block of parse(): the database as the lookup sees it, or None when
   sqlite3.DatabaseError is raised before the lookup: the path is a directory (connect: "unable to open database
   file"), or there is a view named models (DROP TABLE IF EXISTS models: "use DROP VIEW to delete view models") *)
Definition init_db (s : state) (exp : Z) : option db :=
  match connect (s_db s) with
  | Dir => None
  | d0 =>
    if s_init s then Some d0
    else match integrity d0 with
         | Db MView _ => None
         | d1 => Some (prune (s_clock s) exp (check_structure d1))
         end
  end.

(* what a reader of the sqlite file sees *)
Inductive bstat := BGood | BNone | BRaises (e : exn) | BOther.
Inductive sview := SUnreadable | SRows (l : list (nat * nat * bstat)).

Section Model.
  Variable syntax_ok : nat -> bool.     (* _parse(text) is not None *)
  Variable caught : exn -> bool.        (* except clause around pickle.loads, parser.py:1080-1083 *)
  Variable handles_dberr : bool.        (* DatabaseError from the lookup in an initialised process -> fresh parse *)

  Definition fresh_out (t : nat) : out := if syntax_ok t then OTree t else ONoTree.

  (* parser.py:1087-1107: not found / not unpicklable -> _parse; store unless None *)
  Definition miss (x : bool) (rows : list row) (mt : meta) (s : state) (v t : nat) : state * out * nat :=
    let rows2 := if syntax_ok t then insert t v (Good t) (s_clock s) rows else rows in
    (St (Db (MOk x rows2) mt) true (s_clock s) (s_ver s), fresh_out t, 1%nat).

  (* some statement raised sqlite3.DatabaseError after [n] calls of _parse.  Handled (decorator): forget the
     initialisation, parse without cache.  Not handled: the error escapes; [i] = is the database marked initialised *)
  Definition db_fail (d : db) (e : dberr) (s : state) (t : nat) (i : bool) (n : nat) : state * out * nat :=
    if handles_dberr then (St d false (s_clock s) (s_ver s), fresh_out t, S n)
    else (St d i (s_clock s) (s_ver s), ODbRaise e, n).

  Definition parse_step (s : state) (t : nat) (exp : Z) (upd : bool) : state * out * nat :=
    match s_ver s with
    | Dirty _ => (s, fresh_out t, 1%nat)                                     (* dirty version: no caching *)
    | Clean v =>
      match init_db s exp with
      | None => db_fail (connect (s_db s)) OperationalError s t (s_init s) 0
      | Some (Db (MOk x rows) mt) =>
        match lookup t v rows with
        | None => miss x rows mt s v t
        | Some r =>
          let rows1 := if upd || (r_hit r <? s_clock s - DAY) then touch t v (s_clock s) rows else rows in
          let s1 := St (Db (MOk x rows1) mt) true (s_clock s) (s_ver s) in
          match r_blob r with
          | Good t' => (s1, OTree t', 0%nat)
          | OtherObject => (s1, OOther, 0%nat)
          | PickledNone => miss x rows1 mt s v t
          | Raises e => if caught e then miss x rows1 mt s v t else (s1, ORaise e, 0%nat)
          end
        end
      | Some (Db MView mt) =>
        (* initialised process: the SELECT on the (empty) view finds nothing; _parse; INSERT into a view raises *)
        if syntax_ok t then db_fail (Db MView mt) OperationalError s t true 1
        else (St (Db MView mt) true (s_clock s) (s_ver s), ONoTree, 1%nat)
      | Some Garbage => db_fail Garbage DatabaseError s t true 0          (* "file is not a database" *)
      | Some d => db_fail d OperationalError s t true 0                   (* "no such table / no such column" *)
      end
    end.

  Definition set_blob (key : nat) (b : blob) (rows : list row) : list row :=
    map (fun r => if Nat.eqb (r_key r) key then Row (r_key r) (r_ver r) b (r_hit r) else r) rows.

  Definition layout_step (k : layout_kind) (d : db) : db :=
    match d with
    | Db m t =>
      match k with
      (* DROP TABLE IF EXISTS models raises on a view: these two leave a view alone *)
      | LModelsDropped => match m with MView => d | _ => Db MAbsent t end
      | LModelsWrong => match m with MView => d | _ => Db MWrong t end
      | LModelsView => Db MView t
      | LModelsExtra => Db (match m with MOk _ rows => MOk true rows | other => other end) t
      | LMetaDropped => Db m TAbsent
      | LMetaWrong => Db m TWrong
      | LMetaEmptied => Db m t
      end
    | other => other
    end.

  Definition step (s : state) (o : op) : state * out * nat :=
    match o with
    | Parse t exp upd => parse_step s t exp upd
    | Reload => (St (s_db s) false (s_clock s) (s_ver s), ONone, 0%nat)
    | SetVersion v => (St (s_db s) (s_init s) (s_clock s) v, ONone, 0%nat)
    | Advance dt => (St (s_db s) (s_init s) (s_clock s + Z.max 0 dt) (s_ver s), ONone, 0%nat)
    | CorruptEntry key b =>
      (St (match s_db s with Db (MOk x rows) t => Db (MOk x (set_blob key b rows)) t | d => d end)
          (s_init s) (s_clock s) (s_ver s), ONone, 0%nat)
    | CorruptLayout k => (St (layout_step k (s_db s)) (s_init s) (s_clock s) (s_ver s), ONone, 0%nat)
    | CorruptFile => (St Garbage (s_init s) (s_clock s) (s_ver s), ONone, 0%nat)
    | DeleteFile => (St Missing (s_init s) (s_clock s) (s_ver s), ONone, 0%nat)
    | ZeroFile => (St (Db MAbsent TAbsent) (s_init s) (s_clock s) (s_ver s), ONone, 0%nat)
    | MakeDir => (St Dir (s_init s) (s_clock s) (s_ver s), ONone, 0%nat)
    end.

  Definition next (s : state) (o : op) : state := fst (fst (step s o)).
  Definition outcome (s : state) (o : op) : out := snd (fst (step s o)).

  Fixpoint exec (s : state) (h : list op) : state :=
    match h with [] => s | o :: h' => exec (next s o) h' end.

  (* outcomes of a history, one per op *)
  Fixpoint run (s : state) (h : list op) : list out :=
    match h with [] => [] | o :: h' => outcome s o :: run (next s o) h' end.

  (* ---- observation of the store, for the correspondence check ---- *)
  Definition stat_of (r : row) : bstat :=
    match r_blob r with
    | Good t' => if Nat.eqb t' (r_key r) then BGood else BOther
    | Raises e => BRaises e
    | PickledNone => BNone
    | OtherObject => BOther
    end.

  Definition view (d : db) : sview :=
    match d with
    | Missing => SUnreadable
    | Garbage => SUnreadable
    | Dir => SUnreadable
    | Db MView _ => SRows []
    | Db (MOk _ rows) _ => SRows (map (fun r => (r_key r, r_ver r, stat_of r)) rows)
    | Db _ _ => SUnreadable
    end.

  (* the two facts the property names about the store: no row under the key of a failing text; a row
     unpickles to its own text's tree or fails (None counts as "fails": it is re-parsed) *)
  Definition entry_fine (e : nat * nat * bstat) : bool :=
    let '(k, _, st) := e in
    syntax_ok k && match st with BOther => false | _ => true end.
  Definition facts_ok (v : sview) : bool :=
    match v with SRows l => forallb entry_fine l | _ => true end.

  Fixpoint run_full (s : state) (h : list op) : list (out * nat * sview) :=
    match h with
    | [] => []
    | o :: h' => let '(s', r, n) := step s o in (r, n, view (s_db s')) :: run_full s' h'
    end.
End Model.

Definition init_state : state := St Missing false 0 (Clean 0).

(* ---- decidable comparisons for the correspondence ---- *)
Definition out_eqb (a b : out) : bool :=
  match a, b with
  | OTree x, OTree y => Nat.eqb x y
  | ONoTree, ONoTree | OOther, OOther | ONone, ONone => true
  | ORaise x, ORaise y => exn_beq x y
  | ODbRaise x, ODbRaise y => dberr_beq x y
  | _, _ => false
  end.

Definition bstat_eqb (a b : bstat) : bool :=
  match a, b with
  | BGood, BGood | BNone, BNone | BOther, BOther => true
  | BRaises x, BRaises y => exn_beq x y
  | _, _ => false
  end.

Definition entry_eqb (a b : nat * nat * bstat) : bool :=
  let '(k1, v1, s1) := a in let '(k2, v2, s2) := b in Nat.eqb k1 k2 && Nat.eqb v1 v2 && bstat_eqb s1 s2.

Definition incl_b (l1 l2 : list (nat * nat * bstat)) : bool :=
  forallb (fun a => existsb (entry_eqb a) l2) l1.

Definition sview_eqb (a b : sview) : bool :=
  match a, b with
  | SUnreadable, SUnreadable => true
  | SRows l1, SRows l2 => Nat.eqb (length l1) (length l2) && incl_b l1 l2 && incl_b l2 l1
  | _, _ => false
  end.

(* a correspondence case: syntax_ok of the texts (by id), the history, and what the real parse()/sqlite
   file showed after every op *)
Definition case : Type := list bool * list op * list (out * nat * sview).

Definition sy_of (l : list bool) (t : nat) : bool := nth t l false.

(* property-level comparison: outcome of every op + the two store facts *)
Definition check_case (caught : exn -> bool) (flag : bool) (c : case) : bool :=
  let '(sy, h, observed) := c in
  let predicted := run_full (sy_of sy) caught flag init_state h in
  Nat.eqb (length predicted) (length observed) &&
  forallb (fun pq => let '((o1, _, v1), (o2, _, v2)) := pq in
                     out_eqb o1 o2 && Bool.eqb (facts_ok (sy_of sy) v1) (facts_ok (sy_of sy) v2))
          (combine predicted observed).

(* model-internal comparison (hit/miss and the row set): logged, never an obligation *)
Definition check_case_internal (caught : exn -> bool) (flag : bool) (c : case) : bool :=
  let '(sy, h, observed) := c in
  let predicted := run_full (sy_of sy) caught flag init_state h in
  Nat.eqb (length predicted) (length observed) &&
  forallb (fun pq => let '((o1, n1, v1), (o2, n2, v2)) := pq in
                     out_eqb o1 o2 && Nat.eqb n1 n2 && sview_eqb v1 v2)
          (combine predicted observed).
