(* C04 — executable model of pymoca.parser.ASTListener restricted to class structure
   (parser.py at /repo HEAD: class definition 90-102, exitComposition 130-169, import clause 539-575,
   extends clause 577-590, component clause / declaration 604-719).

   Input  = abstract concrete-syntax of a class (what the ANTLR parse tree carries).
   Output = the flat list of parsed classes (pre-order) with their symbol table, extends, imports,
            nested class names and equation / statement lists, or the exception raised.

   The ParseTreeWalker is modelled in state-passing style: one function per grammar rule, calling the
   enter*/exit* bodies in the walker's order.  Listener-global state `lst`: sym_count, "symbol_node is
   not None", and an allocation stamp used as the identity of the prefixes / dimensions / type OBJECTS
   a symbol points at (the per-declarator sharing that exitComponent_clause repairs by copying).
   Python objects that are referenced from two places (a Symbol is in clause.symbol_list and in
   class_node.symbols; an ExtendsClause is in the element list and in class_node.extends) are stored once,
   in the element result, and the class tables are read off in insertion order at exitComposition.

   `variant`: `head_variant` (all flags true) is /repo HEAD.  A false flag gives the code before one of the three
   repairs found by this check (commits 7cea29a, 480cfc0, e08c00c); kept for the `_refuted` witnesses only:
     v_allsec    false: ctx.epub / ctx.epro hold only the LAST public / protected element list
                 true : every section is labelled (exitComposition walks ctx.getChildren())
     v_dimsmerge false: clause dimensions overwrite a declarator's own dimensions
                 true : `Real[2] x[3]` gives [[3, 2]]
     v_implist   false: import A.{C,D,E} binds C and "D,E" (import_list.children[::2])
                 true : binds C, D, E
   `l_trace` is a ghost component of the listener state: (order, object identities) of every Symbol created so
   far, in creation order, i.e. in source order; nothing reads it.
   Expressions (dimension subscripts, modification values, equations, statements) are opaque canonical
   strings: their parsing is C03's subject.  No proofs here.  Stdlib only. *)
From Coq Require Import String List Bool Arith.
Import ListNotations.
Open Scope string_scope.
Open Scope list_scope.

Definition expr := string.

(* ---- abstract concrete syntax -------------------------------------------------------------- *)
Inductive modif := Modif (cm : option (list arg)) (val : option expr)   (* class_modification? ('=' expression)? *)
with arg :=
| Arg (name : string) (m : option modif)                                  (* element_modification *)
| ARedecl (prefixes type : list string) (name : string) (dims : option (list expr))
          (m : option modif) (comment : string)                           (* redeclare component_clause1 *)
| AShort (ctype name : string) (target : list string).                    (* redeclare short_class_definition *)

Record declr := mkD { d_name : string; d_dims : option (list expr); d_mod : option modif; d_comment : string }.
Record clause := mkC { c_prefixes : list string; c_type : list string; c_dims : option (list expr);
                       c_decls : list declr }.
Inductive import :=
| ImpQual (path : list string)                       (* import A.B;        *)
| ImpShort (short : string) (path : list string)     (* import S = A.B;    *)
| ImpStar (path : list string)                       (* import A.B.*;      *)
| ImpList (path : list string) (names : list string) (* import A.{C,D};    *).
Inductive label := Unl | Pub | Pro.

Inductive element :=
| EComp (c : clause)
| EExt (path : list string) (m : option (list arg)) (ann : bool)   (* ann: followed by annotation(...) with >= 1 argument *)
| EImp (i : import) (ann : bool)                                   (* description strings have no effect on the tree *)
| ECls (ctype name comment : string) (secs : list (label * list element))
       (eqs algs : list (bool * list expr)).   (* (initial?, equations) per section, source order *)

(* ---- parsed tree --------------------------------------------------------------------------- *)
Inductive omod := OCM (args : list oarg)                 (* ast.ClassModification *)
with oarg :=
| OArg (name : string) (mods : list omv)                 (* ClassModificationArgument(ElementModification) *)
| ORedecl (prefixes type : list string) (name : string) (dims : list (list expr)) (cm : option omod)
          (comment : string)                             (* …(ComponentClause with one Symbol), redeclare=True *)
| OShortR (ctype name : string) (target : list string)   (* …(ShortClassDefinition), redeclare=True *)
with omv := OVal (e : expr) | OCls (c : omod).

Inductive vis := Private | Protected | Public.            (* ast.Visibility 0, 1, 2 *)
Record osym := mkS { s_name : string; s_type : list string; s_prefixes : list string;
                     s_dims : list (list expr); s_vis : vis; s_order : nat; s_comment : string;
                     s_cm : option omod;
                     s_pid : nat; s_did : nat; s_tid : nat (* identity of the prefixes/dimensions/type object *) }.
Record oext := mkE { x_path : list string; x_vis : vis; x_cm : omod }.
Inductive oimp := OPath (p : list string) | OShort (p : list string) | OStar (ps : list (list string)).
Record oclass := mkO { o_path : list string; o_ctype : string; o_comment : string;
                       o_syms : list osym; o_exts : list oext; o_imports : list (string * oimp);
                       o_classes : list string;
                       o_eqs : list expr; o_ieqs : list expr; o_sts : list expr; o_ists : list expr }.
Inductive err := DupSym (n : string) | DupImport (n : string).   (* IOError(name, "already defined" / "already imported") *)
Inductive result (A : Type) := Ok (a : A) | Err (e : err).
Arguments Ok {A} a.
Arguments Err {A} e.

Record variant := mkV { v_allsec : bool; v_dimsmerge : bool; v_implist : bool;
                        v_redecl : bool (* exitComponent_clause1 restores comp_clause / symbol_node: see walk_arg *) }.
Definition head_variant := mkV true true true false.
Definition prefix_variant := mkV false false false false.
Definition value_arg (e : expr) : oarg := OArg "value" [OVal e].
Definition default_dims : list (list expr) := [["None"]].   (* [[Primary(value=None)]] *)

(* ---- modifications (exitModification_* 730-739, exitElement_modification 721-728,
        exitArgument 171-179, exitClass_modification 184-188) -------------------------------- *)
Fixpoint conv_modif (m : modif) : list omv :=
  match m with
  | Modif cm val =>
      (match cm with Some args => [OCls (OCM (map conv_arg args))] | None => [] end)
      ++ (match val with Some e => [OVal e] | None => [] end)
  end
with conv_arg (a : arg) : oarg :=
  match a with
  | Arg n m => OArg n (match m with Some m' => conv_modif m' | None => [] end)
  | ARedecl p t n d m c =>
      (* the redeclared Symbol: exitDeclaration 699-719 applied to its own modification *)
      ORedecl p t n (match d with Some subs => [subs] | None => default_dims end)
              (match m with
               | None => None
               | Some (Modif cm val) =>
                   match cm, val with
                   | None, None => None
                   | Some a', None => Some (OCM (map conv_arg a'))
                   | None, Some e => Some (OCM [value_arg e])
                   | Some a', Some e => Some (OCM (map conv_arg a' ++ [value_arg e]))
                   end
               end) c
  | AShort ct n t => OShortR ct n t
  end.

Definition conv_args (m : option (list arg)) : omod :=
  OCM (match m with Some a => map conv_arg a | None => [] end).

(* exitDeclaration 703-719: `for mod in self.ast[ctx.modification()]` *)
Definition decl_step (cur : option omod) (mv : omv) : option omod :=
  match mv with
  | OCls c => Some c                                                     (* 705-706 *)
  | OVal e => match cur with
              | None => Some (OCM [value_arg e])                         (* 714-717 *)
              | Some (OCM args) => Some (OCM (args ++ [value_arg e]))    (* 718-719 *)
              end
  end.
Definition decl_cm (m : option modif) : option omod :=
  match m with None => None | Some m' => fold_left decl_step (conv_modif m') None end.

(* ---- listener-global state ----------------------------------------------------------------- *)
Definition key_t : Type := nat * (nat * nat * nat).
Record lst := mkL { l_count : nat (* sym_count *); l_symset : bool (* symbol_node is not None *);
                    l_next : nat (* next object stamp *);
                    l_trace : list key_t (* ghost: (order, ids) of the symbols created so far, in source order *) }.

Section MapM.
  Context {A B S : Type} (f : A -> S -> result (B * S)).
  Fixpoint mapM (xs : list A) (s : S) : result (list B * S) :=
    match xs with
    | [] => Ok ([], s)
    | x :: r => match f x s with
                | Err e => Err e
                | Ok (b, s1) => match mapM r s1 with
                                | Err e => Err e
                                | Ok (bs, s2) => Ok (b :: bs, s2)
                                end
                end
    end.
End MapM.

Definition mem (x : string) (l : list string) : bool := existsb (String.eqb x) l.
(* one component_declaration inside a clause whose prefixes / type / default-dimensions objects are P T D0 *)
Definition do_declr (cl : clause) (P T D0 : nat) (d : declr) (st : list string * lst)
  : result (osym * (list string * lst)) :=
  let '(seen, l) := st in
  (* enterComponent_declaration 652-657: Symbol(order=sym_count); sym_count += 1; symbol_node = sym *)
  let order := l_count l in
  let cnt := S (l_count l) in
  (* enterDeclaration 683-697: name, dimensions / prefixes / type = the clause's OBJECTS; duplicate check *)
  if mem (d_name d) seen then Err (DupSym (d_name d)) else
  (* exitDeclaration 699-719: own subscripts -> fresh list; modification *)
  let '(did, dims, nx) := match d_dims d with
                          | Some subs => (l_next l, [subs], S (l_next l))
                          | None => (D0, default_dims, l_next l)
                          end in
  (* exitComponent_declaration 675-677: comment; symbol_node = None *)
  Ok (mkS (d_name d) [] (c_prefixes cl) dims Private order (d_comment d) (decl_cm (d_mod d)) P did T,
      (seen ++ [d_name d], mkL cnt false nx (l_trace l))).

Definition set_type (t : list string) (s : osym) : osym :=
  mkS (s_name s) t (s_prefixes s) (s_dims s) (s_vis s) (s_order s) (s_comment s) (s_cm s) (s_pid s) (s_did s) (s_tid s).
Definition set_dims (did : nat) (d : list (list expr)) (s : osym) : osym :=
  mkS (s_name s) (s_type s) (s_prefixes s) d (s_vis s) (s_order s) (s_comment s) (s_cm s) (s_pid s) did (s_tid s).
Definition set_ids (p d t : nat) (s : osym) : osym :=
  mkS (s_name s) (s_type s) (s_prefixes s) (s_dims s) (s_vis s) (s_order s) (s_comment s) (s_cm s) p d t.
Definition set_vis (v : vis) (s : osym) : osym :=
  mkS (s_name s) (s_type s) (s_prefixes s) (s_dims s) v (s_order s) (s_comment s) (s_cm s) (s_pid s) (s_did s) (s_tid s).

(* repaired 627-631: a declarator that still points at the clause's default dimensions takes the clause
   dimensions; one with own subscripts gets a fresh list own ++ clause *)
Fixpoint merge_dims (D0 Dc : nat) (subs : list expr) (ss : list osym) (n : nat) : list osym * nat :=
  match ss with
  | [] => ([], n)
  | s :: r => if Nat.eqb (s_did s) D0
              then let '(r', n') := merge_dims D0 Dc subs r n in (set_dims Dc [subs] s :: r', n')
              else let '(r', n') := merge_dims D0 Dc subs r (S n) in
                   (set_dims n [hd [] (s_dims s) ++ subs] s :: r', n')
  end.

(* 636-640: list(s.dimensions), list(s.prefixes), deepcopy(clause.type) for symbol_list[1:] *)
Fixpoint copy_syms (ss : list osym) (n : nat) : list osym * nat :=
  match ss with
  | [] => ([], n)
  | s :: r => let '(r', n') := copy_syms r (3 + n) in (set_ids (S n) n (S (S n)) s :: r', n')
  end.

(* exitComponent_clause 618-640 *)
Definition close_clause (v : variant) (cl : clause) (D0 : nat) (ss : list osym) (n : nat) : list osym * nat :=
  (* 626 clause.type.__dict__.update(...): every symbol of the clause points at that object *)
  let ss1 := map (set_type (c_type cl)) ss in
  (* 627-631 *)
  let '(ss2, n2) := match c_dims cl with
                    | Some subs => if v_dimsmerge v then merge_dims D0 n subs ss1 (S n)
                                   else (map (set_dims n [subs]) ss1, S n)
                    | None => (ss1, n)
                    end in
  match ss2 with
  | [] => ([], n2)
  | s0 :: tl => let '(tl', n3) := copy_syms tl n2 in (s0 :: tl', n3)
  end.

Definition key (s : osym) : key_t := (s_order s, (s_pid s, s_did s, s_tid s)).

Definition do_clause (v : variant) (cl : clause) (st : list string * lst) : result (list osym * (list string * lst)) :=
  let '(seen, l) := st in
  (* enterComponent_clause 604-609: prefixes list; ComponentClause() allocates its type and default dimensions *)
  let P := l_next l in let T := S P in let D0 := S T in
  match mapM (do_declr cl P T D0) (c_decls cl) (seen, mkL (l_count l) (l_symset l) (S D0) (l_trace l)) with
  | Err e => Err e
  | Ok (ss, (seen', l')) =>
      let '(ss', n') := close_clause v cl D0 ss (l_next l') in
      Ok (ss', (seen', mkL (l_count l') (l_symset l') n' (l_trace l' ++ map key ss')))
  end.

(* ---- imports (exitImport_clause 539-575); class_node.imports is an OrderedDict -------------- *)
Fixpoint dict_set {V : Type} (k : string) (x : V) (d : list (string * V)) : list (string * V) :=
  match d with
  | [] => [(k, x)]
  | (k', y) :: r => if String.eqb k k' then (k, x) :: r else (k', y) :: dict_set k x r
  end.
Fixpoint dict_get {V : Type} (k : string) (d : list (string * V)) : option V :=
  match d with [] => None | (k', y) :: r => if String.eqb k k' then Some y else dict_get k r end.

Fixpoint join (sep : string) (l : list string) : string :=
  match l with [] => "" | x :: r => match r with [] => x | _ => (x ++ sep ++ join sep r)%string end end.

(* 551: import_list.children[::2] of the right-recursive rule IDENT (',' import_list)* *)
Definition import_names (v : variant) (ns : list string) : list string :=
  if v_implist v then ns else
  match ns with [] => [] | n :: r => match r with [] => [n] | _ => [n; join "," r] end end.

Fixpoint add_simple (ps : list (list string)) (d : list (string * oimp)) : result (list (string * oimp)) :=
  match ps with
  | [] => Ok d
  | p :: r => let name := last p "" in                                   (* 571 *)
              match dict_get name d with
              | Some _ => Err (DupImport name)                            (* 573-574 *)
              | None => add_simple r (dict_set name (OPath p) d)          (* 575 *)
              end
  end.

Definition add_import (v : variant) (i : import) (d : list (string * oimp)) : result (list (string * oimp)) :=
  match i with
  | ImpShort s p => Ok (dict_set s (OShort p) d)                                   (* 558-560 *)
  | ImpStar p => match dict_get "*" d with                                          (* 561-567 *)
                 | Some (OStar ps) => Ok (dict_set "*" (OStar (ps ++ [p])) d)
                 | _ => Ok (dict_set "*" (OStar [p]) d)
                 end
  | ImpQual p => add_simple [p] d
  | ImpList p ns => add_simple (map (fun n => p ++ [n]) (import_names v ns)) d      (* 546-555 *)
  end.

(* ---- elements ------------------------------------------------------------------------------ *)
Record cstate := mkK { k_seen : list string (* keys of class_node.symbols *);
                       k_imports : list (string * oimp); k_classes : list string }.
Inductive ores := RSyms (ss : list osym) | RExt (e : oext) | ROther.    (* self.ast[element ctx] *)

(* extends clause with arguments: enterElement_modification 666-673 creates a Symbol and bumps sym_count
   when symbol_node is None; nothing resets symbol_node until the next component declaration ends *)
Definition bump (b : bool) (l : lst) : lst :=
  if b then (if l_symset l then l else mkL (S (l_count l)) true (l_next l) (l_trace l)) else l.
(* (sym_count, symbol_node is not None) along the arguments of a modification:
   - an element modification creates a Symbol when symbol_node is None (666-673);
   - a redeclared component (component_clause1 / component_declaration1 659-664, 679-681) takes an order number, is
     the symbol_node while its own modification is walked, and leaves symbol_node = None — or, with the repair
     v_redecl, the symbol_node of the enclosing declaration;
   - a short class redeclaration (without modification) touches nothing.
   Inside an extends clause the redeclared component is not entered into class_node.symbols (in_extends_clause).
   NOT MODELLED: redeclarations inside the modification of a COMPONENT (do_declr ignores them); there /repo HEAD
   enters the redeclared component into the enclosing class and loses the component's own modification. *)
Fixpoint walk_modif (rs : bool) (m : modif) (s : nat * bool) : nat * bool :=
  match m with
  | Modif cm _ => match cm with Some args => fold_left (fun s' a => walk_arg rs a s') args s | None => s end
  end
with walk_arg (rs : bool) (a : arg) (s : nat * bool) : nat * bool :=
  match a with
  | Arg _ m => let s1 := if snd s then s else (S (fst s), true) in
               match m with Some m' => walk_modif rs m' s1 | None => s1 end
  | ARedecl _ _ _ _ m _ =>
      let s2 := match m with Some m' => walk_modif rs m' (S (fst s), true) | None => (S (fst s), true) end in
      (fst s2, if rs then snd s else false)
  | AShort _ _ _ => s
  end.
Definition walk_args (rs : bool) (m : option (list arg)) (s : nat * bool) : nat * bool :=
  match m with Some args => fold_left (fun s' a => walk_arg rs a s') args s | None => s end.
(* the same happens for the arguments of an annotation that follows an extends or import clause *)
Definition ext_count (rs : bool) (m : option (list arg)) (ann : bool) (l : lst) : lst :=
  let s := walk_args rs m (l_count l, l_symset l) in
  bump ann (mkL (fst s) (snd s) (l_next l) (l_trace l)).

Definition vis_of_label (lb : label) : vis := match lb with Unl => Private | Pub => Public | Pro => Protected end.
Definition set_vis_res (v : vis) (r : ores) : ores :=
  match r with
  | RSyms ss => RSyms (map (set_vis v) ss)
  | RExt e => RExt (mkE (x_path e) v (x_cm e))
  | ROther => ROther
  end.
Definition label_eqb (a b : label) : bool :=
  match a, b with Unl, Unl | Pub, Pub | Pro, Pro => true | _, _ => false end.

(* ANTLR keeps in a labelled sub-rule (epub= / epro=) the LAST match: index of the last section with label lb *)
Fixpoint last_idx (lb : label) (secs : list (label * list ores)) (i : nat) (acc : option nat) : option nat :=
  match secs with
  | [] => acc
  | (lb', _) :: r => last_idx lb r (S i) (if label_eqb lb lb' then Some i else acc)
  end.
Definition opt_is (o : option nat) (i : nat) : bool := match o with Some j => Nat.eqb j i | None => false end.
Fixpoint assign_at (epub epro : option nat) (secs : list (label * list ores)) (i : nat) : list (list ores) :=
  match secs with
  | [] => []
  | (lb, rs) :: r =>
      (match lb with
       | Unl => map (set_vis_res Private) rs                                       (* 131-136 epriv *)
       | Pub => if opt_is epub i then map (set_vis_res Public) rs else rs          (* 138-144 *)
       | Pro => if opt_is epro i then map (set_vis_res Protected) rs else rs       (* 146-152 *)
       end) :: assign_at epub epro r (S i)
  end.
Definition assign_vis (v : variant) (secs : list (label * list ores)) : list (list ores) :=
  if v_allsec v then map (fun s => map (set_vis_res (vis_of_label (fst s))) (snd s)) secs
  else assign_at (last_idx Pub secs 0 None) (last_idx Pro secs 0 None) secs 0.

Definition syms_of (rs : list ores) : list osym :=
  flat_map (fun r => match r with RSyms ss => ss | _ => [] end) rs.
Definition exts_of (rs : list ores) : list oext :=
  flat_map (fun r => match r with RExt e => [e] | _ => [] end) rs.

(* exitComposition 154-166 *)
Definition split_init (secs : list (bool * list expr)) : list expr * list expr :=
  fold_left (fun (acc : list expr * list expr) (s : bool * list expr) =>
               if fst s then (fst acc, snd acc ++ snd s) else (fst acc ++ snd s, snd acc)) secs ([], []).

Definition finish_class (v : variant) (path : list string) (ct cm : string)
           (srs : list (label * list ores)) (k : cstate) (eqs algs : list (bool * list expr)) : oclass :=
  let rs := concat (assign_vis v srs) in
  let '(e, ie) := split_init eqs in
  let '(s, is_) := split_init algs in
  mkO path ct cm (syms_of rs) (exts_of rs) (k_imports k) (k_classes k) e ie s is_.

Fixpoint do_element (v : variant) (path : list string) (e : element) (st : cstate * lst)
  : result ((ores * list oclass) * (cstate * lst)) :=
  let '(k, l) := st in
  match e with
  | EComp cl =>
      match do_clause v cl (k_seen k, l) with
      | Err x => Err x
      | Ok (ss, (seen', l')) => Ok ((RSyms ss, []), (mkK seen' (k_imports k) (k_classes k), l'))
      end
  | EExt p m ann =>                                                    (* 577-590 *)
      Ok ((RExt (mkE p Private (conv_args m)), []), (k, ext_count (v_redecl v) m ann l))
  | EImp i ann =>
      match add_import v i (k_imports k) with
      | Err x => Err x
      | Ok im => Ok ((ROther, []), (mkK (k_seen k) im (k_classes k), bump ann l))
      end
  | ECls ct n cm secs eqs algs =>
      (* enterClass_definition 90-98: a fresh class node is pushed *)
      let path' := path ++ [n] in
      match mapM (fun (sec : label * list element) s =>
                    match mapM (do_element v path') (snd sec) s with
                    | Err x => Err x
                    | Ok (rs, s') => Ok ((fst sec, rs), s')
                    end) secs (mkK [] [] [], l) with
      | Err x => Err x
      | Ok (srs, (k', l')) =>
          (* exitComposition 130-169; exitClass_definition 100-102: popped, attached to the enclosing node *)
          let own := finish_class v path' ct cm (map (fun s => (fst s, map fst (snd s))) srs) k' eqs algs in
          let nested := concat (map (fun s => concat (map snd (snd s))) srs) in
          Ok ((ROther, own :: nested), (mkK (k_seen k) (k_imports k) (k_classes k ++ [n]), l'))
      end
  end.

(* a file: stored_definition_class*, attached to the listener's root class node *)
Definition init_lst : lst := mkL 0 false 0 [].
Definition run_file_full (v : variant) (cs : list element) : result (list oclass * lst) :=
  match mapM (do_element v []) cs (mkK [] [] [], init_lst) with
  | Err x => Err x
  | Ok (rs, (_, l)) => Ok (concat (map snd rs), l)
  end.
Definition run_file (v : variant) (cs : list element) : result (list oclass) :=
  match run_file_full v cs with Err x => Err x | Ok (cs', _) => Ok cs' end.

(* ---- observation format and the correspondence check --------------------------------------- *)
Fixpoint show_omod (c : omod) : string :=
  match c with OCM args => ("(" ++ join "," (map show_oarg args) ++ ")")%string end
with show_oarg (a : oarg) : string :=
  match a with
  | OArg n mods => (n ++ "[" ++ join ";" (map show_omv mods) ++ "]")%string
  | ORedecl p t n d cm c =>
      ("redeclare{" ++ join " " p ++ "|" ++ join "." t ++ "|" ++ n ++ "|" ++ join ";" (map (join ",") d) ++ "|"
       ++ (match cm with None => "None" | Some c' => show_omod c' end) ++ "|" ++ c ++ "}")%string
  | OShortR ct n t => ("redeclare-short{" ++ ct ++ "|" ++ n ++ "|" ++ join "." t ++ "}")%string
  end
with show_omv (m : omv) : string :=
  match m with OVal e => ("=" ++ e)%string | OCls c => show_omod c end.

Definition show_cm (o : option omod) : string := match o with None => "None" | Some c => show_omod c end.
Definition show_imp (i : oimp) : string :=
  match i with
  | OPath p => ("path:" ++ join "." p)%string
  | OShort p => ("short:" ++ join "." p)%string
  | OStar ps => ("star:" ++ join "|" (map (join ".") ps))%string
  end.
Definition vis_code (v : vis) : nat := match v with Private => 0 | Protected => 1 | Public => 2 end.

Definition eqb_list {A : Type} (eq : A -> A -> bool) : list A -> list A -> bool :=
  fix go l1 l2 := match l1, l2 with
                  | [], [] => true
                  | a :: r, b :: s => eq a b && go r s
                  | _, _ => false
                  end.
Definition eqb_prod {A B : Type} (ea : A -> A -> bool) (eb : B -> B -> bool) (x y : A * B) : bool :=
  ea (fst x) (fst y) && eb (snd x) (snd y).
Definition ls_eqb := eqb_list String.eqb.

(* name, type, prefixes, dimensions, (visibility, order), (comment, class_modification), (pid, did, tid) *)
Definition obs_sym : Type :=
  string * list string * list string * list (list string) * (nat * nat) * (string * string) * (nat * nat * nat).
Definition obs_ext : Type := list string * nat * string.
(* path, (type, comment), symbols, extends, imports, classes, (equations, initial_equations), (statements, initial_statements) *)
Definition obs_class : Type :=
  list string * (string * string) * list obs_sym * list obs_ext * list (string * string) * list string
  * (list string * list string) * (list string * list string).
Inductive obs := ObsOk (cs : list obs_class) | ObsErr (kind : nat) (name : string).

Definition nat3_eqb := eqb_prod (eqb_prod Nat.eqb Nat.eqb) Nat.eqb.
Definition obs_sym_eqb : obs_sym -> obs_sym -> bool :=
  eqb_prod (eqb_prod (eqb_prod (eqb_prod (eqb_prod (eqb_prod String.eqb ls_eqb) ls_eqb) (eqb_list ls_eqb))
                               (eqb_prod Nat.eqb Nat.eqb)) (eqb_prod String.eqb String.eqb)) nat3_eqb.
Definition obs_ext_eqb : obs_ext -> obs_ext -> bool := eqb_prod (eqb_prod ls_eqb Nat.eqb) String.eqb.
Definition obs_class_eqb : obs_class -> obs_class -> bool :=
  eqb_prod (eqb_prod (eqb_prod (eqb_prod (eqb_prod (eqb_prod (eqb_prod ls_eqb (eqb_prod String.eqb String.eqb))
    (eqb_list obs_sym_eqb)) (eqb_list obs_ext_eqb)) (eqb_list (eqb_prod String.eqb String.eqb))) ls_eqb)
    (eqb_prod ls_eqb ls_eqb)) (eqb_prod ls_eqb ls_eqb).
Definition obs_eqb (a b : obs) : bool :=
  match a, b with
  | ObsOk x, ObsOk y => eqb_list obs_class_eqb x y
  | ObsErr k n, ObsErr k' n' => Nat.eqb k k' && String.eqb n n'
  | _, _ => false
  end.

(* object identities are compared up to renaming: first-occurrence index over the whole file *)
Fixpoint index_of (x : nat) (l : list nat) (i : nat) : nat :=
  match l with [] => i | y :: r => if Nat.eqb x y then i else index_of x r (S i) end.
Definition firsts (l : list nat) : list nat :=
  fold_left (fun acc x => if existsb (Nat.eqb x) acc then acc else acc ++ [x]) l [].
Definition canon (all : list nat) (x : nat) : nat := index_of x (firsts all) 0.

Definition to_obs (r : result (list oclass)) : obs :=
  match r with
  | Err (DupSym n) => ObsErr 0 n
  | Err (DupImport n) => ObsErr 1 n
  | Ok cs =>
      let all := flat_map o_syms cs in
      let ps := map s_pid all in let ds := map s_did all in let ts := map s_tid all in
      ObsOk (map (fun c =>
        (o_path c, (o_ctype c, o_comment c),
         map (fun s => (s_name s, s_type s, s_prefixes s, s_dims s, (vis_code (s_vis s), s_order s),
                        (s_comment s, show_cm (s_cm s)),
                        (canon ps (s_pid s), canon ds (s_did s), canon ts (s_tid s)))) (o_syms c),
         map (fun e => (x_path e, vis_code (x_vis e), show_omod (x_cm e))) (o_exts c),
         map (fun kv => (fst kv, show_imp (snd kv))) (o_imports c),
         o_classes c, (o_eqs c, o_ieqs c), (o_sts c, o_ists c))) cs)
  end.

Definition check_case (c : variant * list element * obs) : bool :=
  let '(v, cs, o) := c in obs_eqb (to_obs (run_file v cs)) o.
